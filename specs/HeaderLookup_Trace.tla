--------------------------- MODULE HeaderLookup_Trace ---------------------------
(* Growth item X06 (b): contract-only trace validation of the HeaderLookup filter.               *)
(*                                                                                              *)
(* The harness executes TLC-generated schedules on a real HeaderLookup filter over a real        *)
(* (embedded etcd) cluster and logs what happened:                                              *)
(*   reset    a new world: configuration                                                        *)
(*   put/del  a store operation that the harness performed (n = its number)                     *)
(*   deliver  the filter's watcher has taken AND processed the snapshot that the real syncer     *)
(*            sent for the store as of operation `upto`                                         *)
(*   req      Handle was called (id, header value, path class, X-H1 present before?)            *)
(*   done     Handle returned: the request's X-H1 / X-H2 afterwards, other headers touched?     *)
(*   reload   a new generation of the filter replaced the old one                               *)
(* Nothing of the filter's inside (cache, hit or miss) is part of this specification: it keeps   *)
(* the store history and `floor` (the version of every key in the newest snapshot the filter has *)
(* processed) and judges every `done`: the headers must be those of a version m of the request's  *)
(* key with  floor-at-the-request's-start <= m <= current.  The specification is deterministic;   *)
(* a `done` that breaks the contract is consumed all the same and reported by TLC as VERIF_BAD    *)
(* (so that one run judges every request of every behaviour).                                    *)
EXTENDS HeaderLookupDefs, Json, TLC, IOUtils
TLog == ndJsonDeserialize(IOEnv.VERIF_TRACE)

HVs == {"u1", "u2"}
PCs == {"a", "b"}
Keys == HVs \X (PCs \cup {""})
Ids == {1, 2, 3}        \* 1, 2: gated requests (may overlap anything); 3: plain requests

VARIABLES cfg, hist, floor, pend, l
tvars == <<cfg, hist, floor, pend, l>>
NoPend == [k |-> <<"", "">>, hv |-> "-", floor0 |-> 0, pre |-> FALSE]

E == TLog[l]
IsEvent(e) == l <= Len(TLog) /\ TLog[l].ev = e /\ l' = l + 1
KeyT(j) == <<j[1], j[2]>>

TReset == /\ IsEvent("reset")
          /\ cfg' = [regex |-> E.regex, pfx |-> E.pfx]
          /\ hist' = <<>> /\ floor' = [k \in Keys |-> 0] /\ pend' = [i \in Ids |-> NoPend]
TWrite == /\ (IsEvent("put") \/ IsEvent("del"))
          /\ E.n = Len(hist) + 1 /\ KeyT(E.k) \in Keys
          /\ (E.ev = "put" => E.cls \in Classes) /\ (E.ev = "del" => E.cls = "absent")
          /\ hist' = Append(hist, [k |-> KeyT(E.k), cls |-> E.cls])
          /\ UNCHANGED <<cfg, floor, pend>>
TDeliver == /\ IsEvent("deliver")
            /\ E.upto \in 0..Len(hist)
            /\ floor' = [k \in Keys |-> IF VerAt(hist, k, E.upto) > floor[k] THEN VerAt(hist, k, E.upto) ELSE floor[k]]
            /\ UNCHANGED <<cfg, hist, pend>>
TReq == /\ IsEvent("req")
        /\ E.id \in Ids /\ pend[E.id] = NoPend
        /\ LET k == KeyOf(cfg, E.hv, E.pc) IN
           pend' = [pend EXCEPT ![E.id] = [k |-> k, hv |-> E.hv, floor0 |-> IF k \in Keys THEN floor[k] ELSE 0, pre |-> E.pre]]
        /\ UNCHANGED <<cfg, hist, floor>>
Conforms(p, e) ==
    /\ ~e.other                                  \* no other request header was touched
    /\ IF p.hv = "" THEN [h1 |-> e.h1, h2 |-> e.h2] = Untouched(p.pre)
       ELSE \E m \in VersionsOf(hist, p.k) \cup {0} :
              /\ m >= p.floor0
              /\ [h1 |-> e.h1, h2 |-> e.h2] = Headers(hist, m, p.pre)
(* the version the observed headers claim to come from (-1: none) - printed with a breach, to classify it *)
ObsN(e) == IF e.h2.t = "val" THEN e.h2.n ELSE IF e.h1.t = "val" THEN e.h1.n ELSE -1
TDone == /\ IsEvent("done")
         /\ E.id \in Ids /\ pend[E.id] # NoPend
         /\ IF Conforms(pend[E.id], E) THEN TRUE
            ELSE PrintT(<<"VERIF_BAD", l, pend[E.id].floor0, ObsN(E), ObsN(E) \in VersionsOf(hist, pend[E.id].k)>>)
         /\ pend' = [pend EXCEPT ![E.id] = NoPend]
         /\ UNCHANGED <<cfg, hist, floor>>
TReload == (IsEvent("reload") \/ IsEvent("nodeliver")) /\ UNCHANGED <<cfg, hist, floor, pend>>

TNext == TReset \/ TWrite \/ TDeliver \/ TReq \/ TDone \/ TReload
TInit == /\ l = 1 /\ cfg = [regex |-> FALSE, pfx |-> "slash"] /\ hist = <<>> /\ floor = [k \in Keys |-> 0]
         /\ pend = [i \in Ids |-> NoPend]
TSpec == TInit /\ [][TNext]_tvars

ASSUME TLCSet(1, 0)
HWM == TLCSet(1, IF l - 1 > TLCGet(1) THEN l - 1 ELSE TLCGet(1))
Accepted == /\ PrintT(<<"VERIF_HWM", TLCGet(1), Len(TLog)>>)
            /\ TLCGet(1) = Len(TLog)
FloorBelowCurrent == \A k \in Keys : floor[k] <= CurVer(hist, k)
=============================================================================

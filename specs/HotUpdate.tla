------------------------------ MODULE HotUpdate ------------------------------
(* C11.  Hot update of an HTTPServer's routing instance, of Pipelines and of their stateful       *)
(* filters while requests are in flight (pkg/object/httpserver/mux.go, pkg/object/pipeline,       *)
(* pkg/object/trafficcontroller, Inherit/Close of the filter kinds).                              *)
(*                                                                                                *)
(* What is modelled                                                                               *)
(*   server     mux.inst, an atomic.Value holding the routing instance.  A generation of the       *)
(*              server spec is sgen[g] = [rv, ov]: version rv of its *rules* (they route to       *)
(*              pipeline BackendOf(g) and rewrite the path to "/g<rv>") and version ov of its      *)
(*              *options* (xForwardedFor = XffOf(g); the server-level ipFilter blocks client "b"   *)
(*              iff Blocked(g, "b")).  An update changes the rules, the options or both, so a      *)
(*              request can tell which version of either part handled it.  mux.reload = SrvBuild   *)
(*              (reads the old instance, builds the new one) ; SrvStore (m.inst.Store).            *)
(*   namespace  Namespace.pipelines, a sync.Map  name -> entity;  ns[p] is the id of the pipeline *)
(*              generation object stored under p (0 = absent).                                    *)
(*   pipeline   generation objects pobj[id] = [name, ver, ref, closed].  ver is the version of     *)
(*              the spec the object was built from.  Every pipeline consists of the stateful      *)
(*              filter kinds Kinds[1..NF]; ref[i] is the *state cell* filter i points to: the     *)
(*              cell created by object ref[i] (0 = nil pointer).  `dead` holds the cells a Close   *)
(*              made unusable.                                                                    *)
(*   updater    one at a time (TrafficController.mutex / the HTTPServer's event loop):            *)
(*                SrvBuild ; SrvStore                                                             *)
(*                PipBegin ; PipInheritF x NF ; PipClosePrev ; PipStore      (Update/Apply)       *)
(*                ApplySame                                  (Apply with an equal spec: no-op)    *)
(*                CtlInherit                 (new generation of the TrafficController: no-op)     *)
(*                CreateInit ; CreateStore,  DeleteRemove ; DeleteClose       (another object)    *)
(*   requests   ReqStart ; LoadInst ; Route ; GetHandler ; RunFilter x NF ; ReqDone, each step    *)
(*              reading only from the generation the request holds.  A filter of a kind in        *)
(*              Blocking waits for an external party (Proxy: the backend) in the middle of its    *)
(*              Handle: RunFilter is then RunEnter ; RunExit.  A request may also go              *)
(*              straight to a pipeline (GetHandler ; RunFilter..), as Namespace.GetHandler users.  *)
(*                                                                                                *)
(* Implementation-shaped layer: how a filter kind's Inherit treats the state cell of the previous *)
(* generation and what its Close does to it are parameters (observed on the real code):           *)
(*   Inh(k)  "fresh"  the new generation creates its own cell, the previous one keeps its cell    *)
(*           "share"  new.ref = prev.ref                                                          *)
(*           "move"   new.ref = prev.ref ; prev.ref = nil          (RateLimiter.reload at the pin)*)
(*   Cls(k)  "none" / "stop"  Close leaves Handle usable (stops background work only)             *)
(*           "kill"   Handle after Close fails, and so does a call that is in flight during Close *)
(* The contract (what C11 states) are the invariants at the end; they must hold for the modes of  *)
(* the real code.                                                                                 *)
EXTENDS Integers, Sequences, FiniteSets

CONSTANTS Reqs,        \* request processes (strings)
          Routed,      \* <<pa, pb>>: odd versions of the rules route to pa, even ones to pb
          Others,      \* pipelines the server never routes to (created / deleted by the updater)
          Kinds,       \* sequence of the stateful filter kinds of every pipeline
          InhRl, ClsRl, InhPx, ClsPx,   \* modes of the kinds "rl" (RateLimiter) and "px" (Proxy)
          MaxOps,      \* bounds (model checking only): updater operations in total,
          MaxSrv,      \*   server reloads,
          MaxPip,      \*   pipeline updates,
          MaxOther,    \*   create/delete operations,
          MaxSame,     \*   no-op applies,
          MaxReq,      \*   requests per process
          Blocking,    \* kinds whose Handle is in flight at an external party between two steps
          SrvKinds,    \* what a server reload may change: subset of {"rules", "opts", "both"}
          IPs,         \* client addresses of requests: subset of {"n", "b"} ("b" is blocked by every other options version)
          LoadPerStep, \* impl knob (FALSE in the code): every step of a request re-reads m.inst
          Targets      \* what a request may address: "srv" (through the server) and/or pipelines (directly)

NF == Len(Kinds)
Pipes == {Routed[1], Routed[2]} \cup Others

Inh(k) == CASE k = "rl" -> InhRl [] k = "px" -> InhPx [] OTHER -> "fresh"
Cls(k) == CASE k = "rl" -> ClsRl [] k = "px" -> ClsPx [] OTHER -> "stop"

VARIABLES muxInst,  \* generation (index into sgen) stored in mux.inst
          sgen,     \* sequence of the server generations built so far: [rv, ov]
          ns,       \* [Pipes -> id]  the namespace map (0 = absent)
          pobj,     \* sequence of pipeline generation objects
          dead,     \* set of <<creator id, filter index>>: state cells killed by a Close
          u,        \* the updater: [op, p, new, i]
          rq,       \* [Reqs -> request record]
          cnt,      \* budget counters [srv, pip, other, same] and per request process
          last      \* the step just taken + what an observer of the real system must see (not in VIEW)

vars == <<muxInst, sgen, ns, pobj, dead, u, rq, cnt, last>>
view == <<muxInst, sgen, ns, pobj, dead, u, rq, cnt>>

BackendOf(g) == Routed[((sgen[g].rv - 1) % 2) + 1]
XffOf(g) == (sgen[g].ov % 2) = 1
Blocked(g, ip) == ip = "b" /\ (sgen[g].ov % 2) = 0

Idle == [op |-> "idle", p |-> "-", new |-> 0, i |-> 0]
NoReq == [pc |-> "idle", tg |-> "-", ip |-> "n", sg |-> 0, be |-> 0, rw |-> 0, xf |-> 0, ph |-> 0, i |-> 0, st |-> "",
          fs |-> 0, fp |-> [p \in Pipes |-> 0]]

VerOf(id) == IF id = 0 THEN 0 ELSE pobj[id].ver
NextVer(p) == Cardinality({j \in 1..Len(pobj) : pobj[j].name = p}) + 1
NewObj(p, v, id, init) == [name |-> p, ver |-> v, ref |-> [i \in 1..NF |-> IF init THEN id ELSE 0], closed |-> FALSE]
Valid(o, i) == o.ref[i] # 0 /\ <<o.ref[i], i>> \notin dead
Killed(o) == {<<o.ref[i], i>> : i \in {j \in 1..NF : Cls(Kinds[j]) = "kill" /\ o.ref[j] # 0}}

Init ==
    /\ muxInst = 1
    /\ sgen = <<[rv |-> 1, ov |-> 1]>>
    /\ pobj = <<NewObj(Routed[1], 1, 1, TRUE), NewObj(Routed[2], 1, 2, TRUE)>>
    /\ ns = [p \in Pipes |-> IF p = Routed[1] THEN 1 ELSE IF p = Routed[2] THEN 2 ELSE 0]
    /\ dead = {}
    /\ u = Idle
    /\ rq = [r \in Reqs |-> NoReq]
    /\ cnt = [srv |-> 0, pip |-> 0, other |-> 0, same |-> 0, req |-> [r \in Reqs |-> 0]]
    /\ last = [a |-> "init"]

(* ------------------------------- the updater ------------------------------------------------ *)
Ops == cnt.srv + cnt.pip + cnt.other + cnt.same
CanBegin == u.op = "idle" /\ Ops < MaxOps

(* mux.reload, first half: oldInst := m.inst.Load(); build the new instance from the spec        *)
SrvBuild(kind) ==
    /\ CanBegin /\ cnt.srv < MaxSrv /\ kind \in SrvKinds
    /\ LET cur == sgen[muxInst]
           nxt == [rv |-> IF kind = "opts" THEN cur.rv ELSE cur.rv + 1, ov |-> IF kind = "rules" THEN cur.ov ELSE cur.ov + 1]
       IN /\ sgen' = Append(sgen, nxt)
          /\ last' = [a |-> "srvBuild", g |-> Len(sgen) + 1, kind |-> kind, rv |-> nxt.rv, ov |-> nxt.ov]
    /\ u' = [op |-> "srv", p |-> "-", new |-> Len(sgen) + 1, i |-> 0]
    /\ cnt' = [cnt EXCEPT !.srv = @ + 1]
    /\ UNCHANGED <<muxInst, ns, pobj, dead, rq>>

(* mux.reload, second half: m.inst.Store(inst) - the linearisation point of the server update    *)
SrvStore ==
    /\ u.op = "srv"
    /\ muxInst' = u.new
    /\ u' = Idle
    /\ last' = [a |-> "srvStore", g |-> u.new, rv |-> sgen[u.new].rv, ov |-> sgen[u.new].ov]
    /\ UNCHANGED <<sgen, ns, pobj, dead, rq, cnt>>

(* Update/ApplyPipeline under tc.mutex: the new entity exists, nothing inherited yet             *)
PipBegin(p) ==
    /\ CanBegin /\ cnt.pip < MaxPip /\ ns[p] # 0
    /\ pobj' = Append(pobj, NewObj(p, NextVer(p), Len(pobj) + 1, FALSE))
    /\ u' = [op |-> "pip", p |-> p, new |-> Len(pobj) + 1, i |-> 1]
    /\ cnt' = [cnt EXCEPT !.pip = @ + 1]
    /\ last' = [a |-> "pipBegin", p |-> p, ver |-> NextVer(p)]
    /\ UNCHANGED <<muxInst, sgen, ns, dead, rq>>

(* Pipeline.reload: filter.Inherit(prev) of filter u.i, as the kind does it                      *)
PipInheritF ==
    /\ u.op = "pip" /\ u.i \in 1..NF
    /\ LET old == ns[u.p]
           k == Kinds[u.i]
           m == Inh(k)
       IN /\ pobj' = [pobj EXCEPT
                        ![u.new].ref[u.i] = IF m = "fresh" THEN u.new ELSE pobj[old].ref[u.i],
                        ![old].ref[u.i] = IF m = "move" THEN 0 ELSE @]
          /\ last' = [a |-> "pipInherit", p |-> u.p, i |-> u.i, k |-> k]
    /\ u' = [u EXCEPT !.i = @ + 1]
    /\ UNCHANGED <<muxInst, sgen, ns, dead, rq, cnt>>

(* Pipeline.Inherit: previousGeneration.Close() - every filter of the old generation is closed   *)
PipClosePrev ==
    /\ u.op = "pip" /\ u.i = NF + 1
    /\ LET old == ns[u.p] IN
       /\ pobj' = [pobj EXCEPT ![old].closed = TRUE]
       /\ dead' = dead \cup Killed(pobj[old])
    /\ u' = [u EXCEPT !.i = NF + 2]
    /\ last' = [a |-> "pipClose", p |-> u.p]
    /\ UNCHANGED <<muxInst, sgen, ns, rq, cnt>>

(* space.pipelines.Store(name, entity) - the linearisation point of the pipeline update          *)
PipStore ==
    /\ u.op = "pip" /\ u.i = NF + 2
    /\ ns' = [ns EXCEPT ![u.p] = u.new]
    /\ u' = Idle
    /\ last' = [a |-> "pipStore", p |-> u.p, ver |-> pobj[u.new].ver]
    /\ UNCHANGED <<muxInst, sgen, pobj, dead, rq, cnt>>

(* ApplyPipeline with a spec equal to the running one: returns the previous entity               *)
ApplySame(p) ==
    /\ CanBegin /\ cnt.same < MaxSame /\ ns[p] # 0
    /\ cnt' = [cnt EXCEPT !.same = @ + 1]
    /\ last' = [a |-> "same", p |-> p, ver |-> VerOf(ns[p])]
    /\ UNCHANGED <<muxInst, sgen, ns, pobj, dead, u, rq>>

(* a new generation of the TrafficController object itself: Inherit takes over the mutex and the  *)
(* namespaces of the previous one - nothing a request can see changes                            *)
CtlInherit ==
    /\ CanBegin /\ cnt.same < MaxSame
    /\ cnt' = [cnt EXCEPT !.same = @ + 1]
    /\ last' = [a |-> "ctl"]
    /\ UNCHANGED <<muxInst, sgen, ns, pobj, dead, u, rq>>

(* CreatePipeline of another object: entity.Init ; Store                                         *)
CreateInit(q) ==
    /\ CanBegin /\ cnt.other < MaxOther /\ q \in Others /\ ns[q] = 0
    /\ pobj' = Append(pobj, NewObj(q, NextVer(q), Len(pobj) + 1, TRUE))
    /\ u' = [op |-> "create", p |-> q, new |-> Len(pobj) + 1, i |-> 0]
    /\ cnt' = [cnt EXCEPT !.other = @ + 1]
    /\ last' = [a |-> "createInit", p |-> q, ver |-> NextVer(q)]
    /\ UNCHANGED <<muxInst, sgen, ns, dead, rq>>

CreateStore ==
    /\ u.op = "create"
    /\ ns' = [ns EXCEPT ![u.p] = u.new]
    /\ u' = Idle
    /\ last' = [a |-> "createStore", p |-> u.p, ver |-> pobj[u.new].ver]
    /\ UNCHANGED <<muxInst, sgen, pobj, dead, rq, cnt>>

(* DeletePipeline of another object: LoadAndDelete ; entity.Close                                *)
DeleteRemove(q) ==
    /\ CanBegin /\ cnt.other < MaxOther /\ q \in Others /\ ns[q] # 0
    /\ u' = [op |-> "delete", p |-> q, new |-> ns[q], i |-> 0]
    /\ ns' = [ns EXCEPT ![q] = 0]
    /\ cnt' = [cnt EXCEPT !.other = @ + 1]
    /\ last' = [a |-> "deleteRemove", p |-> q]
    /\ UNCHANGED <<muxInst, sgen, pobj, dead, rq>>

DeleteClose ==
    /\ u.op = "delete"
    /\ pobj' = [pobj EXCEPT ![u.new].closed = TRUE]
    /\ dead' = dead \cup Killed(pobj[u.new])
    /\ u' = Idle
    /\ last' = [a |-> "deleteClose", p |-> u.p]
    /\ UNCHANGED <<muxInst, sgen, ns, rq, cnt>>

Updater == \/ (\E kind \in SrvKinds : SrvBuild(kind)) \/ SrvStore \/ CtlInherit \/ PipInheritF \/ PipClosePrev \/ PipStore \/ CreateStore \/ DeleteClose
           \/ \E p \in Pipes : PipBegin(p) \/ ApplySame(p) \/ CreateInit(p) \/ DeleteRemove(p)

(* ------------------------------- a request -------------------------------------------------- *)
(* the generation of the server a step of request r reads from: the one it holds                 *)
Cur(r) == IF LoadPerStep THEN muxInst ELSE rq[r].sg

ReqStart(r, tg, ip) ==
    /\ rq[r].pc = "idle" /\ cnt.req[r] < MaxReq
    /\ tg \in Targets /\ ip \in IPs /\ (tg # "srv" => ip = "n")
    /\ rq' = [rq EXCEPT ![r] = [NoReq EXCEPT !.pc = IF tg = "srv" THEN "load" ELSE "get", !.tg = tg, !.ip = ip,
                                              !.fs = muxInst, !.fp = [p \in Pipes |-> VerOf(ns[p])]]]
    /\ cnt' = [cnt EXCEPT !.req[r] = @ + 1]
    /\ last' = [a |-> "start", r |-> r, tg |-> tg, ip |-> ip]
    /\ UNCHANGED <<muxInst, sgen, ns, pobj, dead, u>>

(* mux.ServeHTTP: m.inst.Load()                                                                  *)
LoadInst(r) ==
    /\ rq[r].pc = "load"
    /\ rq' = [rq EXCEPT ![r].sg = muxInst, ![r].pc = "route"]
    /\ last' = [a |-> "load", r |-> r, g |-> muxInst, rv |-> sgen[muxInst].rv, ov |-> sgen[muxInst].ov]
    /\ UNCHANGED <<muxInst, sgen, ns, pobj, dead, u, cnt>>

(* muxInstance.search: the server-level ipFilter of the held instance admits the client, then   *)
(* its rules choose the backend                                                                  *)
Route(r) ==
    /\ rq[r].pc = "route"
    /\ IF Blocked(Cur(r), rq[r].ip)
       THEN /\ rq' = [rq EXCEPT ![r].be = Cur(r), ![r].st = "403", ![r].pc = "done"]
            /\ last' = [a |-> "route", r |-> r, g |-> Cur(r), rv |-> sgen[Cur(r)].rv, be |-> "-", blocked |-> TRUE]
       ELSE /\ rq' = [rq EXCEPT ![r].be = Cur(r), ![r].pc = "get"]
            /\ last' = [a |-> "route", r |-> r, g |-> Cur(r), rv |-> sgen[Cur(r)].rv, be |-> BackendOf(Cur(r)), blocked |-> FALSE]
    /\ UNCHANGED <<muxInst, sgen, ns, pobj, dead, u, cnt>>

(* muxMapper.GetHandler (sync.Map load), then rewrite and X-Forwarded-For from the held instance *)
GetHandler(r) ==
    /\ rq[r].pc = "get"
    /\ LET p == IF rq[r].tg = "srv" THEN BackendOf(rq[r].be) ELSE rq[r].tg
           g == IF rq[r].tg = "srv" THEN Cur(r) ELSE 0
       IN IF ns[p] = 0
          THEN /\ rq' = [rq EXCEPT ![r].st = "503", ![r].pc = "done"]
               /\ last' = [a |-> "get", r |-> r, p |-> p, found |-> FALSE, ver |-> 0, g |-> g, rv |-> 0, xf |-> FALSE]
          ELSE /\ rq' = [rq EXCEPT ![r].ph = ns[p], ![r].rw = g, ![r].xf = g, ![r].i = 1,
                                   ![r].pc = IF NF = 0 THEN "done" ELSE "run",
                                   ![r].st = IF NF = 0 THEN "ok" ELSE ""]
               /\ last' = [a |-> "get", r |-> r, p |-> p, found |-> TRUE, ver |-> VerOf(ns[p]), g |-> g,
                           rv |-> IF g = 0 THEN 0 ELSE sgen[g].rv, xf |-> IF g = 0 THEN FALSE ELSE XffOf(g)]
    /\ UNCHANGED <<muxInst, sgen, ns, pobj, dead, u, cnt>>

(* Pipeline.doHandle: filter i of the held pipeline generation handles the request, using the     *)
(* state cell the filter instance points to *now*                                                *)
Advance(r, i, ok) == [rq EXCEPT ![r].i = IF ok THEN i + 1 ELSE i,
                                ![r].pc = IF ok /\ i < NF THEN "run" ELSE "done",
                                ![r].st = IF ~ok THEN "fail" ELSE IF i = NF THEN "ok" ELSE ""]

RunFilter(r) ==
    /\ rq[r].pc = "run" /\ Kinds[rq[r].i] \notin Blocking
    /\ LET o == pobj[rq[r].ph]
           i == rq[r].i
           ok == Valid(o, i)
       IN /\ rq' = Advance(r, i, ok)
          /\ last' = [a |-> "run", r |-> r, i |-> i, k |-> Kinds[i], ok |-> ok, ver |-> o.ver]
    /\ UNCHANGED <<muxInst, sgen, ns, pobj, dead, u, cnt>>

(* a filter that calls out (Proxy -> backend): the request is in flight between the two steps;   *)
(* the filter's state must still be usable when the answer comes back                            *)
RunEnter(r) ==
    /\ rq[r].pc = "run" /\ Kinds[rq[r].i] \in Blocking
    /\ LET o == pobj[rq[r].ph]
           i == rq[r].i
           ok == Valid(o, i)
       IN /\ rq' = IF ok THEN [rq EXCEPT ![r].pc = "in"] ELSE Advance(r, i, FALSE)
          /\ last' = [a |-> "enter", r |-> r, i |-> i, k |-> Kinds[i], ok |-> ok, ver |-> o.ver]
    /\ UNCHANGED <<muxInst, sgen, ns, pobj, dead, u, cnt>>

RunExit(r) ==
    /\ rq[r].pc = "in"
    /\ LET o == pobj[rq[r].ph]
           i == rq[r].i
           ok == Valid(o, i)
       IN /\ rq' = Advance(r, i, ok)
          /\ last' = [a |-> "exit", r |-> r, i |-> i, k |-> Kinds[i], ok |-> ok, ver |-> o.ver]
    /\ UNCHANGED <<muxInst, sgen, ns, pobj, dead, u, cnt>>

ReqDone(r) ==
    /\ rq[r].pc = "done"
    /\ rq' = [rq EXCEPT ![r] = NoReq]
    /\ last' = [a |-> "done", r |-> r, st |-> rq[r].st]
    /\ UNCHANGED <<muxInst, sgen, ns, pobj, dead, u, cnt>>

Request(r) == \/ \E tg \in Targets, ip \in IPs : ReqStart(r, tg, ip)
              \/ LoadInst(r) \/ Route(r) \/ GetHandler(r) \/ RunFilter(r) \/ RunEnter(r) \/ RunExit(r) \/ ReqDone(r)

Next == Updater \/ \E r \in Reqs : Request(r)
Spec == Init /\ [][Next]_vars

(* ------------------------------- the contract (C11) ----------------------------------------- *)
TypeOK ==
    /\ muxInst \in 1..Len(sgen)
    /\ \A p \in Pipes : ns[p] \in 0..Len(pobj)
    /\ u.op \in {"idle", "srv", "pip", "create", "delete"}
    /\ \A r \in Reqs : rq[r].pc \in {"idle", "load", "route", "get", "run", "in", "done"}

(* each request is handled entirely under one generation of rules, options and pipeline          *)
Consistent ==
    \A r \in Reqs : rq[r].tg = "srv" =>
        /\ rq[r].pc \in {"get", "run", "in", "done"} => rq[r].be = rq[r].sg
        /\ rq[r].ph # 0 => rq[r].rw = rq[r].sg /\ rq[r].xf = rq[r].sg /\ pobj[rq[r].ph].name = BackendOf(rq[r].sg)

(* a request - also one that holds a superseded generation - completes without failing           *)
NoFailure == \A r \in Reqs : rq[r].st # "fail"

(* an object nobody deleted is never unavailable                                                 *)
Available == \A r \in Reqs : rq[r].st = "503" => (rq[r].tg \in Others \/ (rq[r].tg = "srv" /\ BackendOf(rq[r].be) \in Others))

(* once an update has been applied (Store), every request that starts afterwards sees it         *)
Visibility ==
    \A r \in Reqs :
        /\ rq[r].sg # 0 => rq[r].sg >= rq[r].fs
        /\ rq[r].ph # 0 => pobj[rq[r].ph].ver >= rq[r].fp[pobj[rq[r].ph].name]

Servable(q) == ns[q] # 0 => /\ ~pobj[ns[q]].closed
                            /\ \A i \in 1..NF : Valid(pobj[ns[q]], i)

(* operations on one object leave every other object servable and untouched                      *)
Isolation == \A q \in Pipes : q # u.p => Servable(q)
IsolationStep ==
    [][\A q \in Pipes : (q # u.p /\ q # u'.p) =>
            /\ ns'[q] = ns[q]
            /\ ns[q] # 0 => pobj'[ns[q]] = pobj[ns[q]]]_vars

(* an update that has completed leaves the updated object servable                               *)
Settled == u.op = "idle" => \A q \in Pipes : Servable(q)

(* applying an unchanged spec changes nothing                                                    *)
NoOp == [][last'.a \in {"same", "ctl"} => /\ ns' = ns /\ pobj' = pobj /\ dead' = dead /\ muxInst' = muxInst /\ sgen' = sgen]_vars
=============================================================================

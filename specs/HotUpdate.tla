------------------------------ MODULE HotUpdate ------------------------------
(* C11.  Hot update of an HTTPServer's routing instance, of Pipelines and of their stateful       *)
(* filters while requests are in flight (pkg/object/httpserver/mux.go, pkg/object/pipeline,       *)
(* pkg/object/trafficcontroller, Inherit/Close of the filter kinds).                              *)
(*                                                                                                *)
(* What is modelled                                                                               *)
(*   server     mux.inst, an atomic.Value holding the routing instance.  A generation of the       *)
(*              server spec is sgen[g] = [rv, ov]: version rv of its *rules* (they route to       *)
(*              pipeline BackendOf(g) and rewrite the path to "/g<rv>") and version ov of its      *)
(*              *options* (xForwardedFor = XffOf(g); the server-level ipFilter blocks client "b"   *)
(*              iff Blocked(g, "b")).  An update changes the rules, the options or both, so a      *)
(*              request can tell which version of either part handled it.  mux.reload = SrvBuild   *)
(*              (reads the old instance, builds the new one) ; SrvStore (m.inst.Store).            *)
(*   namespace  Namespace.pipelines, a sync.Map  name -> entity;  ns[p] is the id of the pipeline *)
(*              generation object stored under p (0 = absent).                                    *)
(*   pipeline   generation objects pobj[id] = [name, ver, ref, closed].  ver is the version of     *)
(*              the spec the object was built from.  Every pipeline consists of the stateful      *)
(*              filter kinds Kinds[1..NF]; ref[i] is the *state cell* filter i points to: the     *)
(*              cell created by object ref[i] (0 = nil pointer).  `dead` holds the cells a Close   *)
(*              made unusable.                                                                    *)
(*   updater    one at a time (TrafficController.mutex / the HTTPServer's event loop):            *)
(*                SrvBuild ; SrvStore                                                             *)
(*                PipBegin ; PipInheritF x NF ; PipClosePrev ; PipStore      (Update/Apply)       *)
(*                ApplySame                                  (Apply with an equal spec: no-op)    *)
(*                CtlInherit                 (new generation of the TrafficController: no-op)     *)
(*                CreateInit ; CreateStore,  DeleteRemove ; DeleteClose       (another object)    *)
(*   requests   ReqStart ; LoadInst ; Route ; GetHandler ; RunFilter x NF ; ReqDone, each step    *)
(*              reading only from the generation the request holds.  A filter of a kind in        *)
(*              Blocking waits for an external party (Proxy: the backend) in the middle of its    *)
(*              Handle: RunFilter is then RunEnter ; RunExit.  A request may also go              *)
(*              straight to a pipeline (GetHandler ; RunFilter..), as Namespace.GetHandler users.  *)
(*                                                                                                *)
(* Implementation-shaped layer: how a filter kind's Inherit treats the state cell of the previous *)
(* generation and what its Close does to it are parameters (observed on the real code):           *)
(*   Inh(k)  "fresh"  the new generation creates its own cell, the previous one keeps its cell    *)
(*           "share"  new.ref = prev.ref                                                          *)
(*           "move"   new.ref = prev.ref ; prev.ref = nil          (RateLimiter.reload at the pin)*)
(*   Cls(k)  "none" / "stop"  Close leaves Handle usable (stops background work only)             *)
(*           "kill"   Handle after Close fails, and so does a call that is in flight during Close *)
(*           "disable" Handle after Close works, but the state cell no longer does what it is     *)
(*                    configured to do (a limiter that lets everything pass)                      *)
(* Configuration of a pipeline generation: like the server's [rv, ov], a pipeline generation is   *)
(* built from version fv of its *filters* section and version pv of its *resilience* section      *)
(* (pipeline-level policies that filters of a kind in Resilient refer to by name); an update      *)
(* changes the filters, the resilience section or both (PipKinds).  pobj[id].pol[i] is the        *)
(* version of the policies the instance of filter i works under (Pipeline.reload:                 *)
(* InjectResiliencePolicy).  Knob Reuse (FALSE in the code): reload takes the running instance    *)
(* of a filter whose own spec is unchanged over into the new generation as it is.                 *)
(* Request classes (Classes): "n" plain; "x" a request for a URL for which every generation       *)
(* configures a limit of Limit permits per (unbounded) period at the filters of a kind in         *)
(* Limiting - the permits are state of the cell, `lim.spent` are the cells whose permits are used *)
(* up, `lim.off` the cells a Close disabled; "f" a request whose backend call fails, so that the  *)
(* policies a Resilient filter works under show (number of attempts).                            *)
(* Which limit applies to a URL: besides the URL of class "x" (whose rule names its policy, the    *)
(* same in every generation) a Limiting filter has a rule for the URL of class "d" that falls     *)
(* under the filter's *default policy*.  pobj[id].dv is the version of that choice: odd versions  *)
(* select a policy of Limit permits per period ("tight"), even ones a policy that never limits    *)
(* ("loose").  An update of kind "dflt" changes only this choice (the policies themselves are the *)
(* same in the old and the new spec).  The limiter of that rule is a state cell of its own        *)
(* (pobj[id].dref[i], `lim.dspent`): Inherit treats it like the other cell (Inh(k)) as long as    *)
(* the rule falls under the same policy, and creates a fresh one - built from the policy now in   *)
(* force - when it does not.  Knob Stale (FALSE in the code): Inherit keeps the limiter of the    *)
(* rule although the policy the rule falls under has changed.                                     *)
(* Options of a filter (Options, kinds in Optioned): besides the part of its spec that nothing     *)
(* observes (version fv) a filter of a kind in Optioned has *options*, each with a version of its  *)
(* own: pobj[id].opt[o] is the version of option o the spec of generation id configures, and      *)
(* pobj[id].eff[i][o] the version the instance of filter i actually works with.  An update of     *)
(* kind o \in Options changes only option o of the filter's spec ("allopts": all of them at once). *)
(* A request of class "o" shows, in the way its backend call is made, the options in force        *)
(* (rq[r].eo).  Knob StaleOpts ({} in the code): Inherit takes over from the previous generation's *)
(* instance the part that the options in StaleOpts configure when no other option has changed     *)
(* (a comparison "can the previous generation's ... be reused" that forgets these options).       *)
(* The contract (what C11 states) are the invariants at the end; they must hold for the modes of  *)
(* the real code.                                                                                 *)
EXTENDS Integers, Sequences, FiniteSets

CONSTANTS Reqs,        \* request processes (strings)
          Routed,      \* <<pa, pb>>: odd versions of the rules route to pa, even ones to pb
          Others,      \* pipelines the server never routes to (created / deleted by the updater)
          Kinds,       \* sequence of the stateful filter kinds of every pipeline
          InhRl, ClsRl, InhPx, ClsPx,   \* modes of the kinds "rl" (RateLimiter) and "px" (Proxy)
          MaxOps,      \* bounds (model checking only): updater operations in total,
          MaxSrv,      \*   server reloads,
          MaxPip,      \*   pipeline updates,
          MaxOther,    \*   create/delete operations,
          MaxSame,     \*   no-op applies,
          MaxReq,      \*   requests per process
          Blocking,    \* kinds whose Handle is in flight at an external party between two steps
          SrvKinds,    \* what a server reload may change: subset of {"rules", "opts", "both"}
          IPs,         \* client addresses of requests: subset of {"n", "b"} ("b" is blocked by every other options version)
          LoadPerStep, \* impl knob (FALSE in the code): every step of a request re-reads m.inst
          Targets,     \* what a request may address: "srv" (through the server) and/or pipelines (directly)
          PipKinds,    \* what a pipeline update may change: subset of {"filters", "resil", "both", "dflt", "allopts"} \cup Options
          Classes,     \* request classes: subset of {"n", "x", "f", "d", "o"}
          Reuse,       \* impl knob (FALSE in the code): reload takes over the instance of a filter whose own spec is unchanged
          Stale,       \* impl knob (FALSE in the code): Inherit keeps the limiter of a URL rule whose policy has changed
          Options,     \* names of the separately versioned options of the filters of a kind in Optioned (update kinds of their own)
          StaleOpts    \* impl knob ({} in the code): options whose effect Inherit carries over from the previous generation

NF == Len(Kinds)
Pipes == {Routed[1], Routed[2]} \cup Others

Limiting == {"rl"}     \* kinds that limit class "x" requests to Limit permits per period and state cell
Resilient == {"px"}    \* kinds that work under the pipeline-level resilience policies
Optioned == {"px"}     \* kinds with separately versioned options, shown by class "o" requests
OptVec(v) == [o \in Options |-> v]
Limit == 1
DTight(dv) == (dv % 2) = 1   \* the policy version dv of the default-policy choice selects: tight (Limit permits) / loose (no limit)

Inh(k) == CASE k = "rl" -> InhRl [] k = "px" -> InhPx [] OTHER -> "fresh"
Cls(k) == CASE k = "rl" -> ClsRl [] k = "px" -> ClsPx [] OTHER -> "stop"

VARIABLES muxInst,  \* generation (index into sgen) stored in mux.inst
          sgen,     \* sequence of the server generations built so far: [rv, ov]
          ns,       \* [Pipes -> id]  the namespace map (0 = absent)
          pobj,     \* sequence of pipeline generation objects
          dead,     \* set of <<creator id, filter index>>: state cells killed by a Close
          lim,      \* [spent, off, dspent]: cells whose permits for class "x" are used up / cells a Close disabled /
                    \*   cells of the default-policy rule (class "d") whose permits are used up
          u,        \* the updater: [op, p, new, i]
          rq,       \* [Reqs -> request record]
          cnt,      \* budget counters [srv, pip, other, same] and per request process
          last      \* the step just taken + what an observer of the real system must see (not in VIEW)

vars == <<muxInst, sgen, ns, pobj, dead, lim, u, rq, cnt, last>>
view == <<muxInst, sgen, ns, pobj, dead, lim, u, rq, cnt>>

BackendOf(g) == Routed[((sgen[g].rv - 1) % 2) + 1]
XffOf(g) == (sgen[g].ov % 2) = 1
Blocked(g, ip) == ip = "b" /\ (sgen[g].ov % 2) = 0

Idle == [op |-> "idle", p |-> "-", new |-> 0, i |-> 0]
NoReq == [pc |-> "idle", tg |-> "-", ip |-> "n", cl |-> "n", sg |-> 0, be |-> 0, rw |-> 0, xf |-> 0, ph |-> 0, i |-> 0, st |-> "",
          po |-> 0, fs |-> 0, fp |-> [p \in Pipes |-> 0], eo |-> OptVec(0)]

VerOf(id) == IF id = 0 THEN 0 ELSE pobj[id].ver
NextVer(p) == Cardinality({j \in 1..Len(pobj) : pobj[j].name = p}) + 1
FvOf(id) == IF id = 0 THEN 0 ELSE pobj[id].fv
PvOf(id) == IF id = 0 THEN 0 ELSE pobj[id].pv
DvOf(id) == IF id = 0 THEN 0 ELSE pobj[id].dv
(* a generation object built from version fv of the filters (whose default-policy choice is dv)   *)
(* and pv of the resilience section; an initialised one (Init) has its own state cells and works  *)
(* under its own policies                                                                         *)
NewObjO(p, v, fv, pv, dv, ov, id, init) ==
    [name |-> p, ver |-> v, fv |-> fv, pv |-> pv, dv |-> dv, closed |-> FALSE,
     opt |-> ov,                         \* versions of the options the spec configures
     eff |-> [i \in 1..NF |-> IF init /\ Kinds[i] \in Optioned THEN ov ELSE OptVec(0)],   \* ... and those instance i works with
     ref |-> [i \in 1..NF |-> IF init THEN id ELSE 0],
     dref |-> [i \in 1..NF |-> IF init /\ Kinds[i] \in Limiting THEN id ELSE 0],
     pol |-> [i \in 1..NF |-> IF init /\ Kinds[i] \in Resilient THEN pv ELSE 0],
     perm |-> [i \in 1..NF |-> 0],       \* observation: class "x" requests this generation's filter i let pass
     dperm |-> [i \in 1..NF |-> 0]]      \* observation: class "d" requests this generation's filter i let pass
NewObjD(p, v, fv, pv, dv, id, init) == NewObjO(p, v, fv, pv, dv, OptVec(1), id, init)
NewObj(p, v, fv, pv, id, init) == NewObjD(p, v, fv, pv, 1, id, init)
Lim0 == [spent |-> {}, off |-> {}, dspent |-> {}]
Valid(o, i) == o.ref[i] # 0 /\ <<o.ref[i], i>> \notin dead
Killed(o) == {<<o.ref[i], i>> : i \in {j \in 1..NF : Cls(Kinds[j]) = "kill" /\ o.ref[j] # 0}}
Disabled(o) == {<<o.ref[i], i>> : i \in {j \in 1..NF : Cls(Kinds[j]) = "disable" /\ o.ref[j] # 0}}

Init ==
    /\ muxInst = 1
    /\ sgen = <<[rv |-> 1, ov |-> 1]>>
    /\ pobj = <<NewObj(Routed[1], 1, 1, 1, 1, TRUE), NewObj(Routed[2], 1, 1, 1, 2, TRUE)>>
    /\ ns = [p \in Pipes |-> IF p = Routed[1] THEN 1 ELSE IF p = Routed[2] THEN 2 ELSE 0]
    /\ dead = {}
    /\ lim = Lim0
    /\ u = Idle
    /\ rq = [r \in Reqs |-> NoReq]
    /\ cnt = [srv |-> 0, pip |-> 0, other |-> 0, same |-> 0, req |-> [r \in Reqs |-> 0]]
    /\ last = [a |-> "init"]

(* ------------------------------- the updater ------------------------------------------------ *)
Ops == cnt.srv + cnt.pip + cnt.other + cnt.same
CanBegin == u.op = "idle" /\ Ops < MaxOps

(* mux.reload, first half: oldInst := m.inst.Load(); build the new instance from the spec        *)
SrvBuild(kind) ==
    /\ CanBegin /\ cnt.srv < MaxSrv /\ kind \in SrvKinds
    /\ LET cur == sgen[muxInst]
           nxt == [rv |-> IF kind = "opts" THEN cur.rv ELSE cur.rv + 1, ov |-> IF kind = "rules" THEN cur.ov ELSE cur.ov + 1]
       IN /\ sgen' = Append(sgen, nxt)
          /\ last' = [a |-> "srvBuild", g |-> Len(sgen) + 1, kind |-> kind, rv |-> nxt.rv, ov |-> nxt.ov]
    /\ u' = [op |-> "srv", p |-> "-", new |-> Len(sgen) + 1, i |-> 0]
    /\ cnt' = [cnt EXCEPT !.srv = @ + 1]
    /\ UNCHANGED <<muxInst, ns, pobj, dead, lim, rq>>

(* mux.reload, second half: m.inst.Store(inst) - the linearisation point of the server update    *)
SrvStore ==
    /\ u.op = "srv"
    /\ muxInst' = u.new
    /\ u' = Idle
    /\ last' = [a |-> "srvStore", g |-> u.new, rv |-> sgen[u.new].rv, ov |-> sgen[u.new].ov]
    /\ UNCHANGED <<sgen, ns, pobj, dead, lim, rq, cnt>>

(* Update/ApplyPipeline under tc.mutex: the new entity exists, nothing inherited yet; the new     *)
(* spec differs from the running one in the filters, in the resilience section or in both; "dflt" *)
(* is a change of the filters that switches the default policy of the Limiting filters           *)
PipBegin(p, kind) ==
    /\ CanBegin /\ cnt.pip < MaxPip /\ ns[p] # 0 /\ kind \in PipKinds
    /\ LET old == pobj[ns[p]]
           fv == IF kind = "resil" THEN old.fv ELSE old.fv + 1
           pv == IF kind \in {"resil", "both"} THEN old.pv + 1 ELSE old.pv
           dv == IF kind = "dflt" THEN old.dv + 1 ELSE old.dv
           ov == [o \in Options |-> IF kind = o \/ kind = "allopts" THEN old.opt[o] + 1 ELSE old.opt[o]]
       IN /\ pobj' = Append(pobj, NewObjO(p, NextVer(p), fv, pv, dv, ov, Len(pobj) + 1, FALSE))
          /\ last' = [a |-> "pipBegin", p |-> p, ver |-> NextVer(p), kind |-> kind, fv |-> fv, pv |-> pv, dv |-> dv, opt |-> ov]
    /\ u' = [op |-> "pip", p |-> p, new |-> Len(pobj) + 1, i |-> 1]
    /\ cnt' = [cnt EXCEPT !.pip = @ + 1]
    /\ UNCHANGED <<muxInst, sgen, ns, dead, lim, rq>>

(* Pipeline.reload: filter.Inherit(prev) of filter u.i, as the kind does it                      *)
PipInheritF ==
    /\ u.op = "pip" /\ u.i \in 1..NF
    /\ LET old == ns[u.p]
           k == Kinds[u.i]
           m == Inh(k)
           \* knob Reuse: the filter's own spec is unchanged - the new generation takes the running instance over as it is
           reuse == Reuse /\ pobj[u.new].fv = pobj[old].fv
       IN /\ pobj' = [pobj EXCEPT
                        ![u.new].ref[u.i] = IF reuse THEN pobj[old].ref[u.i] ELSE IF m = "fresh" THEN u.new ELSE pobj[old].ref[u.i],
                        \* Pipeline.reload: InjectResiliencePolicy(p.resilience) on the instance just initialised / inherited
                        ![u.new].pol[u.i] = IF k \notin Resilient THEN 0 ELSE IF reuse THEN pobj[old].pol[u.i] ELSE pobj[u.new].pv,
                        \* the limiter of the default-policy rule: taken over only if the rule still falls under the same policy
                        ![u.new].dref[u.i] = IF k \notin Limiting THEN 0
                                             ELSE IF reuse THEN pobj[old].dref[u.i]
                                             ELSE IF m = "fresh" THEN u.new
                                             ELSE IF pobj[u.new].dv = pobj[old].dv \/ Stale THEN pobj[old].dref[u.i]
                                             ELSE u.new,
                        \* the options the instance works with: those of its own spec - unless (knob) Inherit carries some over
                        ![u.new].eff[u.i] = IF k \notin Optioned THEN OptVec(0)
                                            ELSE IF reuse THEN pobj[old].eff[u.i]
                                            ELSE [o \in Options |->
                                                    IF o \in StaleOpts /\ (\A o2 \in Options \ StaleOpts : pobj[u.new].opt[o2] = pobj[old].opt[o2])
                                                    THEN pobj[old].eff[u.i][o] ELSE pobj[u.new].opt[o]],
                        ![old].ref[u.i] = IF m = "move" /\ ~reuse THEN 0 ELSE @]
          /\ last' = [a |-> "pipInherit", p |-> u.p, i |-> u.i, k |-> k]
    /\ u' = [u EXCEPT !.i = @ + 1]
    /\ UNCHANGED <<muxInst, sgen, ns, dead, lim, rq, cnt>>

(* Pipeline.Inherit: previousGeneration.Close() - every filter of the old generation is closed   *)
PipClosePrev ==
    /\ u.op = "pip" /\ u.i = NF + 1
    /\ LET old == ns[u.p] IN
       /\ pobj' = [pobj EXCEPT ![old].closed = TRUE]
       /\ dead' = dead \cup Killed(pobj[old])
       /\ lim' = [lim EXCEPT !.off = @ \cup Disabled(pobj[old])]
    /\ u' = [u EXCEPT !.i = NF + 2]
    /\ last' = [a |-> "pipClose", p |-> u.p]
    /\ UNCHANGED <<muxInst, sgen, ns, rq, cnt>>

(* space.pipelines.Store(name, entity) - the linearisation point of the pipeline update          *)
PipStore ==
    /\ u.op = "pip" /\ u.i = NF + 2
    /\ ns' = [ns EXCEPT ![u.p] = u.new]
    /\ u' = Idle
    /\ last' = [a |-> "pipStore", p |-> u.p, ver |-> pobj[u.new].ver, fv |-> pobj[u.new].fv, pv |-> pobj[u.new].pv, dv |-> pobj[u.new].dv]
    /\ UNCHANGED <<muxInst, sgen, pobj, dead, lim, rq, cnt>>

(* ApplyPipeline with a spec equal to the running one: returns the previous entity               *)
ApplySame(p) ==
    /\ CanBegin /\ cnt.same < MaxSame /\ ns[p] # 0
    /\ cnt' = [cnt EXCEPT !.same = @ + 1]
    /\ last' = [a |-> "same", p |-> p, ver |-> VerOf(ns[p]), fv |-> FvOf(ns[p]), pv |-> PvOf(ns[p]), dv |-> DvOf(ns[p])]
    /\ UNCHANGED <<muxInst, sgen, ns, pobj, dead, lim, u, rq>>

(* a new generation of the TrafficController object itself: Inherit takes over the mutex and the  *)
(* namespaces of the previous one - nothing a request can see changes                            *)
CtlInherit ==
    /\ CanBegin /\ cnt.same < MaxSame
    /\ cnt' = [cnt EXCEPT !.same = @ + 1]
    /\ last' = [a |-> "ctl"]
    /\ UNCHANGED <<muxInst, sgen, ns, pobj, dead, lim, u, rq>>

(* CreatePipeline of another object: entity.Init ; Store                                         *)
CreateInit(q) ==
    /\ CanBegin /\ cnt.other < MaxOther /\ q \in Others /\ ns[q] = 0
    /\ pobj' = Append(pobj, NewObjO(q, NextVer(q), NextVer(q), NextVer(q), NextVer(q), OptVec(NextVer(q)), Len(pobj) + 1, TRUE))
    /\ u' = [op |-> "create", p |-> q, new |-> Len(pobj) + 1, i |-> 0]
    /\ cnt' = [cnt EXCEPT !.other = @ + 1]
    /\ last' = [a |-> "createInit", p |-> q, ver |-> NextVer(q), fv |-> NextVer(q), pv |-> NextVer(q), dv |-> NextVer(q), opt |-> OptVec(NextVer(q))]
    /\ UNCHANGED <<muxInst, sgen, ns, dead, lim, rq>>

CreateStore ==
    /\ u.op = "create"
    /\ ns' = [ns EXCEPT ![u.p] = u.new]
    /\ u' = Idle
    /\ last' = [a |-> "createStore", p |-> u.p, ver |-> pobj[u.new].ver, fv |-> pobj[u.new].fv, pv |-> pobj[u.new].pv, dv |-> pobj[u.new].dv]
    /\ UNCHANGED <<muxInst, sgen, pobj, dead, lim, rq, cnt>>

(* DeletePipeline of another object: LoadAndDelete ; entity.Close                                *)
DeleteRemove(q) ==
    /\ CanBegin /\ cnt.other < MaxOther /\ q \in Others /\ ns[q] # 0
    /\ u' = [op |-> "delete", p |-> q, new |-> ns[q], i |-> 0]
    /\ ns' = [ns EXCEPT ![q] = 0]
    /\ cnt' = [cnt EXCEPT !.other = @ + 1]
    /\ last' = [a |-> "deleteRemove", p |-> q]
    /\ UNCHANGED <<muxInst, sgen, pobj, dead, lim, rq>>

DeleteClose ==
    /\ u.op = "delete"
    /\ pobj' = [pobj EXCEPT ![u.new].closed = TRUE]
    /\ dead' = dead \cup Killed(pobj[u.new])
    /\ lim' = [lim EXCEPT !.off = @ \cup Disabled(pobj[u.new])]
    /\ u' = Idle
    /\ last' = [a |-> "deleteClose", p |-> u.p]
    /\ UNCHANGED <<muxInst, sgen, ns, rq, cnt>>

Updater == \/ (\E kind \in SrvKinds : SrvBuild(kind)) \/ SrvStore \/ CtlInherit \/ PipInheritF \/ PipClosePrev \/ PipStore \/ CreateStore \/ DeleteClose
           \/ \E p \in Pipes : (\E kind \in PipKinds : PipBegin(p, kind)) \/ ApplySame(p) \/ CreateInit(p) \/ DeleteRemove(p)

(* ------------------------------- a request -------------------------------------------------- *)
(* the generation of the server a step of request r reads from: the one it holds                 *)
Cur(r) == IF LoadPerStep THEN muxInst ELSE rq[r].sg

ReqStart(r, tg, ip, cl) ==
    /\ rq[r].pc = "idle" /\ cnt.req[r] < MaxReq
    /\ tg \in Targets /\ ip \in IPs /\ (tg # "srv" => ip = "n")
    /\ cl \in Classes /\ (cl # "n" => ip = "n")
    /\ rq' = [rq EXCEPT ![r] = [NoReq EXCEPT !.pc = IF tg = "srv" THEN "load" ELSE "get", !.tg = tg, !.ip = ip, !.cl = cl,
                                              !.fs = muxInst, !.fp = [p \in Pipes |-> VerOf(ns[p])]]]
    /\ cnt' = [cnt EXCEPT !.req[r] = @ + 1]
    /\ last' = [a |-> "start", r |-> r, tg |-> tg, ip |-> ip, cl |-> cl]
    /\ UNCHANGED <<muxInst, sgen, ns, pobj, dead, lim, u>>

(* mux.ServeHTTP: m.inst.Load()                                                                  *)
LoadInst(r) ==
    /\ rq[r].pc = "load"
    /\ rq' = [rq EXCEPT ![r].sg = muxInst, ![r].pc = "route"]
    /\ last' = [a |-> "load", r |-> r, g |-> muxInst, rv |-> sgen[muxInst].rv, ov |-> sgen[muxInst].ov]
    /\ UNCHANGED <<muxInst, sgen, ns, pobj, dead, lim, u, cnt>>

(* muxInstance.search: the server-level ipFilter of the held instance admits the client, then   *)
(* its rules choose the backend                                                                  *)
Route(r) ==
    /\ rq[r].pc = "route"
    /\ IF Blocked(Cur(r), rq[r].ip)
       THEN /\ rq' = [rq EXCEPT ![r].be = Cur(r), ![r].st = "403", ![r].pc = "done"]
            /\ last' = [a |-> "route", r |-> r, g |-> Cur(r), rv |-> sgen[Cur(r)].rv, be |-> "-", blocked |-> TRUE]
       ELSE /\ rq' = [rq EXCEPT ![r].be = Cur(r), ![r].pc = "get"]
            /\ last' = [a |-> "route", r |-> r, g |-> Cur(r), rv |-> sgen[Cur(r)].rv, be |-> BackendOf(Cur(r)), blocked |-> FALSE]
    /\ UNCHANGED <<muxInst, sgen, ns, pobj, dead, lim, u, cnt>>

(* muxMapper.GetHandler (sync.Map load), then rewrite and X-Forwarded-For from the held instance *)
GetHandler(r) ==
    /\ rq[r].pc = "get"
    /\ LET p == IF rq[r].tg = "srv" THEN BackendOf(rq[r].be) ELSE rq[r].tg
           g == IF rq[r].tg = "srv" THEN Cur(r) ELSE 0
       IN IF ns[p] = 0
          THEN /\ rq' = [rq EXCEPT ![r].st = "503", ![r].pc = "done"]
               /\ last' = [a |-> "get", r |-> r, p |-> p, found |-> FALSE, ver |-> 0, fv |-> 0, pv |-> 0, dv |-> 0, g |-> g, rv |-> 0, xf |-> FALSE]
          ELSE /\ rq' = [rq EXCEPT ![r].ph = ns[p], ![r].rw = g, ![r].xf = g, ![r].i = 1,
                                   ![r].pc = IF NF = 0 THEN "done" ELSE "run",
                                   ![r].st = IF NF = 0 THEN "ok" ELSE ""]
               /\ last' = [a |-> "get", r |-> r, p |-> p, found |-> TRUE, ver |-> VerOf(ns[p]), fv |-> FvOf(ns[p]), pv |-> PvOf(ns[p]),
                           dv |-> DvOf(ns[p]), g |-> g,
                           rv |-> IF g = 0 THEN 0 ELSE sgen[g].rv, xf |-> IF g = 0 THEN FALSE ELSE XffOf(g)]
    /\ UNCHANGED <<muxInst, sgen, ns, pobj, dead, lim, u, cnt>>

(* Pipeline.doHandle: filter i of the held pipeline generation handles the request, using the     *)
(* state cell the filter instance points to *now* and the policies the instance works under.      *)
(* Outcome of the call for request r:                                                             *)
(*   "fail"     the cell is gone (nil pointer / killed by a Close)                                *)
(*   "limited"  class "x" at a Limiting kind whose cell has no permit left: 429, the flow ends;    *)
(*              class "d" at a Limiting kind whose default-policy cell was built from the tight  *)
(*              policy and has no permit left                                                     *)
(*   "bfail"    class "f" at a Resilient kind: the backend call fails under the policies          *)
(*              pol[i] of the instance (their version shows in the number of attempts), the flow  *)
(*              ends with the backend's failure                                                   *)
(*   "pass"     otherwise; a class "x" / "d" request that passes a Limiting kind takes a permit   *)
Cell(o, i) == <<o.ref[i], i>>
Permit(r) == LET o == pobj[rq[r].ph]  i == rq[r].i IN
    /\ Valid(o, i) /\ Kinds[i] \in Limiting /\ rq[r].cl = "x"
    /\ Cell(o, i) \in lim.off \/ Cell(o, i) \notin lim.spent
DCell(o, i) == <<o.dref[i], i>>
DCellTight(o, i) == o.dref[i] # 0 /\ DTight(pobj[o.dref[i]].dv)     \* the policy the cell was built from
PermitD(r) == LET o == pobj[rq[r].ph]  i == rq[r].i IN
    /\ Valid(o, i) /\ Kinds[i] \in Limiting /\ rq[r].cl = "d"
    /\ ~DCellTight(o, i) \/ DCell(o, i) \notin lim.dspent
Res(r) == LET o == pobj[rq[r].ph]  i == rq[r].i IN
    IF ~Valid(o, i) THEN "fail"
    ELSE IF Kinds[i] \in Limiting /\ rq[r].cl = "x" /\ ~Permit(r) THEN "limited"
    ELSE IF Kinds[i] \in Limiting /\ rq[r].cl = "d" /\ ~PermitD(r) THEN "limited"
    ELSE IF Kinds[i] \in Resilient /\ rq[r].cl = "f" THEN "bfail"
    ELSE "pass"

Advance(r, res) == LET o == pobj[rq[r].ph]  i == rq[r].i IN
    [rq EXCEPT ![r].i = IF res = "pass" THEN i + 1 ELSE i,
               ![r].pc = IF res = "pass" /\ i < NF THEN "run" ELSE "done",
               ![r].po = IF res = "bfail" THEN o.pol[i] ELSE @,
               ![r].eo = IF res = "pass" /\ rq[r].cl = "o" /\ Kinds[i] \in Optioned THEN o.eff[i] ELSE @,
               ![r].st = CASE res = "fail" -> "fail" [] res = "limited" -> "429" [] res = "bfail" -> "bfail"
                           [] OTHER -> IF i = NF THEN "ok" ELSE ""]

(* what an observer sees of the call: its outcome, the generation the request holds and - for a    *)
(* failing backend call - the policies the filter worked under; `over`: the generation has now let *)
(* more class "x" requests pass than it is configured to                                          *)
RunObs(a, r, res) == LET o == pobj[rq[r].ph]  i == rq[r].i IN
    [a |-> a, r |-> r, i |-> i, k |-> Kinds[i], ok |-> res # "fail", res |-> res, cl |-> rq[r].cl,
     ver |-> o.ver, fv |-> o.fv, pv |-> o.pv, dv |-> o.dv, tight |-> DTight(o.dv), closed |-> o.closed,
     pol |-> IF res = "bfail" THEN o.pol[i] ELSE 0,
     opt |-> o.opt, eff |-> o.eff[i],    \* the options configured / in force (class "o" requests show the latter)
     over |-> \/ Permit(r) /\ o.perm[i] + 1 > Limit
              \/ PermitD(r) /\ DTight(o.dv) /\ o.dperm[i] + 1 > Limit]

Handled(a, r) ==
    LET o == pobj[rq[r].ph]
        i == rq[r].i
        res == Res(r)
    IN /\ rq' = Advance(r, res)
       /\ pobj' = IF Permit(r) THEN [pobj EXCEPT ![rq[r].ph].perm[i] = @ + 1]
                  ELSE IF PermitD(r) THEN [pobj EXCEPT ![rq[r].ph].dperm[i] = @ + 1] ELSE pobj
       /\ lim' = IF Permit(r) /\ Cell(o, i) \notin lim.off THEN [lim EXCEPT !.spent = @ \cup {Cell(o, i)}]
                 ELSE IF PermitD(r) /\ DCellTight(o, i) THEN [lim EXCEPT !.dspent = @ \cup {DCell(o, i)}] ELSE lim
       /\ last' = RunObs(a, r, res)

RunFilter(r) ==
    /\ rq[r].pc = "run" /\ Kinds[rq[r].i] \notin Blocking
    /\ Handled("run", r)
    /\ UNCHANGED <<muxInst, sgen, ns, dead, u, cnt>>

(* a filter that calls out (Proxy -> backend): the request is in flight between the two steps;   *)
(* the filter's state must still be usable when the answer comes back                            *)
RunEnter(r) ==
    /\ rq[r].pc = "run" /\ Kinds[rq[r].i] \in Blocking
    /\ LET o == pobj[rq[r].ph]
           i == rq[r].i
           ok == Valid(o, i)
       IN /\ rq' = IF ok THEN [rq EXCEPT ![r].pc = "in"] ELSE Advance(r, "fail")
          /\ last' = [RunObs("enter", r, IF ok THEN "pass" ELSE "fail") EXCEPT !.over = FALSE]
    /\ UNCHANGED <<muxInst, sgen, ns, pobj, dead, lim, u, cnt>>

RunExit(r) ==
    /\ rq[r].pc = "in"
    /\ Handled("exit", r)
    /\ UNCHANGED <<muxInst, sgen, ns, dead, u, cnt>>

ReqDone(r) ==
    /\ rq[r].pc = "done"
    /\ rq' = [rq EXCEPT ![r] = NoReq]
    /\ last' = [a |-> "done", r |-> r, st |-> rq[r].st]
    /\ UNCHANGED <<muxInst, sgen, ns, pobj, dead, lim, u, cnt>>

Request(r) == \/ \E tg \in Targets, ip \in IPs, cl \in Classes : ReqStart(r, tg, ip, cl)
              \/ LoadInst(r) \/ Route(r) \/ GetHandler(r) \/ RunFilter(r) \/ RunEnter(r) \/ RunExit(r) \/ ReqDone(r)

Next == Updater \/ \E r \in Reqs : Request(r)
Spec == Init /\ [][Next]_vars

(* ------------------------------- the contract (C11) ----------------------------------------- *)
TypeOK ==
    /\ muxInst \in 1..Len(sgen)
    /\ \A p \in Pipes : ns[p] \in 0..Len(pobj)
    /\ u.op \in {"idle", "srv", "pip", "create", "delete"}
    /\ \A r \in Reqs : rq[r].pc \in {"idle", "load", "route", "get", "run", "in", "done"}

(* each request is handled entirely under one generation of rules, options and pipeline          *)
Consistent ==
    \A r \in Reqs : rq[r].tg = "srv" =>
        /\ rq[r].pc \in {"get", "run", "in", "done"} => rq[r].be = rq[r].sg
        /\ rq[r].ph # 0 => rq[r].rw = rq[r].sg /\ rq[r].xf = rq[r].sg /\ pobj[rq[r].ph].name = BackendOf(rq[r].sg)

(* a request - also one that holds a superseded generation - completes without failing           *)
NoFailure == \A r \in Reqs : rq[r].st # "fail"

(* an object nobody deleted is never unavailable                                                 *)
Available == \A r \in Reqs : rq[r].st = "503" => (rq[r].tg \in Others \/ (rq[r].tg = "srv" /\ BackendOf(rq[r].be) \in Others))

(* once an update has been applied (Store), every request that starts afterwards sees it         *)
Visibility ==
    \A r \in Reqs :
        /\ rq[r].sg # 0 => rq[r].sg >= rq[r].fs
        /\ rq[r].ph # 0 => pobj[rq[r].ph].ver >= rq[r].fp[pobj[rq[r].ph].name]

Servable(q) == ns[q] # 0 => /\ ~pobj[ns[q]].closed
                            /\ \A i \in 1..NF : Valid(pobj[ns[q]], i)

(* operations on one object leave every other object servable and untouched                      *)
Isolation == \A q \in Pipes : q # u.p => Servable(q)
IsolationStep ==
    [][\A q \in Pipes : (q # u.p /\ q # u'.p) =>
            /\ ns'[q] = ns[q]
            /\ ns[q] # 0 => [pobj'[ns[q]] EXCEPT !.perm = pobj[ns[q]].perm, !.dperm = pobj[ns[q]].dperm] = pobj[ns[q]]]_vars

(* an update that has completed leaves the updated object servable                               *)
Settled == u.op = "idle" => \A q \in Pipes : Servable(q)

(* the generation a request is handled under is the one configured: a Resilient filter works     *)
(* under the policies of the generation the request holds (with Visibility: once an update of the *)
(* resilience section has been applied, every new request is handled under the new policies) ...  *)
(* ... a request for the URL that falls under the default policy is limited only by a generation  *)
(* whose default policy limits at all (once an update that switches the default policy has been   *)
(* applied, the limiter of the previous policy is no longer in force for new requests) ...        *)
(* ... every option a request's backend call shows is the one the generation it holds configures  *)
(* (once an update of a single option has been applied, every new request is handled under it) ... *)
Configured == \A r \in Reqs :
    /\ (rq[r].po # 0 => rq[r].po = pobj[rq[r].ph].pv)
    /\ ((rq[r].cl = "d" /\ rq[r].st = "429") => DTight(pobj[rq[r].ph].dv))
    /\ \A o \in Options : rq[r].eo[o] # 0 => rq[r].eo[o] = pobj[rq[r].ph].opt[o]

(* ... and no generation lets more class "x" requests pass than it is configured to, whatever a    *)
(* Close of another generation did to a state cell the two share                                  *)
Limited == \A id \in 1..Len(pobj) : \A i \in 1..NF :
    /\ pobj[id].perm[i] <= Limit
    /\ (DTight(pobj[id].dv) => pobj[id].dperm[i] <= Limit)

(* applying an unchanged spec changes nothing                                                    *)
NoOp == [][last'.a \in {"same", "ctl"} => /\ ns' = ns /\ pobj' = pobj /\ dead' = dead /\ lim' = lim /\ muxInst' = muxInst /\ sgen' = sgen]_vars
=============================================================================

----------------------------- MODULE HotUpdateGF -----------------------------
(* C11, the GlobalFilter part of the hot-update specification (pkg/object/globalfilter).          *)
(* A GlobalFilter is the business controller whose optional *before* and *after* pipelines an      *)
(* HTTPServer runs around the pipeline a request is routed to (muxInstance.serveHTTP:              *)
(* getGlobalFilter() ; globalFilter.Handle(ctx, handler) -> handler.HandleWithBeforeAfter).        *)
(* Like a Pipeline in HotUpdate.tla it is updated by building a new generation object that         *)
(* inherits from the previous one, while requests that hold the previous generation are in flight. *)
(*                                                                                                *)
(* What is modelled                                                                               *)
(*   registry   reg: the generation object the supervisor hands out (entity.Instance())           *)
(*   generation gf[id] = [bv, av, b, a]: built from version bv / av of the before / after         *)
(*              pipeline section of its spec (0 = the spec has no such pipeline); b / a is the    *)
(*              pipeline object installed in gf.beforePipeline / gf.afterPipeline (0 = nil)       *)
(*   pipelines  pl[id] = [side, ver, closed]: a generation object of the before ("b") or after    *)
(*              ("a") pipeline, built from version ver of that section                            *)
(*   updater    GfBegin(kb, ka) ; GfReload("b") ; GfReload("a") ; GfStore     (GlobalFilter.Inherit, *)
(*              then the registry is switched).  Per side the new spec keeps the section, changes  *)
(*              it (a new version; also: adds it where there was none) or drops it.  Reload of a    *)
(*              side whose section is present creates the pipeline object - Pipeline.Inherit from  *)
(*              the previous generation's one, which it closes, or Init where there was none -     *)
(*              and installs it; a side whose section is absent stays nil.                          *)
(*              Knob KeepRemoved (FALSE in the code): the new generation first takes over the       *)
(*              previous generation's pipelines and replaces only those the new spec defines.      *)
(*   requests   ReqStart ; ReqLoad (the registry lookup) ; ReqEnter (gf.Handle loads both          *)
(*              pointers of the generation it holds) ; RunBefore? ; RunMain ; RunAfter? ; ReqDone   *)
(* The contract (C11) are the invariants at the end.                                              *)
EXTENDS Integers, Sequences, FiniteSets

CONSTANTS Reqs,        \* request processes
          MaxUpd,      \* bound: updates
          MaxReq,      \* bound: requests per process
          SideKinds,   \* what an update may do to a side: subset of {"keep", "change", "drop"}
          KeepRemoved  \* impl knob (FALSE in the code)

VARIABLES reg, gf, pl, hv, u, rq, cnt, last

vars == <<reg, gf, pl, hv, u, rq, cnt, last>>
view == <<reg, gf, pl, hv, u, rq, cnt>>

Sides == {"b", "a"}
Idle == [op |-> "idle", new |-> 0, i |-> 0]
NoReq == [pc |-> "idle", fs |-> 0, h |-> 0, b |-> 0, a |-> 0, bs |-> 0, as |-> 0, st |-> ""]

SpecV(g, s) == IF s = "b" THEN gf[g].bv ELSE gf[g].av
Inst(g, s) == IF s = "b" THEN gf[g].b ELSE gf[g].a

Init ==
    /\ reg = 1
    /\ gf = <<[bv |-> 1, av |-> 1, b |-> 1, a |-> 2]>>
    /\ pl = <<[side |-> "b", ver |-> 1, closed |-> FALSE], [side |-> "a", ver |-> 1, closed |-> FALSE]>>
    /\ hv = [s \in Sides |-> 1]          \* highest version of each section issued so far
    /\ u = Idle
    /\ rq = [r \in Reqs |-> NoReq]
    /\ cnt = [upd |-> 0, req |-> [r \in Reqs |-> 0]]
    /\ last = [a |-> "init"]

(* ------------------------------- the updater ------------------------------------------------ *)
NewV(s, k) == CASE k = "keep" -> SpecV(reg, s) [] k = "change" -> hv[s] + 1 [] OTHER -> 0

(* new(GlobalFilter).Inherit(spec', prev), up to the first reload                                  *)
GfBegin(kb, ka) ==
    /\ u.op = "idle" /\ cnt.upd < MaxUpd
    /\ kb \in SideKinds /\ ka \in SideKinds
    /\ (kb = "drop" => gf[reg].bv # 0) /\ (ka = "drop" => gf[reg].av # 0)
    /\ LET nb == NewV("b", kb)  na == NewV("a", ka) IN
       /\ gf' = Append(gf, [bv |-> nb, av |-> na,
                            b |-> IF KeepRemoved THEN gf[reg].b ELSE 0, a |-> IF KeepRemoved THEN gf[reg].a ELSE 0])
       /\ hv' = [hv EXCEPT !["b"] = IF kb = "change" THEN @ + 1 ELSE @, !["a"] = IF ka = "change" THEN @ + 1 ELSE @]
       /\ last' = [a |-> "gfBegin", g |-> Len(gf) + 1, kb |-> kb, ka |-> ka, bv |-> nb, av |-> na]
    /\ u' = [op |-> "gf", new |-> Len(gf) + 1, i |-> 1]
    /\ cnt' = [cnt EXCEPT !.upd = @ + 1]
    /\ UNCHANGED <<reg, pl, rq>>

(* GlobalFilter.reload, one side: if the new spec has the section, the pipeline object is created  *)
(* (Inherit closes the previous generation's pipeline) and installed                               *)
GfReload ==
    /\ u.op = "gf" /\ u.i \in {1, 2}
    /\ LET s == IF u.i = 1 THEN "b" ELSE "a"
           v == SpecV(u.new, s)
           prev == Inst(reg, s)
           id == Len(pl) + 1
       IN IF v = 0
          THEN /\ UNCHANGED <<gf, pl>>
               /\ last' = [a |-> "gfReload", side |-> s, ver |-> 0]
          ELSE /\ pl' = Append(IF prev # 0 THEN [pl EXCEPT ![prev].closed = TRUE] ELSE pl, [side |-> s, ver |-> v, closed |-> FALSE])
               /\ gf' = IF s = "b" THEN [gf EXCEPT ![u.new].b = id] ELSE [gf EXCEPT ![u.new].a = id]
               /\ last' = [a |-> "gfReload", side |-> s, ver |-> v]
    /\ u' = [u EXCEPT !.i = @ + 1]
    /\ UNCHANGED <<reg, hv, rq, cnt>>

(* the registry hands out the new generation - the linearisation point of the update              *)
GfStore ==
    /\ u.op = "gf" /\ u.i = 3
    /\ reg' = u.new
    /\ u' = Idle
    /\ last' = [a |-> "gfStore", g |-> u.new, bv |-> gf[u.new].bv, av |-> gf[u.new].av]
    /\ UNCHANGED <<gf, pl, hv, rq, cnt>>

Updater == GfReload \/ GfStore \/ \E kb \in SideKinds, ka \in SideKinds : GfBegin(kb, ka)

(* ------------------------------- a request -------------------------------------------------- *)
ReqStart(r) ==
    /\ rq[r].pc = "idle" /\ cnt.req[r] < MaxReq
    /\ rq' = [rq EXCEPT ![r] = [NoReq EXCEPT !.pc = "load", !.fs = reg]]
    /\ cnt' = [cnt EXCEPT !.req[r] = @ + 1]
    /\ last' = [a |-> "start", r |-> r]
    /\ UNCHANGED <<reg, gf, pl, hv, u>>

ReqLoad(r) ==
    /\ rq[r].pc = "load"
    /\ rq' = [rq EXCEPT ![r].h = reg, ![r].pc = "enter"]
    /\ last' = [a |-> "load", r |-> r, g |-> reg]
    /\ UNCHANGED <<reg, gf, pl, hv, u, cnt>>

(* GlobalFilter.Handle: both pointers are read from the generation the request holds             *)
ReqEnter(r) ==
    /\ rq[r].pc = "enter"
    /\ LET g == rq[r].h IN
       /\ rq' = [rq EXCEPT ![r].b = gf[g].b, ![r].a = gf[g].a, ![r].pc = IF gf[g].b # 0 THEN "before" ELSE "main"]
       /\ last' = [a |-> "enter", r |-> r, g |-> g,
                   b |-> IF gf[g].b = 0 THEN 0 ELSE pl[gf[g].b].ver, aa |-> IF gf[g].a = 0 THEN 0 ELSE pl[gf[g].a].ver]
    /\ UNCHANGED <<reg, gf, pl, hv, u, cnt>>

Run(r, s) ==
    /\ rq[r].pc = (IF s = "b" THEN "before" ELSE "after")
    /\ LET id == IF s = "b" THEN rq[r].b ELSE rq[r].a IN
       /\ rq' = IF s = "b" THEN [rq EXCEPT ![r].bs = pl[id].ver, ![r].pc = "main"]
                ELSE [rq EXCEPT ![r].as = pl[id].ver, ![r].pc = "done", ![r].st = "ok"]
       /\ last' = [a |-> "run", r |-> r, side |-> s, ver |-> pl[id].ver, closed |-> pl[id].closed]
    /\ UNCHANGED <<reg, gf, pl, hv, u, cnt>>

RunMain(r) ==
    /\ rq[r].pc = "main"
    /\ rq' = [rq EXCEPT ![r].pc = IF rq[r].a # 0 THEN "after" ELSE "done", ![r].st = IF rq[r].a # 0 THEN "" ELSE "ok"]
    /\ last' = [a |-> "main", r |-> r]
    /\ UNCHANGED <<reg, gf, pl, hv, u, cnt>>

ReqDone(r) ==
    /\ rq[r].pc = "done"
    /\ rq' = [rq EXCEPT ![r] = NoReq]
    /\ last' = [a |-> "done", r |-> r, g |-> rq[r].h, bs |-> rq[r].bs, as |-> rq[r].as, st |-> rq[r].st]
    /\ UNCHANGED <<reg, gf, pl, hv, u, cnt>>

Request(r) == ReqStart(r) \/ ReqLoad(r) \/ ReqEnter(r) \/ Run(r, "b") \/ RunMain(r) \/ Run(r, "a") \/ ReqDone(r)

Next == Updater \/ \E r \in Reqs : Request(r)
Spec == Init /\ [][Next]_vars

(* ------------------------------- the contract (C11) ----------------------------------------- *)
TypeOK ==
    /\ reg \in 1..Len(gf)
    /\ u.op \in {"idle", "gf"}
    /\ \A r \in Reqs : rq[r].pc \in {"idle", "load", "enter", "before", "main", "after", "done"}

Published == {g \in 1..Len(gf) : u.op = "idle" \/ g # u.new}

(* a generation that requests can hold runs exactly the pipelines its spec defines: no pipeline on *)
(* a side whose section the spec does not have (an update that removes a section removes the      *)
(* pipeline), and the pipeline built from the spec's version of the section otherwise            *)
Installed ==
    \A g \in Published : \A s \in Sides :
        /\ (SpecV(g, s) = 0) = (Inst(g, s) = 0)
        /\ Inst(g, s) # 0 => pl[Inst(g, s)].side = s /\ pl[Inst(g, s)].ver = SpecV(g, s)

(* each request is handled entirely under one generation: the before and after pipelines it passes *)
(* are those of the generation it holds                                                           *)
Consistent ==
    \A r \in Reqs : rq[r].pc \in {"before", "main", "after", "done"} =>
        /\ rq[r].b = gf[rq[r].h].b /\ rq[r].a = gf[rq[r].h].a
        /\ rq[r].pc \in {"main", "after", "done"} => rq[r].bs = gf[rq[r].h].bv
        /\ rq[r].pc = "done" => rq[r].as = gf[rq[r].h].av

(* once the update has been applied, every request that starts afterwards sees the new generation *)
Visibility == \A r \in Reqs : rq[r].h # 0 => rq[r].h >= rq[r].fs

(* the pipelines of the generation the registry hands out are not closed                          *)
Servable == u.op = "idle" => \A s \in Sides : Inst(reg, s) # 0 => ~pl[Inst(reg, s)].closed
=============================================================================

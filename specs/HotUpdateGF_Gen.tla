--------------------------- MODULE HotUpdateGF_Gen ---------------------------
(* Behaviour-generation wrapper of HotUpdateGF: adds `out`, the JSON description of the step just *)
(* taken (with what the model predicts an observer sees).  GlobalFilter.Inherit is one call the   *)
(* harness cannot stop inside: GfBegin ; GfReload ; GfReload is one block; GfStore (the harness   *)
(* owns the registry pointer) is a step of its own.                                              *)
EXTENDS HotUpdateGF, Json, TLC

VARIABLE out

UpdOnly == u.op = "gf" /\ u.i \in {1, 2}

GInit == Init /\ out = ToJson(last)
GNext == (IF UpdOnly THEN Updater ELSE Next) /\ out' = ToJson(last')
GSpec == GInit /\ [][GNext]_<<vars, out>>
=============================================================================

--------------------------- MODULE HotUpdateGF_MC ---------------------------
(* Model-checking wrapper of HotUpdateGF.                                                         *)
EXTENDS HotUpdateGF

MCSpec == Init /\ [][Next]_vars
=============================================================================

---------------------------- MODULE HotUpdate_Gen ----------------------------
(* Model-checking / behaviour-generation wrapper of HotUpdate: adds `out`, the JSON description  *)
(* of the step just taken (with the observation the model predicts), and - for schedules that    *)
(* are replayed on the real code - restricts the interleaving to the points at which a harness   *)
(* can actually stop the real updater without hooks in the sources:                              *)
(*   Atomic = "fine"    every action is a step of its own (model checking)                       *)
(*            "gates"   the Inherit calls of one update are one block (the harness stops the     *)
(*                      real ApplyPipeline at the end of the last filter's Inherit),             *)
(*                      Close(prev);Store is one block, and so is LoadAndDelete;Close            *)
(*            "coarse"  Inherit*;Close(prev) is one block (Pipeline.Inherit called directly),    *)
(*                      Store is a step of its own (the harness owns the map)                    *)
EXTENDS HotUpdate, Json, TLC

CONSTANT Atomic
VARIABLE out

RoutedDef == <<"pa", "pb">>
KindsFull == <<"rl", "px">>
KindsOne == <<"k">>
KindsRl == <<"rl">>
KindsPx == <<"px">>

UpdOnly == CASE Atomic = "gates" -> \/ u.op = "pip" /\ (u.i \in 2..NF \/ u.i = NF + 2)
                                    \/ u.op = "delete"
             [] Atomic = "coarse" -> u.op = "pip" /\ u.i \in 2..(NF + 1)
             [] OTHER -> FALSE

(* every step also tells which version of every pipeline the namespace holds after it           *)
NsVer == [p \in Pipes |-> VerOf(ns[p])]

GInit == Init /\ out = ToJson(last @@ [nsv |-> NsVer])
GNext == (IF UpdOnly THEN Updater ELSE Next) /\ out' = ToJson(last' @@ [nsv |-> NsVer'])
GSpec == GInit /\ [][GNext]_<<vars, out>>
=============================================================================

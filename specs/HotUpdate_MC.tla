---------------------------- MODULE HotUpdate_MC ----------------------------
(* Model-checking wrapper of HotUpdate: constants that a cfg file cannot express.  (The generator *)
(* wrapper HotUpdate_Gen carries the JSON `out` variable, which makes exhaustive runs slow.)      *)
EXTENDS HotUpdate

RoutedDef == <<"pa", "pb">>
KindsFull == <<"rl", "px">>
KindsOne == <<"k">>
KindsRl == <<"rl">>
KindsPx == <<"px">>

MCSpec == Init /\ [][Next]_vars
=============================================================================

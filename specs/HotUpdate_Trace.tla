--------------------------- MODULE HotUpdate_Trace ---------------------------
(* Trace validation for C11.  The stress harness logs, with a global sequence number,             *)
(*   r.inv / r.ret   invocation and return of every request; r.ret carries the tuple the request  *)
(*                   saw: status, panic?, pipeline that handled it, the rules version encoded in  *)
(*                   the rewritten path, X-Forwarded-For added?, the pipeline version shown by    *)
(*                   the three marker filters; r.inv carries the client address.  (The driver copies the tuple of the matching      *)
(*                   r.ret into the r.inv line as `w`, so that the linearisation below needs no   *)
(*                   look-ahead in the log.)                                                      *)
(*   u.inv / u.ret   invocation and return of every update operation of the single updater.       *)
(* Every action of HotUpdate is a silent step here, placed by TLC between the inv and the ret of   *)
(* the call it belongs to:                                                                        *)
(*   - the updater's steps (Build/Store, Begin/Inherit/Close/Store, ...) at any point of the call *)
(*     (TLC explores all placements);                                                             *)
(*   - the steps of a request *eagerly*: LoadInst as soon as the installed generation explains    *)
(*     what the request reports, GetHandler as soon as the pipeline version it reports is the stored  *)
(*     one.  Requests only read the modelled state, so taking a step at the earliest possible     *)
(*     point never excludes a linearisation: the search stays linear in the length of the log.    *)
(* A request whose tuple no placement explains (a generation that was not installed at any time   *)
(* of the request: stale, i.e. Visibility, or mixed, i.e. Consistent) cannot return: the log is    *)
(* rejected at that line.  Verdicts that do not depend on the placement (panic, status, markers    *)
(* of different versions, a no-op apply that replaced the entity) set `viol`; the contract's       *)
(* invariants are evaluated on every state of the observed execution.  The stress requests are     *)
(* all of class "n" and every pipeline update changes filters and resilience section ("both"):    *)
(* the configuration dimensions are covered by the schedule replays.                              *)
EXTENDS HotUpdate, Json, TLC, IOUtils

TLog == ndJsonDeserialize(IOEnv.VERIF_TRACE)

RoutedDef == <<"pa", "pb">>
KindsFull == <<"rl", "px">>
ProcSeq == <<"w0", "w1", "w2", "w3", "w4", "w5", "w6", "w7">>
ProcSet == {ProcSeq[i] : i \in 1..Len(ProcSeq)}
Idx(p) == CHOOSE i \in 1..Len(ProcSeq) : ProcSeq[i] = p

VARIABLES l,      \* next line of the log
          want,   \* [proc -> tuple the pending request will report]
          tu,     \* the pending update call: [op, o, g, started]
          viol    \* "" or the clause an observed request / update broke

tvars == <<vars, l, want, tu, viol>>

NoWant == [st |-> 0, panic |-> FALSE, pipe |-> "-", g |-> 0, xf |-> FALSE, v1 |-> 0, v2 |-> 0, v3 |-> 0]
NoCall == [op |-> "none", o |-> "-", g |-> 0, kind |-> "-", started |-> FALSE]

IsEvent(e) == l <= Len(TLog) /\ TLog[l].ev = e /\ l' = l + 1

(* ---- eager steps of the requests ---- *)
Target(p) == IF rq[p].tg = "srv" THEN BackendOf(rq[p].be) ELSE rq[p].tg

(* the installed server generation explains what the request reports: the rules version in the   *)
(* rewritten path, X-Forwarded-For, and whether its client address was refused                     *)
Compatible(p) ==
    IF want[p].st = 403 THEN Blocked(muxInst, rq[p].ip)
    ELSE IF want[p].g = 0 THEN TRUE
    ELSE sgen[muxInst].rv = want[p].g /\ XffOf(muxInst) = want[p].xf /\ ~Blocked(muxInst, rq[p].ip)

Elig(p) ==
    \/ rq[p].pc = "load" /\ Compatible(p)
    \/ rq[p].pc = "route"
    \/ /\ rq[p].pc = "get"
       /\ IF want[p].v1 # 0 THEN ns[Target(p)] # 0 /\ VerOf(ns[Target(p)]) = want[p].v1
          ELSE IF want[p].st = 503 THEN ns[Target(p)] = 0
          ELSE TRUE
    \/ rq[p].pc = "run" \/ rq[p].pc = "in"

Eligible == {p \in ProcSet : Elig(p)}

LinFirst ==
    /\ Eligible # {}
    /\ LET p == CHOOSE q \in Eligible : \A q2 \in Eligible : Idx(q) <= Idx(q2)
       IN LoadInst(p) \/ Route(p) \/ GetHandler(p) \/ RunFilter(p) \/ RunEnter(p) \/ RunExit(p)
    /\ UNCHANGED <<l, want, tu, viol>>

(* ---- requests ---- *)
(* a request the driver excluded from the verdict (it hit a recorded finding; validation goes on) *)
TSkip ==
    /\ l <= Len(TLog) /\ TLog[l].ev \in {"r.inv", "r.ret"} /\ TLog[l].skip
    /\ l' = l + 1
    /\ UNCHANGED <<vars, want, tu, viol>>

TInv(p) ==
    /\ IsEvent("r.inv") /\ TLog[l].p = p /\ ~TLog[l].skip
    /\ ReqStart(p, TLog[l].tg, TLog[l].ip, "n")
    /\ want' = [want EXCEPT ![p] = TLog[l].w]
    /\ UNCHANGED <<tu, viol>>

(* the verdict on a returning request *)
Verdict(p, o) ==
    LET r == rq[p] IN
    IF o.panic THEN "NoFailure"
    ELSE IF r.st = "503" THEN (IF o.st = 503 THEN "" ELSE "NoFailure")
    ELSE IF r.st = "403" THEN (IF o.st = 403 THEN "" ELSE "Consistent")
    ELSE IF o.st # 200 THEN "NoFailure"
    ELSE IF o.v1 # o.v2 \/ o.v2 # o.v3 \/ o.pipe # pobj[r.ph].name THEN "Consistent"
    ELSE IF r.tg = "srv" /\ (o.g # sgen[r.sg].rv \/ o.xf # XffOf(r.sg)) THEN "Consistent"
    ELSE ""

TRet(p) ==
    /\ IsEvent("r.ret") /\ TLog[l].p = p /\ ~TLog[l].skip
    /\ rq[p].pc # "idle"
    /\ TLog[l].panic \/ rq[p].pc = "done"      \* otherwise this placement of the silent steps does not explain the request
    /\ viol' = IF viol # "" THEN viol ELSE Verdict(p, TLog[l])
    /\ rq' = [rq EXCEPT ![p] = NoReq]
    /\ last' = [a |-> "done", r |-> p, st |-> rq[p].st]
    /\ want' = [want EXCEPT ![p] = NoWant]
    /\ UNCHANGED <<muxInst, sgen, ns, pobj, dead, lim, u, cnt, tu>>

(* ---- the updater ---- *)
UInv ==
    /\ IsEvent("u.inv") /\ tu.op = "none" /\ u.op = "idle"
    /\ tu' = [op |-> TLog[l].op, o |-> TLog[l].o, g |-> TLog[l].g, kind |-> TLog[l].kind, started |-> FALSE]
    /\ UNCHANGED <<vars, want, viol>>

(* first step of the call, as the operation and its argument say *)
UStart ==
    /\ tu.op # "none" /\ ~tu.started
    /\ CASE tu.op = "srv" -> SrvBuild(tu.kind) /\ u'.new = tu.g
         [] tu.op = "pip" -> PipBegin(tu.o, "both") /\ last'.ver = tu.g
         [] tu.op = "same" -> ApplySame(tu.o)
         [] tu.op = "create" -> CreateInit(tu.o) /\ last'.ver = tu.g
         [] tu.op = "delete" -> DeleteRemove(tu.o)
    /\ tu' = [tu EXCEPT !.started = TRUE]
    /\ UNCHANGED <<l, want, viol>>

(* the remaining steps of the call *)
UStep ==
    /\ tu.started /\ u.op # "idle"
    /\ SrvStore \/ PipInheritF \/ PipClosePrev \/ PipStore \/ CreateStore \/ DeleteClose
    /\ UNCHANGED <<l, want, tu, viol>>

URet ==
    /\ IsEvent("u.ret") /\ tu.started /\ u.op = "idle"
    /\ viol' = IF viol # "" THEN viol
               ELSE IF tu.op = "same" /\ ~TLog[l].kept THEN "NoOp"
               ELSE IF tu.op = "pip" /\ TLog[l].kept THEN "Visibility"
               ELSE ""
    /\ tu' = NoCall
    /\ UNCHANGED <<vars, want>>

TReset ==
    /\ IsEvent("reset")
    /\ muxInst' = 1 /\ sgen' = <<[rv |-> 1, ov |-> 1]>>
    /\ pobj' = <<NewObj(Routed[1], 1, 1, 1, 1, TRUE), NewObj(Routed[2], 1, 1, 1, 2, TRUE)>>
    /\ ns' = [p \in Pipes |-> IF p = Routed[1] THEN 1 ELSE IF p = Routed[2] THEN 2 ELSE 0]
    /\ dead' = {} /\ lim' = Lim0 /\ u' = Idle
    /\ rq' = [r \in Reqs |-> NoReq]
    /\ cnt' = [srv |-> 0, pip |-> 0, other |-> 0, same |-> 0, req |-> [r \in Reqs |-> 0]]
    /\ last' = [a |-> "init"]
    /\ want' = [p \in ProcSet |-> NoWant] /\ tu' = NoCall
    /\ viol' = viol

TNext ==
    IF Eligible # {} THEN LinFirst
    ELSE \/ TReset \/ TSkip \/ UInv \/ UStart \/ UStep \/ URet
         \/ \E p \in ProcSet : TInv(p) \/ TRet(p)

TInit == Init /\ l = 1 /\ want = [p \in ProcSet |-> NoWant] /\ tu = NoCall /\ viol = ""
TSpec == TInit /\ [][TNext]_tvars

(* the clauses of C11 on the observed execution *)
TV_NoFailure == viol # "NoFailure"
TV_Consistent == viol # "Consistent"
TV_NoOp == viol # "NoOp"
TV_Visibility == viol # "Visibility"

ASSUME TLCSet(1, 0)
HWM == TLCSet(1, IF l - 1 > TLCGet(1) THEN l - 1 ELSE TLCGet(1))
Accepted == /\ PrintT(<<"VERIF_HWM", TLCGet(1), Len(TLog)>>)
            /\ TLCGet(1) = Len(TLog)
=============================================================================

----------------------------- MODULE HttpRouter -----------------------------
(* C01, C05 (second half), C12.  The HTTP router of easegress' HTTPServer:                      *)
(* pkg/object/httpserver/mux.go (muxInstance.search / serveHTTP, muxRule.match, MuxPath.match*, *)
(* MuxPath.rewrite, the ARC route cache).                                                        *)
(*                                                                                              *)
(* Data (strings are sequences of one-character strings, see Strings.tla):                      *)
(*   cfg    = [ipf : Filter, rules : Seq(Rule), mapper : [backend names that exist -> STRING]]   *)
(*             mapper is the table behind the server's MuxMapper: for every backend name that    *)
(*             exists NOW the instance (pipeline object) registered under it, written as a label *)
(*             (the name itself for the instance of the start; a re-created or updated backend   *)
(*             is another instance under the same name).  The table belongs to the environment:  *)
(*             it changes without a reload of the server (Unmap, Map, Remap).                    *)
(*   Rule   = [host : Str, hostRE : RE, ipf : Filter, paths : Seq(Entry)]                        *)
(*   Entry  = [path, prefix : Str, re : RE, methods : Seq(Str), headers : Seq(Hdr),             *)
(*             matchAll : BOOLEAN, rewrite : Str, backend : STRING, ipf : Filter]                *)
(*   Hdr    = [key : STRING, values : Seq(Str), re : RE]                                         *)
(*   req    = [host, m, path : Str, hdr : [key -> Str] (absent key = absent header = ""),        *)
(*             ip : Addr (, via : STRING)]                                                       *)
(*             ip is the client address - the address C05 speaks of.  A request tells it to the  *)
(*             server in one of several ways, and the optional field `via` says which (no        *)
(*             operator of this module looks at it: the outcome must be the same whichever way   *)
(*             the client address arrives):                                                      *)
(*               "remote"   (or no field) the peer address of the connection                     *)
(*               "xff", "xri"   X-Forwarded-For resp. X-Real-IP holds just ip                    *)
(*               "xffchain" X-Forwarded-For lists proxy hops with private, loopback or           *)
(*                          link-local addresses around ip; the connection comes from a private  *)
(*                          address                                                              *)
(*               "xrichain" X-Forwarded-For lists such hops only, X-Real-IP holds ip             *)
(*             In the last two, as in the first three, ip is public and is the ONLY public       *)
(*             address the request names: every reading of "client address taken from            *)
(*             X-Forwarded-For / X-Real-IP / RemoteAddr" yields it.  Requests naming several     *)
(*             public addresses are outside the universes (which one is the client is not for    *)
(*             the property to say), clients with a non-public address come via "remote" only.  *)
(*             m is the method token as sent: any string, not only one of the nine methods a     *)
(*             configuration may list (PURGE, PROPFIND, lower-case "get" are requests too; an    *)
(*             entry with a method list matches exactly the listed tokens).                      *)
(*             path is the DECODED request path (URL.Path).  '%' is an ordinary character of it: *)
(*             a client that sends /a/%2562 asks for the path /a/%62, and matching and rewriting *)
(*             work on that string and never decode it again.                                    *)
(*   outcome= [code, be, path]: code 0 = dispatched to backend instance `be`, which sees `path`; *)
(*             otherwise the HTTP status sent to the client (be = "", path = <<>>)               *)
(*                                                                                              *)
(* CONTRACT LAYER (what the properties say)                                                     *)
(*   RouteSpec(cfg,q)   C01: first entry in rule-then-path order whose host, path, method and   *)
(*                      headers match; else 400 / 405 / 404 in that precedence                   *)
(*   Outcome0(cfg,q)    C01: + rewrite, + 503 for a backend that does not exist (filters ignored)*)
(*   RefOutcome(cfg,q)  C12: the cache-less reference = C01 extended with the 403 rules: server  *)
(*                      filter, then the filter of every host-matching rule up to the owning    *)
(*                      one, then the owning entry's filter                                      *)
(*   C05OK(cfg,q,o,o0)  C05 readings (i)-(ii) of an observed outcome o (o0: filter-less twin)      *)
(*   C05iiiOf(..,o,ou)  C05 reading (iii): whether the filter of a host-matching rule that was   *)
(*                      passed over on the way to the route "applies" is left to the server, but *)
(*                      not to its cache or its history (ou: the cache-less server's answer)     *)
(*                                                                                              *)
(* IMPLEMENTATION-SHAPED LAYER (what mux.go does)                                               *)
(*   SearchMiss         the two nested loops with the headerMismatch / methodMismatch flags,    *)
(*                      early `forbidden` returns and the cache insertions                       *)
(*   Search             cache lookup first; the hit branch consults only the cached filter chain *)
(*   Request(q), Evict  one step per request (search is not atomic in the code, but the only    *)
(*                      shared state is the cache, whose Get/Add are each atomic; a request      *)
(*                      does at most one Get followed by at most one Add of a value that does    *)
(*                      not depend on the cache, so interleavings of two requests are            *)
(*                      equivalent to some sequential order plus evictions); Evict drops any     *)
(*                      entry at any time - a sound abstraction of the ARC replacement policy.   *)
(*                                                                                              *)
(* The three switches describe the code variants (the pinned tree violates C12 in four ways -   *)
(* findings.d/C12.json - and with all three TRUE the layer is the cache design of                *)
(* fixes/c12-*.diff, for which TLC proves Transparent):                                           *)
(*   FixKey  FALSE: key = host \o method \o path (pinned tree)   TRUE: key = the triple          *)
(*   FixHdr  FALSE: a header-less match is cached even if a header-conditioned entry was         *)
(*                  passed over on the way (pinned tree)          TRUE: only if none was         *)
(*   FixIP   FALSE: cached route carries server+rule+path filter, cached 404/405 none            *)
(*                  (pinned tree)                                 TRUE: every filter consulted   *)
(*                  on the way to the cached result                                              *)
EXTENDS Integers, Sequences, FiniteSets, Strings, IPFilter

CONSTANTS CfgInit(_),  \* CfgInit(c): c is one of the server configurations to explore
          Reqs,        \* set of requests
          MaxReqs,     \* bound on the number of requests of a behaviour
          CacheOn,     \* cacheSize > 0
          Twin,        \* also run the filter-less twin server (C05 (ii)) on the same history
          FixKey, FixHdr, FixIP

(* ============================== contract layer ============================================= *)
HostOf(q) == StripPort(q.host)

HdrVal(q, k) == IF k \in DOMAIN q.hdr THEN q.hdr[k] ELSE <<>>
InSeq(x, s) == \E i \in DOMAIN s : s[i] = x

RuleMatches(r, q) ==
    \/ r.host = <<>> /\ ~r.hostRE.on                       \* no host condition
    \/ r.host # <<>> /\ r.host = HostOf(q)
    \/ r.hostRE.on /\ REMatch(r.hostRE, HostOf(q))

PathMatches(e, q) ==
    \/ e.path = <<>> /\ e.prefix = <<>> /\ ~e.re.on       \* no path condition: everything
    \/ e.path # <<>> /\ e.path = q.path
    \/ e.prefix # <<>> /\ IsPrefixOf(e.prefix, q.path)
    \/ e.re.on /\ REMatch(e.re, q.path)

MethodOK(e, q) == e.methods = <<>> \/ InSeq(q.m, e.methods)

(* matchAllHeader: every listed header satisfies its value list (if any) and its regexp (if any) *)
(* otherwise: some listed header has a listed value or matches its regexp                        *)
HdrMatches(e, q) ==
    IF e.matchAll
    THEN \A i \in DOMAIN e.headers :
            LET h == e.headers[i] v == HdrVal(q, h.key) IN
            /\ (h.values # <<>> => InSeq(v, h.values))
            /\ (h.re.on => REMatch(h.re, v))
    ELSE \E i \in DOMAIN e.headers :
            LET h == e.headers[i] v == HdrVal(q, h.key) IN
            \/ InSeq(v, h.values)
            \/ h.re.on /\ REMatch(h.re, v)
HdrOK(e, q) == e.headers = <<>> \/ HdrMatches(e, q)

Positions(cfg) == UNION {{<<i, j>> : j \in DOMAIN cfg.rules[i].paths} : i \in DOMAIN cfg.rules}
EntryAt(cfg, p) == cfg.rules[p[1]].paths[p[2]]
LexLeq(p, r) == p[1] < r[1] \/ (p[1] = r[1] /\ p[2] <= r[2])
LexMin(S) == CHOOSE p \in S : \A r \in S : LexLeq(p, r)

PathMethod(cfg, p, q) == /\ RuleMatches(cfg.rules[p[1]], q)
                         /\ PathMatches(EntryAt(cfg, p), q)
                         /\ MethodOK(EntryAt(cfg, p), q)
Full(cfg, p, q) == PathMethod(cfg, p, q) /\ HdrOK(EntryAt(cfg, p), q)

NoPos == <<0, 0>>
(* C01: [code, pos]: code 0 and the position of the winning entry, or the failure status *)
RouteSpec(cfg, q) ==
    LET full == {p \in Positions(cfg) : Full(cfg, p, q)} IN
    IF full # {} THEN [code |-> 0, pos |-> LexMin(full)]
    ELSE IF \E p \in Positions(cfg) : PathMethod(cfg, p, q) /\ ~HdrOK(EntryAt(cfg, p), q)
         THEN [code |-> 400, pos |-> NoPos]
    ELSE IF \E p \in Positions(cfg) : /\ RuleMatches(cfg.rules[p[1]], q)
                                      /\ PathMatches(EntryAt(cfg, p), q)
                                      /\ ~MethodOK(EntryAt(cfg, p), q)
         THEN [code |-> 405, pos |-> NoPos]
    ELSE [code |-> 404, pos |-> NoPos]

(* the three rewrite modes, in the order the kinds are matched *)
Rewrite(e, path) ==
    IF e.rewrite = <<>> THEN path
    ELSE IF e.path # <<>> /\ e.path = path THEN e.rewrite
    ELSE IF e.prefix # <<>> /\ IsPrefixOf(e.prefix, path) THEN e.rewrite \o Drop(path, Len(e.prefix))
    ELSE REReplaceAll(e.re, path, e.rewrite)

Status(c) == [code |-> c, be |-> "", path |-> <<>>]

(* what the client / backend observes once the route is known *)
Dispatch(cfg, rt, q) ==
    IF rt.code # 0 THEN Status(rt.code)
    ELSE LET e == EntryAt(cfg, rt.pos) IN
         IF e.backend \notin DOMAIN cfg.mapper THEN Status(503)
         ELSE [code |-> 0, be |-> cfg.mapper[e.backend], path |-> Rewrite(e, q.path)]

Outcome0(cfg, q) == Dispatch(cfg, RouteSpec(cfg, q), q)

(* C12 reference: C01 + the 403 rules as the cache-less server applies them.  Rules are visited *)
(* in order; every visited (= host-matching) rule's filter is consulted before its paths.       *)
RefRouteOf(cfg, q, rs) ==
    LET lastRule == IF rs.code = 0 THEN rs.pos[1] ELSE Len(cfg.rules)
    IN IF \/ Denied(cfg.ipf, q.ip)
          \/ \E i \in 1..lastRule : RuleMatches(cfg.rules[i], q) /\ Denied(cfg.rules[i].ipf, q.ip)
          \/ rs.code = 0 /\ Denied(EntryAt(cfg, rs.pos).ipf, q.ip)
       THEN [code |-> 403, pos |-> NoPos]
       ELSE rs
RefRoute(cfg, q) == RefRouteOf(cfg, q, RouteSpec(cfg, q))
RefOutcome(cfg, q) == Dispatch(cfg, RefRoute(cfg, q), q)

(* C05 at the level of the mux.  `o` is an observed outcome (code 0 = a backend saw it), `o0`   *)
(* what the same server without any IP filter (same cache size, same request history) answers.  *)
(* (i)  denied by the server filter, by the filter of the rule owning the route, or by the      *)
(*      route's own filter  =>  4xx, 403 when the route exists, and nothing dispatched;         *)
(* (ii) allowed by every filter configured anywhere on the server => routed exactly as if no    *)
(*      filter existed: o = o0, or o = what the routing rules say (C01) - the second disjunct    *)
(*      keeps a routing defect of the filter-less twin itself (a C12 matter) out of C05;         *)
(* (iii) denied by none of the filters of (i) but by the rule-level filter of a host-matching    *)
(*      rule standing ahead of the rule that owns the route (a rule the request matches, but     *)
(*      which has no entry for it): the text can be read either way ("the rule-level filter      *)
(*      applying to it" = of the owning rule only, or of every rule the request's host matches   *)
(*      on the way).  Whichever reading the server implements - the one its cache-less search    *)
(*      shows - must hold "with or without the route cache and whatever requests preceded it":   *)
(*      the request reaches a backend with the cache (after any history) iff it does without.    *)
(* (iv) otherwise (denied only by a filter that does not apply to the route): unconstrained.     *)
AllFilters(cfg) ==
    {cfg.ipf} \cup {cfg.rules[i].ipf : i \in DOMAIN cfg.rules} \cup {EntryAt(cfg, p).ipf : p \in Positions(cfg)}
Strip(cfg) ==
    [cfg EXCEPT !.ipf = NoFilter,
                !.rules = [i \in DOMAIN cfg.rules |->
                             [cfg.rules[i] EXCEPT !.ipf = NoFilter,
                                 !.paths = [j \in DOMAIN cfg.rules[i].paths |->
                                               [cfg.rules[i].paths[j] EXCEPT !.ipf = NoFilter]]]]]
DeniedApplyingOf(cfg, q, rs) ==                                                \* rs = RouteSpec(cfg, q)
    \/ Denied(cfg.ipf, q.ip)
    \/ rs.code = 0 /\ (Denied(cfg.rules[rs.pos[1]].ipf, q.ip) \/ Denied(EntryAt(cfg, rs.pos).ipf, q.ip))
DeniedApplying(cfg, q) == DeniedApplyingOf(cfg, q, RouteSpec(cfg, q))
AllowedEverywhere(cfg, q) == \A f \in AllFilters(cfg) : ~Denied(f, q.ip)
C05iOf(cfg, q, o, rs) ==
    DeniedApplyingOf(cfg, q, rs) => /\ o.code >= 400 /\ o.code <= 499
                                    /\ (rs.code = 0 => o.code = 403)
C05iiOf(cfg, q, o, o0, rs) == AllowedEverywhere(cfg, q) => (o = o0 \/ o = Dispatch(cfg, rs, q))
DeniedPassedOf(cfg, q, rs) ==                                                  \* rs = RouteSpec(cfg, q)
    LET before == IF rs.code = 0 THEN rs.pos[1] - 1 ELSE Len(cfg.rules)
    IN \E i \in 1..before : RuleMatches(cfg.rules[i], q) /\ Denied(cfg.rules[i].ipf, q.ip)
AmbiguousOf(cfg, q, rs) == ~DeniedApplyingOf(cfg, q, rs) /\ DeniedPassedOf(cfg, q, rs)
C05iiiOf(cfg, q, o, ou, rs) == AmbiguousOf(cfg, q, rs) => ((o.code = 0) <=> (ou.code = 0))
C05OKOf(cfg, q, o, o0, rs) == C05iOf(cfg, q, o, rs) /\ C05iiOf(cfg, q, o, o0, rs)
C05OK(cfg, q, o, o0) == C05OKOf(cfg, q, o, o0, RouteSpec(cfg, q))

(* ============================ implementation-shaped layer ================================== *)
(* a route as mux.go has it: [code, pos, chain]; chain = the filters the cache-hit branch will  *)
(* consult (MuxPath.ipFilterChain in the pinned tree)                                           *)
NoRoute == [code |-> -1, pos |-> NoPos, chain |-> <<>>]
Forbidden == [code |-> 403, pos |-> NoPos, chain |-> <<>>]

OnOnly(fs) == SelectSeq(fs, LAMBDA f : f.on)       \* newIPFilterChain skips nil specs
EntryChain(cfg, i, j) == OnOnly(<<cfg.ipf, cfg.rules[i].ipf, cfg.rules[i].paths[j].ipf>>)

Triple(q) == <<q.host, q.m, q.path>>
Key(q) == IF FixKey THEN Triple(q) ELSE q.host \o q.m \o q.path     \* stringtool.Cat

RECURSIVE ScanPaths(_, _, _, _, _, _, _), ScanRules(_, _, _, _, _, _)
(* the inner loop over host.paths from index j; hm/mm are the two flags; vis the filters        *)
(* consulted so far; result: done (returned from search) or fell through with updated flags     *)
ScanPaths(cfg, i, j, q, hm, mm, vis) ==
    IF j > Len(cfg.rules[i].paths)
    THEN [done |-> FALSE, hm |-> hm, mm |-> mm, res |-> NoRoute, put |-> NoRoute]
    ELSE LET e == cfg.rules[i].paths[j] IN
         IF ~PathMatches(e, q) THEN ScanPaths(cfg, i, j + 1, q, hm, mm, vis)            \* continue
         ELSE IF ~MethodOK(e, q) THEN ScanPaths(cfg, i, j + 1, q, hm, TRUE, vis)        \* methodMismatch
         ELSE IF e.headers # <<>> /\ ~HdrMatches(e, q)
              THEN ScanPaths(cfg, i, j + 1, q, TRUE, mm, vis)                           \* headerMismatch
         ELSE LET rt == [code |-> 0, pos |-> <<i, j>>,
                         chain |-> IF FixIP THEN OnOnly(Append(vis, e.ipf)) ELSE EntryChain(cfg, i, j)]
                  \* "The path can be put into the cache if it has no headers."
                  put == IF e.headers = <<>> /\ (FixHdr => ~hm) THEN rt ELSE NoRoute
              IN [done |-> TRUE, hm |-> hm, mm |-> mm, put |-> put,
                  res |-> IF AllowImpl(e.ipf, q.ip) THEN rt ELSE Forbidden]

(* the outer loop over mi.rules from index i *)
ScanRules(cfg, i, q, hm, mm, vis) ==
    IF i > Len(cfg.rules)
    THEN IF hm THEN [res |-> [code |-> 400, pos |-> NoPos, chain |-> <<>>], put |-> NoRoute]     \* never cached
         ELSE LET rt == [code |-> IF mm THEN 405 ELSE 404, pos |-> NoPos,
                         chain |-> IF FixIP THEN vis ELSE <<>>]
              IN [res |-> rt, put |-> rt]
    ELSE LET r == cfg.rules[i] IN
         IF ~RuleMatches(r, q) THEN ScanRules(cfg, i + 1, q, hm, mm, vis)
         ELSE IF ~AllowImpl(r.ipf, q.ip) THEN [res |-> Forbidden, put |-> NoRoute]
         ELSE LET vis2 == OnOnly(Append(vis, r.ipf))
                  s == ScanPaths(cfg, i, 1, q, hm, mm, vis2)
              IN IF s.done THEN [res |-> s.res, put |-> s.put]
                 ELSE ScanRules(cfg, i + 1, q, s.hm, s.mm, vis2)

SearchMiss(cfg, q) ==
    IF ~AllowImpl(cfg.ipf, q.ip) THEN [res |-> Forbidden, put |-> NoRoute]
    ELSE ScanRules(cfg, 1, q, FALSE, FALSE, OnOnly(<<cfg.ipf>>))

(* search(): `cache` is a function from keys to [rt, by]; by = triple of the storing request    *)
Search(cfg, cache, q) ==
    IF Key(q) \in DOMAIN cache
    THEN LET rt == cache[Key(q)].rt IN
         [res |-> IF ChainAllowImpl(rt.chain, q.ip) THEN rt ELSE Forbidden, put |-> NoRoute, hit |-> TRUE]
    ELSE LET s == SearchMiss(cfg, q) IN [res |-> s.res, put |-> s.put, hit |-> FALSE]

ImplOutcome(cfg, cache, q) == Dispatch(cfg, Search(cfg, cache, q).res, q)

(* ================================= state machine =========================================== *)
VARIABLES cfg,     \* the configuration of this behaviour (one generation of the server)
          cache,   \* key -> [rt, by]
          cache0,  \* the cache of the filter-less twin server (only used when Twin)
          n,       \* requests served
          last     \* observation of the step just taken (not part of the VIEW)

vars == <<cfg, cache, cache0, n, last>>
view == <<cfg, cache, cache0, n>>

EmptyCache == [k \in {} |-> NoRoute]

Init == /\ CfgInit(cfg)
        /\ cache = EmptyCache /\ cache0 = EmptyCache
        /\ n = 0
        /\ last = [a |-> "cfg"]

(* why a cached answer differs from the reference (diagnosis only) *)
Why(q, s, rs) ==
    IF ~s.hit THEN "miss"
    ELSE LET c == cache[Key(q)] IN
         IF c.by # Triple(q) THEN "key-collision"
         ELSE IF c.rt.code # 0 THEN "cached-negative"
         ELSE IF rs.pos # c.rt.pos THEN "header-shadowed"
         ELSE "skipped-rule-filter"

Stored(c, q, put) ==
    IF CacheOn /\ put # NoRoute
    THEN [k \in DOMAIN c \cup {Key(q)} |-> IF k = Key(q) THEN [rt |-> put, by |-> Triple(q)] ELSE c[k]]
    ELSE c

Request(q) ==
    /\ n < MaxReqs
    /\ n' = n + 1
    /\ UNCHANGED cfg
    /\ LET s == Search(cfg, IF CacheOn THEN cache ELSE EmptyCache, q)
           impl == Dispatch(cfg, s.res, q)
           rs == RouteSpec(cfg, q)
           exp == Dispatch(cfg, RefRouteOf(cfg, q, rs), q)
           cfg0 == Strip(cfg)
           s0 == Search(cfg0, IF CacheOn THEN cache0 ELSE EmptyCache, q)
           \* the filter-less twin's answer; without Twin: what C01 says (the two agree when the
           \* cache is off, see Transparent)
           impl0 == IF Twin THEN Dispatch(cfg0, s0.res, q) ELSE Dispatch(cfg, rs, q)
           den == DeniedApplyingOf(cfg, q, rs)
           all == AllowedEverywhere(cfg, q)
           amb == AmbiguousOf(cfg, q, rs)
           \* the same server without cache (and hence without history)
           implU == IF CacheOn THEN Dispatch(cfg, SearchMiss(cfg, q).res, q) ELSE impl
       IN /\ cache' = Stored(cache, q, s.put)
          /\ cache0' = IF Twin THEN Stored(cache0, q, s0.put) ELSE cache0
          /\ last' = [a |-> "req", q |-> q, exp |-> exp, impl |-> impl, impl0 |-> impl0,
                      own |-> rs, c01 |-> Dispatch(cfg, rs, q), den |-> den, all |-> all, amb |-> amb,
                      c05i |-> C05iOf(cfg, q, impl, rs), c05ii |-> C05iiOf(cfg, q, impl, impl0, rs),
                      c05iii |-> C05iiiOf(cfg, q, impl, implU, rs),
                      why |-> IF impl = exp THEN "" ELSE Why(q, s, rs)]

(* the ARC cache may drop any entry at any time (of either server) *)
Evict == /\ \/ /\ cache # EmptyCache
               /\ \E k \in DOMAIN cache : cache' = [x \in DOMAIN cache \ {k} |-> cache[x]]
               /\ UNCHANGED cache0
            \/ /\ cache0 # EmptyCache
               /\ \E k \in DOMAIN cache0 : cache0' = [x \in DOMAIN cache0 \ {k} |-> cache0[x]]
               /\ UNCHANGED cache
         /\ last' = [a |-> "evict"]
         /\ UNCHANGED <<cfg, n>>

Purge == /\ cache # EmptyCache \/ cache0 # EmptyCache
         /\ cache' = EmptyCache /\ cache0' = EmptyCache
         /\ last' = [a |-> "purge"]
         /\ UNCHANGED <<cfg, n>>

(* The environment: the table behind the MuxMapper changes while the server runs, without a reload *)
(* of the server - a backend (pipeline) is deleted (Unmap), created or created again (Map: a name   *)
(* some entry may have been pointing to all along), or replaced by a new instance under the same   *)
(* name (Remap: update of the pipeline).  cfg.mapper is the table at the time of a request: "a     *)
(* matched backend name that does not exist yields 503" (C01) and "chosen backend ... equals what   *)
(* the same server with the cache disabled produces for that request" (C12) speak of that moment,  *)
(* so a request routed to name b is served by the instance registered under b NOW, or gets 503 if  *)
(* there is none NOW, whatever earlier requests for the same URL got.  lbl: a label no instance of  *)
(* this behaviour has had yet.  (Not part of Next: the mapper is looked up at dispatch in both     *)
(* layers, Dispatch(cfg, ...), so the steps add nothing to the refinement checks; the behaviour     *)
(* generator uses them.)  last.q keeps the request served last.                                     *)
Unmap(b) == /\ b \in DOMAIN cfg.mapper
            /\ cfg' = [cfg EXCEPT !.mapper = [x \in DOMAIN @ \ {b} |-> @[x]]]
            /\ last' = [a |-> "unmap", be |-> b, q |-> last.q]
            /\ UNCHANGED <<cache, cache0, n>>
Map(b, lbl) == /\ b \notin DOMAIN cfg.mapper
               /\ cfg' = [cfg EXCEPT !.mapper = [x \in DOMAIN @ \cup {b} |-> IF x = b THEN lbl ELSE @[x]]]
               /\ last' = [a |-> "map", be |-> b, inst |-> lbl, q |-> last.q]
               /\ UNCHANGED <<cache, cache0, n>>
Remap(b, lbl) == /\ b \in DOMAIN cfg.mapper /\ cfg.mapper[b] # lbl
                 /\ cfg' = [cfg EXCEPT !.mapper[b] = lbl]
                 /\ last' = [a |-> "remap", be |-> b, inst |-> lbl, q |-> last.q]
                 /\ UNCHANGED <<cache, cache0, n>>

Next == (\E q \in Reqs : Request(q)) \/ Evict
Spec == Init /\ [][Next]_vars

(* ================================== properties ============================================= *)
(* Stated as action properties over the observation `last` of the step just taken, so that they *)
(* are evaluated on every transition although `last` is not part of the VIEW.                   *)
IsReq == last'.a = "req"
(* C01 / C12: the implementation-shaped search (with or without cache, after any history and    *)
(* any evictions) answers what the reference says *)
Transparent == [][IsReq => last'.impl = last'.exp]_vars
(* C05 (i)-(iii); run with Twin = TRUE when the cache is on *)
IPFilterRespected == [][IsReq => (last'.c05i /\ last'.c05ii /\ last'.c05iii)]_vars
DeniedNeverDispatched == [][IsReq => last'.c05i]_vars
AllowedUnaffected == [][IsReq => last'.c05ii]_vars
PassedFilterHistoryFree == [][IsReq => last'.c05iii]_vars
(* the reference is C01's outcome whenever the client is allowed by every filter (in particular *)
(* when there is no filter) *)
RefIsC01 == [][(IsReq /\ AllowedEverywhere(cfg, last'.q)) => last'.exp = Dispatch(cfg, last'.own, last'.q)]_vars
(* restricted forms of Transparent used to obtain one counterexample per defect class *)
NoCollision == [][IsReq => last'.why # "key-collision"]_vars
NoCachedNegative == [][IsReq => last'.why # "cached-negative"]_vars
NoHeaderShadowed == [][IsReq => last'.why # "header-shadowed"]_vars
NoSkippedRuleFilter == [][IsReq => last'.why # "skipped-rule-filter"]_vars
NoMiss == [][IsReq => last'.why # "miss"]_vars
=============================================================================

--------------------------- MODULE HttpRouter_Gen ---------------------------
(* Behaviour generator for HttpRouter (C01, C05, C12), made for `tlc -simulate`.               *)
(*                                                                                              *)
(* The simulator enumerates all initial states before its random walks and all successors of   *)
(* every state it visits, so the universe cannot sit in Init and expensive steps must have     *)
(* few successors.  Hence: the initial state picks a plan (entries per rule) and the server     *)
(* filter; NewRule / AddEntry steps fill the plan one cheap choice at a time; Start publishes   *)
(* the configuration; then each request is three steps - Mode chooses between any request, one *)
(* "near" the previous request (same host+method+path concatenation: other headers, other       *)
(* client, or a colliding host/method split; or only the host differs - the histories the cache  *)
(* is sensitive to; or only the method differs) and one for the URL the previous request was     *)
(* rewritten to ("rw": same host and method, the path its backend saw), Pick(q)                  *)
(* rewritten to ("rw": same host and method, the path its backend saw), one whose header values     *)
(* collide with those of the previous request ("hdr"), one for which a result was stored before the *)
(* previous request ("back"); Pick(q)                                                               *)
(* only remembers the choice (cheap successors), Do performs HttpRouter!Request(q) (one         *)
(* successor).                                                                                   *)
(*                                                                                              *)
(* `out` is the JSON description of the step just taken: "" for the choice steps,              *)
(* {"a":"cfg","cfg":...} for Start, {"a":"req","q":...,"exp":...,"impl":...,"own":...,"why":...} *)
(* for Do - `exp` the contract's prediction, `impl` the implementation-shaped layer's for the   *)
(* configured variant - {"a":"purge"} (cache emptied: the replayable case of Evict) and          *)
(* {"a":"unmap","be":b} (backend b deleted from the table behind the mapper), {"a":"map","be":b,  *)
(* "inst":l} (backend b created, or created again, as instance l) and {"a":"remap","be":b,        *)
(* "inst":l} (backend b replaced by instance l: an updated pipeline).  After such a step the mode  *)
(* "again" repeats the request served last: the same URL, the mapper's table having changed.       *)
EXTENDS HttpRouter_MC, Json

CONSTANTS GenTemplates, GenShells, GenServerFilters, GenPlans,
          GenUnmaps     \* how many times in a behaviour the table behind the mapper may change
                        \* (HttpRouter!Unmap, Map, Remap)

VARIABLES out, plan, started, pend, mode, purges, unmaps

gvars == <<vars, out, plan, started, pend, mode, purges, unmaps>>

(* purges per behaviour: the simulator takes every enabled step with the same probability, so  *)
(* an unbounded purge would empty the cache after every other request and hits would be rare    *)
MaxPurges == 1

GInit == /\ plan \in GenPlans
         /\ \E sf \in GenServerFilters : cfg = MkCfg(sf, <<>>, <<>>)
         /\ cache = EmptyCache /\ cache0 = EmptyCache /\ n = 0 /\ last = [a |-> "cfg"]
         /\ started = FALSE /\ pend = <<>> /\ mode = "" /\ purges = 0 /\ unmaps = 0
         /\ out = ""

NR == Len(cfg.rules)
RuleFull == IF NR = 0 THEN TRUE ELSE Len(cfg.rules[NR].paths) = plan[NR]
Built == NR = Len(plan) /\ RuleFull

NewRule == /\ ~started /\ RuleFull /\ NR < Len(plan)
           /\ \E s \in GenShells : cfg' = [cfg EXCEPT !.rules = Append(@, MkRule(NR + 1, s, <<>>))]
           /\ UNCHANGED <<cache, cache0, n, last, plan, started, pend, mode, purges, unmaps>>
           /\ out' = ""

AddEntry == /\ ~started /\ ~RuleFull
            /\ \E t \in GenTemplates :
                 LET j == Len(cfg.rules[NR].paths) + 1
                     e == [t EXCEPT !.backend = IF t.backend = "MISSING" THEN XName[NR][j] ELSE BName[NR][j]]
                 IN cfg' = [cfg EXCEPT !.rules[NR].paths = Append(@, e)]
            /\ UNCHANGED <<cache, cache0, n, last, plan, started, pend, mode, purges, unmaps>>
            /\ out' = ""

Start == /\ ~started /\ Built
         /\ started' = TRUE
         /\ out' = ToJson([a |-> "cfg", cfg |-> cfg])
         /\ UNCHANGED <<vars, plan, pend, mode, purges, unmaps>>

Cat(q) == q.host \o q.m \o q.path
(* the values of the two headers folded into one string around a separator, in either order: two  *)
(* requests for one URL whose values differ only in where the separator sits ("1," + "" and "1" +  *)
(* ",") are as close as two different requests can be for anything that looks at header values      *)
HdrSeps == {<<>>, <<",">>, <<";">>}
HJoin(q, s) == <<q.hdr["X-A"] \o s \o q.hdr["X-B"], q.hdr["X-B"] \o s \o q.hdr["X-A"]>>
HdrCollide(q, p) == q.hdr # p.hdr /\ \E s \in HdrSeps : HJoin(q, s) = HJoin(p, s)
(* same URL, same client, colliding header values *)
HdrNearSet(p) == {q \in Reqs : q.host = p.host /\ q.m = p.m /\ q.path = p.path /\ q.ip = p.ip /\ HdrCollide(q, p)}
NearSet(p) == {q \in Reqs : q # p /\ \/ Cat(q) = Cat(p)
                                     \/ q.m = p.m /\ q.path = p.path /\ q.hdr = p.hdr /\ q.ip = p.ip
                                     \/ q.host = p.host /\ q.path = p.path /\ q.hdr = p.hdr /\ q.ip = p.ip}
(* p = last.q: requests for the URL that the backend of the previous request saw (same host and     *)
(* method, the path as rewritten for p)                                                              *)
RwSet(p) == {q \in Reqs : /\ last.a = "req" /\ last.exp.code = 0 /\ last.exp.path # p.path
                          /\ q.host = p.host /\ q.m = p.m /\ q.path = last.exp.path}

(* requests for which the server may hold a stored result that is not the one stored or used last:  *)
(* a result is asked for again after other results have been stored (by other clients, for other     *)
(* hosts); whatever is kept with one stored result must not have changed in the meantime             *)
BackSet == {q \in Reqs : Key(q) \in DOMAIN cache /\ Triple(q) # Triple(last.q)}

Mode == /\ started /\ pend = <<>> /\ mode = "" /\ n < MaxReqs
        /\ \/ mode' = "any"
           \/ last.a = "req" /\ NearSet(last.q) # {} /\ mode' = "near"
           \/ last.a = "req" /\ RwSet(last.q) # {} /\ mode' = "rw"
           \/ last.a = "req" /\ HdrNearSet(last.q) # {} /\ mode' = "hdr"
           \/ last.a = "req" /\ CacheOn /\ BackSet # {} /\ mode' = "back"
           \/ last.a \in {"unmap", "map", "remap"} /\ mode' = "again"
        /\ out' = ""
        /\ UNCHANGED <<vars, plan, started, pend, purges, unmaps>>

Pick == /\ started /\ pend = <<>> /\ mode # ""
        /\ \E q \in (CASE mode = "near" -> NearSet(last.q) [] mode = "rw" -> RwSet(last.q) [] mode = "hdr" -> HdrNearSet(last.q) [] mode = "back" -> BackSet [] mode = "again" -> {last.q} [] OTHER -> Reqs) : pend' = <<q>>
        /\ out' = ""
        /\ UNCHANGED <<vars, plan, started, mode, purges, unmaps>>

Do == /\ started /\ pend # <<>>
      /\ Request(pend[1])
      /\ pend' = <<>> /\ mode' = ""
      /\ out' = ToJson(last')
      /\ UNCHANGED <<plan, started, purges, unmaps>>

GPurge == /\ started /\ pend = <<>> /\ mode = "" /\ purges < MaxPurges /\ n >= 2 /\ Purge
          /\ purges' = purges + 1
          /\ out' = ToJson(last')
          /\ UNCHANGED <<plan, started, pend, mode, unmaps>>

(* The table behind the mapper changes: the backend that has just served a request is deleted or   *)
(* replaced by a new instance (an updated pipeline); the backend whose absence has just cost a      *)
(* request its 503 is created (again).  The next request is that request again ("again") or any     *)
(* other.  Labels of new instances: the name followed by the number of the change.                  *)
Marks == <<"#1", "#2", "#3", "#4", "#5", "#6">>
Fresh(b) == b \o Marks[unmaps + 1]
GMapPre == started /\ pend = <<>> /\ mode = "" /\ unmaps < GenUnmaps /\ unmaps < Len(Marks) /\ n >= 1 /\ last.a = "req"
LastBackend == EntryAt(cfg, last.own.pos).backend
GUnmap == /\ GMapPre
          /\ last.exp.code = 0
          /\ Unmap(LastBackend)
          /\ unmaps' = unmaps + 1
          /\ out' = ToJson([a |-> "unmap", be |-> last'.be])
          /\ UNCHANGED <<plan, started, pend, mode, purges>>
GRemap == /\ GMapPre
          /\ last.exp.code = 0
          /\ Remap(LastBackend, Fresh(LastBackend))
          /\ unmaps' = unmaps + 1
          /\ out' = ToJson([a |-> "remap", be |-> last'.be, inst |-> last'.inst])
          /\ UNCHANGED <<plan, started, pend, mode, purges>>
GMap == /\ GMapPre
        /\ last.exp.code = 503 /\ last.own.code = 0
        /\ Map(LastBackend, Fresh(LastBackend))
        /\ unmaps' = unmaps + 1
        /\ out' = ToJson([a |-> "map", be |-> last'.be, inst |-> last'.inst])
        /\ UNCHANGED <<plan, started, pend, mode, purges>>

GNext == NewRule \/ AddEntry \/ Start \/ Mode \/ Pick \/ Do \/ GPurge \/ GUnmap \/ GRemap \/ GMap
GSpec == GInit /\ [][GNext]_gvars

(* plans: entries per rule *)
PlansBig == {<<2>>, <<3>>, <<1, 2>>, <<2, 1>>, <<2, 2>>, <<3, 1>>, <<1, 1, 1>>, <<2, 0, 1>>, <<1>>, <<0, 2>>}
PlansHdrFocus == {<<2>>, <<1, 1>>, <<3>>}
PlansFilterFocus == {<<2>>, <<3>>, <<2, 1>>, <<1, 2>>}
PlansRuleFocus == {<<0, 1>>, <<1, 1>>, <<0, 2>>}
PlansMethFocus == {<<2>>, <<3>>, <<1, 1>>, <<0, 2>>}
PlansRwFocus == {<<1>>, <<2>>, <<3>>, <<1, 1>>, <<2, 1>>}
PlansShareFocus == {<<0, 1>>, <<0, 2>>, <<1, 1>>}
PlansTenantFocus == {<<1, 1>>, <<1, 2>>, <<2, 1>>, <<1, 1, 1>>}
PlansHdrKeyFocus == {<<2>>, <<3>>, <<1, 1>>, <<2, 1>>}
PlansMapFocus == {<<1>>, <<2>>, <<1, 1>>, <<0, 2>>}
PlansC12 == {<<1>>, <<2>>, <<1, 1>>, <<2, 1>>, <<1, 2>>, <<0, 1>>, <<0, 2>>, <<3>>}
=============================================================================

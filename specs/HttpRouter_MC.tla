--------------------------- MODULE HttpRouter_MC ---------------------------
(* Universes for model checking and behaviour generation of HttpRouter (C01, C05, C12).        *)
(* A configuration is assembled from a server filter and one or two rule shells, each with a    *)
(* short sequence of entry templates; the backend of the entry at position <<i,j>> is "b<i><j>"  *)
(* (unique, so the backend name identifies the entry) or "x<i><j>" (a name the mapper does not   *)
(* know: 503).                                                                                   *)
EXTENDS HttpRouter

(* ---- strings *)
pRoot == <<"/">>
pA    == <<"/", "a">>
pAB   == <<"/", "a", "/", "b">>
pAb   == <<"/", "a", "b">>
pB    == <<"/", "b">>
pX    == <<"/", "x">>
pC    == <<"/", "c">>
pY    == <<"/", "y">>
pASl  == <<"/", "a", "/">>
pXG1  == <<"/", "x", "/", "$", "1">>
GET   == <<"G", "E", "T">>
POST  == <<"P", "O", "S", "T">>
ET    == <<"E", "T">>
PURGE == <<"P", "U", "R", "G", "E">>          \* a method no configuration can list
getLc == <<"g", "e", "t">>                    \* method tokens are case-sensitive
pAPct == <<"/", "a", "/", "%", "6", "2">>     \* a decoded path that still holds an escape sequence (sent as /a/%2562)
pXPct == <<"/", "x", "%", "2", "5">>          \* a rewrite target holding one
hH    == <<"h">>
hH80  == <<"h", ":", "8", "0">>
hG    == <<"g">>
hHG   == <<"h", "G">>
v1    == <<"1">>
v2    == <<"2">>

R(anchS, lit, tail, anchE) == [on |-> TRUE, anchS |-> anchS, lit |-> lit, tail |-> tail, anchE |-> anchE]
H(key, values, re) == [key |-> key, values |-> values, re |-> re]
E(path, prefix, re, methods, headers, matchAll, rewrite) ==
    [path |-> path, prefix |-> prefix, re |-> re, methods |-> methods, headers |-> headers,
     matchAll |-> matchAll, rewrite |-> rewrite, backend |-> "", ipf |-> NoFilter]
None == <<>>

BName == << <<"b11", "b12", "b13">>, <<"b21", "b22", "b23">>, <<"b31", "b32", "b33">> >>
XName == << <<"x11", "x12", "x13">>, <<"x21", "x22", "x23">>, <<"x31", "x32", "x33">> >>
Mapper == {BName[i][j] : i \in 1..3, j \in 1..3}

(* a rule from a shell [host, hostRE, ipf] and a sequence of templates *)
MkRule(i, shell, ts) ==
    [host |-> shell.host, hostRE |-> shell.hostRE, ipf |-> shell.ipf,
     paths |-> [j \in 1..Len(ts) |->
                   [ts[j] EXCEPT !.backend = IF ts[j].backend = "MISSING" THEN XName[i][j] ELSE BName[i][j]]]]
MkCfg(sipf, shells, tss) ==
    [ipf |-> sipf, mapper |-> [b \in Mapper |-> b], rules |-> [i \in 1..Len(shells) |-> MkRule(i, shells[i], tss[i])]]

Seqs(S, len) == UNION {[1..k -> S] : k \in 0..len}          \* sequences over S of length <= n

(* ------------------------------- C01 universe ------------------------------------------- *)
hdrA1   == H("X-A", <<v1>>, NoRE)
hdrB1   == H("X-B", <<v1>>, NoRE)
tExactA    == E(pA, None, NoRE, None, None, FALSE, None)                                  \* exact /a
tPrefixA   == E(None, pA, NoRE, None, None, FALSE, None)                                  \* prefix /a
tPrefixRt  == E(None, pRoot, NoRE, None, None, FALSE, None)                               \* prefix /
tReTail    == E(None, None, R(TRUE, pASl, TRUE, TRUE), None, None, FALSE, None)           \* ^/a/ G $  (G: group around dot-star)
tReFree    == E(None, None, R(FALSE, pA, FALSE, FALSE), None, None, FALSE, None)          \* /a (unanchored)
tExactGet  == E(pA, None, NoRE, <<GET>>, None, FALSE, None)                               \* exact /a, GET
tPrefixPost == E(None, pA, NoRE, <<POST>>, None, FALSE, None)                             \* prefix /a, POST
tHdrA      == E(pA, None, NoRE, None, <<hdrA1>>, FALSE, None)                             \* exact /a if X-A=1
tHdrAny    == E(None, pA, NoRE, None, <<hdrA1, hdrB1>>, FALSE, None)                      \* any of two headers
tHdrAll    == E(None, pA, NoRE, None, <<hdrA1, hdrB1>>, TRUE, None)                       \* all of two headers
tRwExact   == E(pA, None, NoRE, None, None, FALSE, pX)                                    \* exact, rewrite
tRwPrefix  == E(None, pA, NoRE, None, None, FALSE, pX)                                    \* prefix, rewrite
tRwRe      == E(None, None, R(TRUE, pASl, TRUE, TRUE), None, None, FALSE, pXG1)           \* ^/a/ G $ -> /x/$1
tThree     == E(pAB, pA, R(FALSE, pB, FALSE, TRUE), None, None, FALSE, pY)                \* three kinds at once
tHdrRe     == E(pA, None, NoRE, None, <<H("X-A", None, R(TRUE, v1, FALSE, FALSE))>>, FALSE, None)   \* X-A ~ ^1
tAny       == E(None, None, NoRE, None, None, FALSE, None)                                \* no path condition
tMissing   == [E(pA, None, NoRE, None, None, FALSE, None) EXCEPT !.backend = "MISSING"]   \* unknown backend
tRwAll     == E(None, None, R(FALSE, pA, FALSE, FALSE), None, None, FALSE, pC)            \* /a -> /c everywhere
tHdrValRe  == E(pA, None, NoRE, <<GET>>, <<H("X-A", <<v1, v2>>, R(TRUE, v2, FALSE, FALSE))>>, TRUE, None)  \* value and regexp
tHdrValOrRe == E(None, pA, NoRE, None, <<H("X-A", <<v1>>, R(TRUE, v2, FALSE, FALSE))>>, FALSE, None)       \* value or regexp
tRwPct     == E(pA, None, NoRE, None, None, FALSE, pXPct)                                 \* exact, rewrite to /x%25
(* header conditions that the empty string satisfies.  A header the request does not carry has    *)
(* the value "" (HdrVal), like one it carries without a value: "X-A must be absent or empty"        *)
(* (^$), "X-A is optional, but if present it is 1" (values "", "1"), "any X-B" (dot-star) are        *)
(* conditions a request without the header meets.  (An empty literal is fine in a header regexp:    *)
(* REOK is about ReplaceAll; the one member the harness cannot write down, on with nothing in it,   *)
(* is not used.)                                                                                    *)
reEmpty    == R(TRUE, None, FALSE, TRUE)                                                  \* ^$
reAnyVal   == R(TRUE, None, TRUE, TRUE)                                                   \* ^ G $
tHdrNoA    == E(pA, None, NoRE, None, <<H("X-A", None, reEmpty)>>, FALSE, None)                    \* /a unless X-A has a value
tHdrOptA   == E(None, pA, NoRE, None, <<H("X-A", <<None, v1>>, NoRE)>>, TRUE, None)                \* X-A empty or 1 (all)
tHdrNoAorB == E(pA, None, NoRE, None, <<H("X-A", <<None>>, NoRE), hdrB1>>, FALSE, None)            \* X-A empty, or X-B=1
tHdrAllOpt == E(None, pA, NoRE, None, <<hdrA1, H("X-B", None, reAnyVal)>>, TRUE, None)             \* X-A=1 and any X-B
tHdrNoAB   == E(pA, None, NoRE, None, <<H("X-A", <<None>>, NoRE), H("X-B", None, reEmpty)>>, TRUE, None)  \* neither header
C01Templates == {tExactA, tPrefixA, tPrefixRt, tReTail, tReFree, tExactGet, tPrefixPost, tHdrA, tHdrAny, tHdrAll,
                 tRwExact, tRwPrefix, tRwRe, tThree, tHdrRe, tAny, tMissing, tRwAll, tHdrValRe, tHdrValOrRe, tRwPct,
                 tHdrNoA, tHdrOptA, tHdrNoAorB, tHdrAllOpt, tHdrNoAB}
C01Core == {tExactA, tPrefixRt, tExactGet, tPrefixPost, tHdrA, tHdrAll, tRwRe, tMissing, tHdrNoA}
Shell(h, re) == [host |-> h, hostRE |-> re, ipf |-> NoFilter]
C01ServerFilters == {NoFilter}
C01Shells =={Shell(None, NoRE), Shell(hH, NoRE), Shell(None, R(TRUE, hH, FALSE, FALSE))}
C01ShellPairs == {<<Shell(None, NoRE), Shell(None, NoRE)>>, <<Shell(hH, NoRE), Shell(None, NoRE)>>,
                  <<Shell(None, R(TRUE, hH, FALSE, FALSE)), Shell(hH, NoRE)>>,
                  <<Shell(hG, NoRE), Shell(None, R(FALSE, hH, FALSE, TRUE))>>}

(* all configurations with one or two rules, at most two entries per rule and at most `tot` in all. *)
(* Written as predicates with the assignment inside the quantifiers, so that TLC enumerates the      *)
(* initial states without first materialising (and sorting) a set of large records.                  *)
Shapes1(tot) == {k \in 0..2 : k <= tot}
Shapes2(tot) == {sh \in (0..2) \X (0..2) : sh[1] + sh[2] <= tot}
C01InitOver(c, T, tot) ==
    \/ \E s \in C01Shells, k \in Shapes1(tot) : \E ts \in [1..k -> T] : c = MkCfg(NoFilter, <<s>>, <<ts>>)
    \/ \E sp \in C01ShellPairs, sh \in Shapes2(tot) : \E t1 \in [1..sh[1] -> T], t2 \in [1..sh[2] -> T] :
           c = MkCfg(NoFilter, sp, <<t1, t2>>)
C01InitQuick(c) == C01InitOver(c, C01Core, 2)          \* ~1.3 k configurations
C01InitWide(c) == C01InitOver(c, C01Templates, 2)      \* ~10 k configurations
C01InitDeep(c) == C01InitOver(c, C01Core, 3)           \* ~7 k configurations, three entries

ip1 == [fam |-> 4, bits |-> <<0, 0>>]
ip9 == [fam |-> 4, bits |-> <<1, 0>>]
Hdr2(a, b) == [k \in {"X-A", "X-B"} |-> IF k = "X-A" THEN a ELSE b]
C01ReqsStd == {[host |-> h, m |-> m, path |-> p, hdr |-> Hdr2(a, b), ip |-> ip1] :
                  h \in {hH, hH80, hG}, m \in {GET, POST}, p \in {pA, pAB, pAb, pB},
                  a \in {None, v1, v2}, b \in {None, v1}}
(* requests outside what a configuration can name: method tokens that no method list can hold   *)
(* (an entry with a list must not match them, one without must), and decoded paths in which an  *)
(* escape sequence is left (matching and rewriting must not decode again)                        *)
C01ReqsOdd == {[host |-> h, m |-> m, path |-> p, hdr |-> Hdr2(a, None), ip |-> ip1] :
                  h \in {hH, hG}, m \in {PURGE, getLc}, p \in {pA, pAB, pAb}, a \in {None, v1}}
              \cup {[host |-> h, m |-> m, path |-> pAPct, hdr |-> Hdr2(a, None), ip |-> ip1] :
                  h \in {hH, hG}, m \in {GET, POST, PURGE}, a \in {None, v1}}
C01Reqs == C01ReqsStd \cup C01ReqsOdd

(* ------------------------------- C12 / C05 universe -------------------------------------- *)
Block9 == [on |-> TRUE, allow |-> <<>>, block |-> <<[fam |-> 4, bits |-> <<1>>]>>, dflt |-> FALSE]
Allow1 == [on |-> TRUE, allow |-> <<[fam |-> 4, bits |-> <<0>>]>>, block |-> <<>>, dflt |-> TRUE]
F(e, f) == [e EXCEPT !.ipf = f]
uHdrA      == E(pA, None, NoRE, None, <<hdrA1>>, FALSE, None)               \* /a if X-A=1
uPlainA    == E(pA, None, NoRE, None, None, FALSE, None)                    \* /a
uPrefixGet == E(None, pRoot, NoRE, <<GET>>, None, FALSE, None)              \* prefix /, GET only
uBBlock9   == F(E(pB, None, NoRE, None, None, FALSE, None), Block9)         \* /b, path filter
uAAllow1   == F(E(pA, None, NoRE, None, None, FALSE, None), Allow1)         \* /a, path filter (allow list)
uHdrABlock9 == F(E(pA, None, NoRE, None, <<hdrA1>>, FALSE, None), Block9)   \* /a if X-A=1, path filter
C12Templates == {uHdrA, uPlainA, uPrefixGet, uBBlock9, uAAllow1, uHdrABlock9}
(* focused universes for behaviour generation: header-conditioned entry ahead of a plain one;  *)
(* a filtered rule ahead of the rule that owns the route                                        *)
C12HdrFocus == {uHdrA, uPlainA, uHdrABlock9, uAAllow1}
C12RuleFocus == {uPlainA, uPrefixGet, uBBlock9}
C12FocusShells == {[host |-> None, hostRE |-> NoRE, ipf |-> NoFilter], [host |-> None, hostRE |-> NoRE, ipf |-> Block9],
                   [host |-> hH, hostRE |-> NoRE, ipf |-> NoFilter]}
C12NoServerFilter == {NoFilter}
FShell(h, f) == [host |-> h, hostRE |-> NoRE, ipf |-> f]
C12ServerFilters == {NoFilter, Block9}
C12Shells == {FShell(h, f) : h \in {None, hH, hHG}, f \in {NoFilter, Block9}}
C12Init1(c, k1) ==
    \E sf \in {NoFilter, Block9}, s \in C12Shells, k \in 0..k1 : \E ts \in [1..k -> C12Templates] :
       c = MkCfg(sf, <<s>>, <<ts>>)
C12Init2(c, k1, k2, hosts2) ==
    \E sf \in {NoFilter, Block9}, s1 \in C12Shells, s2 \in {x \in C12Shells : x.host \in hosts2}, n1 \in 0..k1, n2 \in 0..k2 :
       \E t1 \in [1..n1 -> C12Templates], t2 \in [1..n2 -> C12Templates] :
          c = MkCfg(sf, <<s1, s2>>, <<t1, t2>>)
C12InitOver(c, k1, k2, hosts2) == C12Init1(c, k1) \/ C12Init2(c, k1, k2, hosts2)
C05InitQuick(c) == C12Init1(c, 2)          \* one rule, at most two entries: ~500 configurations
C12InitFull(c) == C12InitOver(c, 2, 1, {None, hH, hHG})
(* a smaller slice for the quick tier *)
C12InitQuick(c) == C12InitOver(c, 1, 1, {None, hH})
C12Reqs == {[host |-> h, m |-> m, path |-> p, hdr |-> Hdr2(a, None), ip |-> ip] :
               h \in {hH, hHG}, m \in {GET, ET}, p \in {pA, pB}, a \in {None, v1}, ip \in {ip1, ip9}}
C12ReqsA == {q \in C12Reqs : q.path = pA}
(* the larger universe used for behaviour generation: a third client address on which the      *)
(* filters disagree (sibling entries / rules with different filters), a host that differs from   *)
(* a configured one only in letter case                                                          *)
ip5 == [fam |-> 4, bits |-> <<0, 1>>]
Block5 == [on |-> TRUE, allow |-> <<>>, block |-> <<[fam |-> 4, bits |-> <<0, 1>>]>>, dflt |-> FALSE]
uABlock5 == F(E(pA, None, NoRE, None, None, FALSE, None), Block5)            \* /a, another path filter
uBAllow1 == F(E(pB, None, NoRE, None, None, FALSE, None), Allow1)            \* /b, allow list
uPrefixBlock5 == F(E(None, pRoot, NoRE, None, None, FALSE, None), Block5)    \* prefix /, path filter
C12SimTemplates == C12Templates \cup {uABlock5, uBAllow1, uPrefixBlock5}
C12SimShells == {FShell(h, f) : h \in {None, hH, hHG}, f \in {NoFilter, Block9, Block5}}
C12SimServerFilters == {NoFilter, Block9, Block5}
hUp == <<"H">>
C12SimReqs == {[host |-> h, m |-> m, path |-> p, hdr |-> Hdr2(a, None), ip |-> ip] :
                  h \in {hH, hHG, hUp}, m \in {GET, ET}, p \in {pA, pB}, a \in {None, v1}, ip \in {ip1, ip5, ip9}}
C12SimReqsA == {q \in C12SimReqs : q.path = pA}
C12FilterFocus == {uPlainA, uABlock5, uAAllow1, uBBlock9, uBAllow1, uPrefixBlock5}
(* method focus: entries restricted to a method ahead of (or behind) entries for every method   *)
(* and a header-conditioned entry on the same URL (with rewrites, so that the owning entry       *)
(* shows in the path too), and requests that differ in the method or the header only: 405 / 400  *)
(* / routed outcomes for one host+path under different methods and headers                       *)
uExactAGet    == E(pA, None, NoRE, <<GET>>, None, FALSE, None)               \* /a, GET only
uPrefixPostRw == E(None, pA, NoRE, <<POST>>, None, FALSE, pX)                \* prefix /a, POST only, rewritten to /x...
uAnyRw        == E(None, pRoot, NoRE, None, None, FALSE, pY)                 \* prefix /, every method, rewritten to /y...
C12MethFocus == {uExactAGet, uPrefixGet, uPrefixPostRw, uPlainA, uAnyRw, uHdrA}
C12MethReqs == {[host |-> h, m |-> m, path |-> pA, hdr |-> Hdr2(a, None), ip |-> ip] :
                   h \in {hH, hHG}, m \in {GET, POST, ET}, a \in {None, v1}, ip \in {ip1, ip9}}
(* rewrite focus: entries with a rewriteTarget (exact, prefix, regexp with group) next to entries *)
(* for the rewritten URLs themselves, and requests for both: a request whose path is what the     *)
(* backend of an earlier request saw (GET /a was rewritten to /x; now GET /x, which the rules      *)
(* route elsewhere or nowhere).  Whatever a server remembers about a request it has served, it     *)
(* must remember it under the URL the client asked for.                                            *)
pXB == <<"/", "x", "/", "b">>
uRwExactAX  == E(pA, None, NoRE, None, None, FALSE, pX)                                  \* /a -> /x
uRwPrefixAX == E(None, pA, NoRE, None, None, FALSE, pX)                                  \* prefix /a -> /x...
uRwReAX     == E(None, None, R(TRUE, pASl, TRUE, TRUE), None, None, FALSE, pXG1)         \* ^/a/ G $ -> /x/$1
uRwXB       == E(pX, None, NoRE, None, None, FALSE, pB)                                  \* /x -> /b (rewrites in a row)
uPlainX     == E(pX, None, NoRE, None, None, FALSE, None)                                \* /x
uPrefixXGet == E(None, pX, NoRE, <<GET>>, None, FALSE, None)                             \* prefix /x, GET only
C12RwFocus == {uRwExactAX, uRwPrefixAX, uRwReAX, uRwXB, uPlainX, uPrefixXGet, uPlainA}
C12RwReqs == {[host |-> h, m |-> m, path |-> p, hdr |-> Hdr2(None, None), ip |-> ip] :
                 h \in {hH, hG}, m \in {GET, POST}, p \in {pA, pAB, pX, pXB, pB}, ip \in {ip1, ip9}}
C12RwReqsMC == {q \in C12RwReqs : q.host = hH /\ q.ip = ip1}
C12InitRw(c) == \E s \in {FShell(None, NoFilter), FShell(hH, Block9)}, k \in 0..2 : \E ts \in [1..k -> C12RwFocus] :
                   c = MkCfg(NoFilter, <<s>>, <<ts>>)
(* shared-entry focus: one entry reached by different ways - through a rule for host h that has  *)
(* a filter but no entry for the request, falling through to a rule for every host, and directly  *)
(* from another host.  Four requests only (two hosts x two clients), so that within a short       *)
(* behaviour the entry is first resolved for one host, then for the other, then asked for by the  *)
(* client the rule filter refuses: what is remembered for one key must not leak to another key    *)
(* that resolves to the same entry.                                                                *)
C12ShareShells == {FShell(hH, Block9), FShell(None, NoFilter)}
C12ShareFocus == {uPlainA, uPrefixGet}
C12ShareReqs == {[host |-> h, m |-> GET, path |-> pA, hdr |-> Hdr2(None, None), ip |-> ip] : h \in {hH, hG}, ip \in {ip1, ip9}}
(* tenant focus: rules for different hosts, each with its own rule-level filter (and entries with  *)
(* or without one of their own), a few requests per host: within a short behaviour a result is     *)
(* stored for one host, then one for the other (found past other filters), then the first is asked  *)
(* for again by a client on whom the two rules' filters disagree.  What is kept with one stored     *)
(* result must not change when another result is stored.                                            *)
C12TenantShells == {FShell(hH, Block9), FShell(hH, Block5), FShell(hHG, Block9), FShell(hHG, Block5), FShell(hHG, Allow1)}
C12TenantFocus == {uPlainA, uPrefixGet, uABlock5}
C12TenantReqs == {[host |-> h, m |-> GET, path |-> p, hdr |-> Hdr2(None, None), ip |-> ip] :
                     h \in {hH, hHG}, p \in {pA, pB}, ip \in {ip1, ip5, ip9}}
(* header-key focus: entries conditioned on two different headers (one of them, any of them, all of *)
(* them, a header that must be absent), a plain entry behind them, and requests for ONE URL from    *)
(* ONE client that differ in the header values only - among them values with a separator character  *)
(* in them, so that pairs occur whose values read the same once folded into one string ("1," + ""   *)
(* and "1" + ","; HttpRouter_Gen!HdrCollide).  Whatever a server remembers about a request, it must *)
(* not take one of these for the other.                                                             *)
v1c   == <<"1", ",">>
vC    == <<",">>
vC1   == <<",", "1">>
v1s   == <<"1", ";">>
vS    == <<";">>
uHdrB     == E(pA, None, NoRE, None, <<hdrB1>>, FALSE, None)                     \* /a if X-B=1
uHdrAnyAB == E(pA, None, NoRE, None, <<hdrA1, hdrB1>>, FALSE, None)              \* /a if X-A=1 or X-B=1
uHdrAllAB == E(pA, None, NoRE, None, <<hdrA1, hdrB1>>, TRUE, pX)                 \* /a if X-A=1 and X-B=1, rewritten
uHdrNoA   == E(pA, None, NoRE, None, <<H("X-A", None, reEmpty)>>, FALSE, pY)     \* /a unless X-A has a value, rewritten
uHdrAPfx  == E(pA, None, NoRE, None, <<H("X-A", None, R(TRUE, v1, FALSE, FALSE))>>, FALSE, None)   \* /a if X-A ~ ^1
C12HdrKeyFocus == {uHdrA, uHdrB, uHdrAnyAB, uHdrAllAB, uHdrNoA, uHdrAPfx, uPlainA}
C12HdrKeyShells == {FShell(None, NoFilter), FShell(hH, NoFilter)}
C12HdrKeyReqs == {[host |-> hH, m |-> GET, path |-> pA, hdr |-> Hdr2(a, b), ip |-> ip1] :
                     a \in {None, v1, v1c, v1s, vC}, b \in {None, v1, vC, vS, vC1}}
(* mapper focus: few URLs, so that a URL is asked for again after the table behind the mapper has  *)
(* changed (HttpRouter!Unmap / Map / Remap): entries with and without conditions, one whose backend *)
(* does not exist at the start, one with a rewrite                                                  *)
uMissingB == [E(pB, None, NoRE, None, None, FALSE, None) EXCEPT !.backend = "MISSING"]   \* /b, backend not there (yet)
C12MapFocus == {uPlainA, uHdrA, uPrefixGet, uMissingB, uRwExactAX, uBBlock9}
C12MapShells == {FShell(None, NoFilter), FShell(hH, NoFilter), FShell(hH, Block9)}
C12MapReqs == {[host |-> hH, m |-> m, path |-> p, hdr |-> Hdr2(a, None), ip |-> ip] :
                  m \in {GET, POST}, p \in {pA, pB}, a \in {None, v1}, ip \in {ip1, ip9}}
(* few requests (one host, one method, two paths, three clients) over sibling entries / rules   *)
(* with different filters: every (client, path) pair repeats within a short behaviour           *)
C05FocusReqs == {[host |-> hH, m |-> GET, path |-> p, hdr |-> Hdr2(None, None), ip |-> ip] : p \in {pA, pB}, ip \in {ip1, ip5, ip9}}
C05FocusShells == {FShell(h, f) : h \in {None, hH}, f \in {NoFilter, Block9, Block5}}
(* the same requests with every way of conveying the client address (HttpRouter: req.via); model *)
(* addresses are concretised below a public base address                                          *)
Vias == {"remote", "xff", "xri", "xffchain", "xrichain"}
WithVia(S) == {[host |-> q.host, m |-> q.m, path |-> q.path, hdr |-> q.hdr, ip |-> q.ip, via |-> v] : q \in S, v \in Vias}
C12SimReqsVia == WithVia(C12SimReqs)
C12ReqsAVia == WithVia(C12ReqsA)
C05FocusReqsVia == WithVia(C05FocusReqs)
=============================================================================

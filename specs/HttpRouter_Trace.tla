-------------------------- MODULE HttpRouter_Trace --------------------------
(* Trace validation for C01, C05 and C12: observations recorded from real muxes are judged      *)
(* against the contract layer of HttpRouter.                                                     *)
(*                                                                                              *)
(*   {"ev":"cfg","cfg":C}                  a new server configuration (fresh muxes); C.mapper    *)
(*        lists the backend names that exist, each standing for the instance of that name        *)
(*   {"ev":"cfg","cfg":C,"insts":[L],"same":true}   the table behind the MuxMapper of the        *)
(*        running muxes has changed (no reload): C as before except C.mapper, the names that     *)
(*        exist now; insts[i] is the label of the instance registered under C.mapper[i]          *)
(*   {"ev":"req","q":Q,"ou":O,"oc":O,"zu":O,"zc":O,"cul":[P]}                                    *)
(*        the same request served by the real mux built from C with the route cache off (ou)    *)
(*        and on (oc), and by the filter-less twins of the two (zu, zc); harnesses that do not   *)
(*        run some of the four repeat another observation in its place.  cul is empty or holds   *)
(*        the earlier request the harness found responsible for oc # ou (diagnosis only).       *)
(*                                                                                              *)
(* Judged per line:  okU  ou = RefOutcome(cfg,q)      (C01; with filters: the 403 rules)         *)
(*                   okC  oc = RefOutcome(cfg,q)      (C12: the cache is transparent)            *)
(*                   c5u, c5c  C05 (i)-(ii) for ou against zu and for oc against zc; c5c also    *)
(*                             C05 (iii) for oc against ou                                       *)
(* A line on which one of them fails is printed (VERIF_MISMATCH line json) with the contract's   *)
(* prediction, and validation goes on, so that every line is judged; the driver decides which    *)
(* of the four belong to the property being checked.                                             *)
EXTENDS HttpRouter, Json, TLC, IOUtils

TLog == ndJsonDeserialize(IOEnv.VERIF_TRACE)

VARIABLE l
tvars == <<vars, l>>

SeqToSet(s) == {s[i] : i \in DOMAIN s}
(* the table behind the MuxMapper: names[i] exists and stands for the instance insts[i] *)
MapperOf(names, insts) == [b \in SeqToSet(names) |-> insts[CHOOSE i \in DOMAIN names : names[i] = b]]
TNoCfg(c) == FALSE          \* CfgInit is not used here: configurations come from the trace

TInit == /\ l = 1
         /\ cfg = [ipf |-> NoFilter, rules |-> <<>>, mapper |-> [b \in {} |-> b]]
         /\ cache = EmptyCache /\ cache0 = EmptyCache /\ n = 0 /\ last = [a |-> "cfg"]

TCfg == /\ l <= Len(TLog) /\ TLog[l].ev = "cfg"
        /\ cfg' = [TLog[l].cfg EXCEPT !.mapper = MapperOf(@, IF "insts" \in DOMAIN TLog[l] THEN TLog[l].insts ELSE @)]
        /\ l' = l + 1
        /\ UNCHANGED <<cache, cache0, n, last>>

TReq == /\ l <= Len(TLog) /\ TLog[l].ev = "req"
        /\ LET e == TLog[l]
               q == e.q
               rs == RouteSpec(cfg, q)
               exp == Dispatch(cfg, RefRouteOf(cfg, q, rs), q)
               okU == e.ou = exp
               okC == e.oc = exp
               c5u == C05OKOf(cfg, q, e.ou, e.zu, rs)
               c5c == C05OKOf(cfg, q, e.oc, e.zc, rs) /\ C05iiiOf(cfg, q, e.oc, e.ou, rs)
           IN IF okU /\ okC /\ c5u /\ c5c THEN TRUE
              ELSE PrintT(<<"VERIF_MISMATCH", l,
                          ToJson([exp |-> exp, own |-> rs, okU |-> okU, okC |-> okC, c5u |-> c5u, c5c |-> c5c,
                                  den |-> DeniedApplyingOf(cfg, q, rs), all |-> AllowedEverywhere(cfg, q),
                                  amb |-> AmbiguousOf(cfg, q, rs),
                                  cown |-> IF e.cul = <<>> THEN rs ELSE RouteSpec(cfg, e.cul[1])])>>)
        /\ l' = l + 1
        /\ UNCHANGED vars

TNext == TCfg \/ TReq
TSpec == TInit /\ [][TNext]_tvars

ASSUME TLCSet(1, 0)
HWM == TLCSet(1, IF l - 1 > TLCGet(1) THEN l - 1 ELSE TLCGet(1))
Accepted == /\ PrintT(<<"VERIF_HWM", TLCGet(1), Len(TLog)>>)
            /\ TLCGet(1) = Len(TLog)
=============================================================================

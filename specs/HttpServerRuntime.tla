------------------------- MODULE HttpServerRuntime --------------------------
(* Growth item (DESIGN 9.2): the finite-state machine of an HTTPServer's runtime                *)
(* (pkg/object/httpserver/runtime.go).  One action per event handler of runtime.fsm():           *)
(*   Reload (handleEventReload -> reload), ServeFailed (handleEventServeFailed),                 *)
(*   CheckFailed (handleEventCheckFailed), Close (handleEventClose),                             *)
(* plus the environment: another process occupying / freeing a port, the serving goroutine of   *)
(* some start number dying.                                                                      *)
(*                                                                                              *)
(* A server spec is abstracted to [port, opt, rules, maxc]: `opt` stands for every option whose *)
(* change needs a restart (keepAlive, https, ...), `rules` for everything hot-swappable in the  *)
(* mux (rules, ipFilter, cacheSize, xForwardedFor), `maxc` for maxConnections (applied to the    *)
(* live listener).                                                                              *)
EXTENDS Integers, Sequences, FiniteSets

CONSTANTS Ports, Opts, Rules, Caps, MaxOps

NoSpec == [port |-> 0, opt |-> 0, rules |-> 0, maxc |-> 0]
Specs == [port : Ports, opt : Opts, rules : Rules, maxc : Caps]

VARIABLES st,        \* "nil" | "running" | "failed"   (the code never reaches "closed")
          cur,       \* the spec the runtime holds (NoSpec before the first reload)
          muxRules,  \* rules generation the mux routes with
          startNum,  \* number of startServer calls
          lid,       \* identity of the live listener (0 = none); changes iff a new listener is bound
          bound,     \* port the live listener is bound to (0 = none)
          lcap,      \* connection cap of the live listener
          busy,      \* ports occupied by somebody else
          closed,    \* Close handled
          ops,       \* operations so far (bounds the model)
          last       \* observation of the step just taken

vars == <<st, cur, muxRules, startNum, lid, bound, lcap, busy, closed, ops, last>>
view == <<st, cur, muxRules, startNum, lid, bound, lcap, busy, closed, ops>>

Init ==
    /\ st = "nil" /\ cur = NoSpec /\ muxRules = 0 /\ startNum = 0 /\ lid = 0 /\ bound = 0 /\ lcap = 0
    /\ busy = {} /\ closed = FALSE /\ ops = 0 /\ last = [a |-> "init"]

(* startServer with spec s: startNum++, state running; Listen fails synchronously on a busy port *)
Started(s) ==
    /\ startNum' = startNum + 1
    /\ IF s.port \in busy
       THEN st' = "failed" /\ lid' = 0 /\ bound' = 0 /\ lcap' = 0
       ELSE st' = "running" /\ lid' = startNum + 1 /\ bound' = s.port /\ lcap' = s.maxc

NeedRestart(a, b) == a.port # b.port \/ a.opt # b.opt

Reload(s) ==
    /\ ~closed /\ ops < MaxOps /\ ops' = ops + 1
    /\ muxRules' = s.rules
    /\ cur' = s
    /\ IF cur = NoSpec THEN Started(s)
       ELSE IF NeedRestart(cur, s) THEN Started(s)          \* closeServer; startServer
       ELSE /\ lcap' = IF lid # 0 THEN s.maxc ELSE lcap     \* SetMaxConnection on the live listener
            /\ UNCHANGED <<st, startNum, lid, bound>>
    /\ last' = [a |-> "reload", spec |-> s, st |-> st', bound |-> bound', same |-> (lid' = lid)]
    /\ UNCHANGED <<busy, closed>>

(* the serving goroutine of start number n reports a failure *)
ServeFailed(n) ==
    /\ ~closed /\ ops < MaxOps /\ ops' = ops + 1
    /\ n \in 1..startNum
    /\ IF startNum > n THEN UNCHANGED <<st, lid, bound, lcap>>       \* stale: ignored
       ELSE st' = "failed" /\ lid' = 0 /\ bound' = 0 /\ lcap' = 0
    /\ last' = [a |-> "servefailed", n |-> n, st |-> st', stale |-> (startNum > n)]
    /\ UNCHANGED <<cur, muxRules, startNum, busy, closed>>

CheckFailed ==
    /\ ~closed /\ ops < MaxOps /\ ops' = ops + 1
    /\ IF st = "failed" THEN Started(cur) ELSE UNCHANGED <<st, startNum, lid, bound, lcap>>
    /\ last' = [a |-> "checkfailed", st |-> st', bound |-> bound']
    /\ UNCHANGED <<cur, muxRules, busy, closed>>

Occupy(p) ==
    /\ ops < MaxOps /\ ops' = ops + 1
    /\ p \in Ports \ busy /\ p # bound
    /\ busy' = busy \cup {p}
    /\ last' = [a |-> "occupy", port |-> p]
    /\ UNCHANGED <<st, cur, muxRules, startNum, lid, bound, lcap, closed>>

Free(p) ==
    /\ ops < MaxOps /\ ops' = ops + 1
    /\ p \in busy /\ busy' = busy \ {p}
    /\ last' = [a |-> "free", port |-> p]
    /\ UNCHANGED <<st, cur, muxRules, startNum, lid, bound, lcap, closed>>

Close ==
    /\ ~closed /\ closed' = TRUE
    /\ lid' = 0 /\ bound' = 0 /\ lcap' = 0
    /\ last' = [a |-> "close"]
    /\ UNCHANGED <<st, cur, muxRules, startNum, busy, ops>>

Next ==
    \/ \E s \in Specs : Reload(s)
    \/ \E n \in 1..startNum : ServeFailed(n)
    \/ CheckFailed
    \/ \E p \in Ports : Occupy(p) \/ Free(p)
    \/ Close

Spec == Init /\ [][Next]_vars /\ WF_vars(CheckFailed)

-----------------------------------------------------------------------------
TypeOK == st \in {"nil", "running", "failed"} /\ bound \in Ports \cup {0}

(* a running server listens on the port of its spec, with the cap of its spec *)
RunningListens == (st = "running" /\ ~closed) => (bound = cur.port /\ lid # 0 /\ lcap = cur.maxc)
FailedSilent   == st = "failed" => bound = 0
NeverOnBusy    == bound = 0 \/ bound \notin busy
MuxFollows     == cur # NoSpec => muxRules = cur.rules

(* a reload that changes only hot-swappable options keeps the listener (connections survive) *)
HotReloadKeepsListener ==
    [][(last'.a = "reload" /\ cur # NoSpec /\ ~NeedRestart(cur, cur') /\ lid # 0) => (lid' = lid /\ bound' = bound)]_vars

(* a failure report of an older start is ignored *)
StaleServeFailedIgnored ==
    [][(last'.a = "servefailed" /\ last'.stale) => UNCHANGED <<st, lid, bound>>]_vars

(* nothing but Close, a restart or a serve failure unbinds a live listener *)
NoSpuriousUnbind ==
    [][(lid # 0 /\ lid' # lid) => last'.a \in {"reload", "servefailed", "close"}]_vars
=============================================================================

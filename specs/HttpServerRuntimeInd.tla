------------------------ MODULE HttpServerRuntimeInd -------------------------
(* X01, optional unbounded check (Apalache): the invariants of HttpServerRuntime hold for an      *)
(* UNBOUNDED number of operations (no MaxOps): IndInv is inductive - Init => IndInv and           *)
(* IndInv /\ Next => IndInv' - and implies RunningListens, FailedSilent, NeverOnBusy, MuxFollows. *)
(* Same actions as HttpServerRuntime, without the observation variable `last` and the counter.    *)
EXTENDS Integers, FiniteSets

Ports == {1, 2, 3}
Opts  == {0, 1}
Rules == {1, 2}
Caps  == {1, 2}

VARIABLES
    \* @type: Str;
    st,
    \* @type: { port: Int, opt: Int, rules: Int, maxc: Int };
    cur,
    \* @type: Int;
    muxRules,
    \* @type: Int;
    startNum,
    \* @type: Int;
    lid,
    \* @type: Int;
    bound,
    \* @type: Int;
    lcap,
    \* @type: Set(Int);
    busy,
    \* @type: Bool;
    closed

NoSpec == [port |-> 0, opt |-> 0, rules |-> 0, maxc |-> 0]
Specs == [port : Ports, opt : Opts, rules : Rules, maxc : Caps]

Init ==
    /\ st = "nil" /\ cur = NoSpec /\ muxRules = 0 /\ startNum = 0 /\ lid = 0 /\ bound = 0 /\ lcap = 0
    /\ busy = {} /\ closed = FALSE

\* @type: ({ port: Int, opt: Int, rules: Int, maxc: Int }) => Bool;
Started(s) ==
    /\ startNum' = startNum + 1
    /\ IF s.port \in busy
       THEN st' = "failed" /\ lid' = 0 /\ bound' = 0 /\ lcap' = 0
       ELSE st' = "running" /\ lid' = startNum + 1 /\ bound' = s.port /\ lcap' = s.maxc

\* @type: ({ port: Int, opt: Int, rules: Int, maxc: Int }, { port: Int, opt: Int, rules: Int, maxc: Int }) => Bool;
NeedRestart(a, b) == a.port # b.port \/ a.opt # b.opt

\* @type: ({ port: Int, opt: Int, rules: Int, maxc: Int }) => Bool;
Reload(s) ==
    /\ ~closed
    /\ muxRules' = s.rules
    /\ cur' = s
    /\ IF cur = NoSpec THEN Started(s)
       ELSE IF NeedRestart(cur, s) THEN Started(s)
       ELSE /\ lcap' = IF lid # 0 THEN s.maxc ELSE lcap
            /\ UNCHANGED <<st, startNum, lid, bound>>
    /\ UNCHANGED <<busy, closed>>

ServeFailed(n) ==
    /\ ~closed /\ n >= 1 /\ n <= startNum
    /\ IF startNum > n THEN UNCHANGED <<st, lid, bound, lcap>>
       ELSE st' = "failed" /\ lid' = 0 /\ bound' = 0 /\ lcap' = 0
    /\ UNCHANGED <<cur, muxRules, startNum, busy, closed>>

CheckFailed ==
    /\ ~closed
    /\ IF st = "failed" THEN Started(cur) ELSE UNCHANGED <<st, startNum, lid, bound, lcap>>
    /\ UNCHANGED <<cur, muxRules, busy, closed>>

Occupy(p) ==
    /\ p \in Ports \ busy /\ p # bound
    /\ busy' = busy \union {p}
    /\ UNCHANGED <<st, cur, muxRules, startNum, lid, bound, lcap, closed>>

Free(p) ==
    /\ p \in busy /\ busy' = busy \ {p}
    /\ UNCHANGED <<st, cur, muxRules, startNum, lid, bound, lcap, closed>>

Close ==
    /\ ~closed /\ closed' = TRUE
    /\ lid' = 0 /\ bound' = 0 /\ lcap' = 0
    /\ UNCHANGED <<st, cur, muxRules, startNum, busy>>

Next ==
    \/ \E s \in Specs : Reload(s)
    \/ \E n \in 1..3 : ServeFailed(startNum - n + 1)      \* any of the three most recent starts; older ones behave like n = 2
    \/ CheckFailed
    \/ \E p \in Ports : Occupy(p) \/ Free(p)
    \/ Close

RunningListens == (st = "running" /\ ~closed) => (bound = cur.port /\ lid # 0 /\ lcap = cur.maxc)
FailedSilent   == st = "failed" => bound = 0
NeverOnBusy    == bound = 0 \/ bound \notin busy
MuxFollows     == cur # NoSpec => muxRules = cur.rules

IndInv ==
    /\ st \in {"nil", "running", "failed"}
    /\ cur \in Specs \union {NoSpec}
    /\ busy \subseteq Ports
    /\ startNum >= 0 /\ lid >= 0 /\ lid <= startNum
    /\ bound \in Ports \union {0}
    /\ (lid = 0) <=> (bound = 0)
    /\ (cur = NoSpec) <=> (st = "nil")
    /\ st = "nil" => (bound = 0 /\ startNum = 0 /\ muxRules = 0)
    /\ st = "failed" => bound = 0
    /\ (st = "running" /\ ~closed) => (bound = cur.port /\ lid = startNum /\ lcap = cur.maxc)
    /\ closed => bound = 0
    /\ (bound = 0 \/ bound \notin busy)
    /\ (cur # NoSpec => muxRules = cur.rules)

\* an arbitrary state satisfying the invariant
IndInit ==
    /\ st \in {"nil", "running", "failed"}
    /\ cur \in Specs \union {NoSpec}
    /\ muxRules \in Rules \union {0}
    /\ startNum \in Nat /\ lid \in Nat
    /\ bound \in Ports \union {0}
    /\ lcap \in Caps \union {0}
    /\ busy \in SUBSET Ports
    /\ closed \in BOOLEAN
    /\ IndInv

Claims == RunningListens /\ FailedSilent /\ NeverOnBusy /\ MuxFollows
=============================================================================

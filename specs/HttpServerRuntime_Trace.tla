---------------------- MODULE HttpServerRuntime_Trace -----------------------
(* Trace validation of the real HTTPServer runtime against HttpServerRuntime: every logged        *)
(* operation must be the corresponding action of the model, and the state observed on the real    *)
(* object afterwards (state string, which port answers HTTP, rules generation the mux routes     *)
(* with, whether the connection opened before the step is still served) must be the model's.     *)
EXTENDS HttpServerRuntime, Json, TLC, IOUtils

TLog == ndJsonDeserialize(IOEnv.VERIF_TRACE)
VARIABLE l
tvars == <<vars, l>>

IsEvent(e) == l <= Len(TLog) /\ TLog[l].ev = e /\ l' = l + 1

Obs ==
    LET o == TLog[l].obs IN
    /\ st' = o.st
    /\ bound' = o.bound
    /\ (~closed' => muxRules' = o.rules)
    /\ ((o.hadconn /\ lid' = lid /\ lid # 0) => o.alive)      \* a kept listener keeps its connections

TReset == /\ IsEvent("reset")
          /\ st' = "nil" /\ cur' = NoSpec /\ muxRules' = 0 /\ startNum' = 0 /\ lid' = 0 /\ bound' = 0 /\ lcap' = 0
          /\ busy' = {} /\ closed' = FALSE /\ ops' = 0 /\ last' = [a |-> "init"]
TAbort  == IsEvent("abort") /\ UNCHANGED vars
TReload == IsEvent("reload") /\ Reload(TLog[l].arg.spec) /\ Obs
TServe  == IsEvent("servefailed") /\ ServeFailed(TLog[l].arg.n) /\ Obs
TCheck  == IsEvent("checkfailed") /\ CheckFailed /\ Obs
TOcc    == IsEvent("occupy") /\ Occupy(TLog[l].arg.port) /\ Obs
TFree   == IsEvent("free") /\ Free(TLog[l].arg.port) /\ Obs
TClose  == IsEvent("close") /\ Close /\ Obs

TNext == TReset \/ TAbort \/ TReload \/ TServe \/ TCheck \/ TOcc \/ TFree \/ TClose
TSpec == Init /\ l = 1 /\ [][TNext]_tvars

ASSUME TLCSet(1, 0)
HWM == TLCSet(1, IF l - 1 > TLCGet(1) THEN l - 1 ELSE TLCGet(1))
Accepted == /\ PrintT(<<"VERIF_HWM", TLCGet(1), Len(TLog)>>)
            /\ TLCGet(1) = Len(TLog)
=============================================================================

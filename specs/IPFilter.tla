------------------------------ MODULE IPFilter ------------------------------
(* C05 (first half).  easegress' IP filter, pkg/util/ipfilter.                                 *)
(*                                                                                              *)
(* An address is [fam, bits]: the family (4 or 6) and its bits, most significant first (32 or  *)
(* 128 of them in recorded traces, BitWidth of them in the small models).  A configured entry   *)
(* is a net [fam, bits]: a prefix; a bare address is the prefix of full length, a CIDR a/n is   *)
(* the first n bits of a ("standard prefix semantics").                                         *)
(*                                                                                              *)
(* Contract layer:  Denied(f, a)  - the decision table of the property's text.                  *)
(* Implementation-shaped layer: AllowImpl(f, a) - IPFilter.Allow as written (two prefix tries,  *)
(* the four-way switch), and ChainAllowImpl - IPFilters.Allow (first refusing filter wins).     *)
EXTENDS Integers, Sequences, FiniteSets

IsBitPrefix(p, s) == Len(p) <= Len(s) /\ \A i \in 1..Len(p) : p[i] = s[i]

InNet(a, n) == a.fam = n.fam /\ IsBitPrefix(n.bits, a.bits)

(* a filter is [on, allow, block, dflt]: `on` = FALSE stands for "no filter configured at this  *)
(* level" (nil *ipfilter.Spec); allow / block are sequences of nets; dflt = blockByDefault      *)
NoFilter == [on |-> FALSE, allow |-> <<>>, block |-> <<>>, dflt |-> FALSE]

InAny(a, nets) == \E i \in DOMAIN nets : InNet(a, nets[i])

(* ---- contract: "denied iff it lies in a blocked address/CIDR and in no allowed one, or lies  *)
(*      in neither or in both and blockByDefault is set"                                        *)
Denied(f, a) ==
    /\ f.on
    /\ LET al == InAny(a, f.allow)
           bl == InAny(a, f.block)
       IN IF bl /\ ~al THEN TRUE
          ELSE IF al /\ ~bl THEN FALSE
          ELSE f.dflt

(* a chain of filters (server, rule, path) refuses iff one of them does *)
ChainDenied(fs, a) == \E i \in DOMAIN fs : Denied(fs[i], a)

(* ---- implementation-shaped: IPFilter.Allow / allowIP(nil filter) / IPFilters.Allow *)
AllowImpl(f, a) ==
    IF ~f.on THEN TRUE                        \* allowIP: nil filter allows
    ELSE LET defaultResult == ~f.dflt
             allowed == InAny(a, f.allow)     \* allowRanger.Contains
             blocked == InAny(a, f.block)     \* blockRanger.Contains
         IN CASE allowed /\ blocked -> defaultResult
              [] allowed           -> TRUE
              [] blocked           -> FALSE
              [] OTHER             -> defaultResult

RECURSIVE ChainAllowImpl(_, _)
ChainAllowImpl(fs, a) ==
    IF fs = <<>> THEN TRUE
    ELSE IF ~AllowImpl(Head(fs), a) THEN FALSE
    ELSE ChainAllowImpl(Tail(fs), a)
=============================================================================

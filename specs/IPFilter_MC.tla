---------------------------- MODULE IPFilter_MC ----------------------------
(* C05: exhaustive check of the IP filter over small bit widths, and export of the decision    *)
(* vectors.  Every state is one (filter, second filter, address) triple; `out` is the JSON       *)
(* vector the Go harness replays on the real ipfilter.IPFilter (bits are concretised below a    *)
(* fixed public /24 resp. /120 base).                                                           *)
EXTENDS IPFilter, SequencesExt, Json

CONSTANTS BitWidth,   \* bits of an address in this model
          MaxAllow,   \* at most this many allow entries
          MaxBlock,   \* at most this many block entries
          ChainMode   \* TRUE: also range over a second filter (chain = conjunction)

Fams == {4, 6}
BitPrefixes == UNION {[1..k -> {0, 1}] : k \in 0..BitWidth}
Nets == [fam : Fams, bits : BitPrefixes]
Addrs == [fam : Fams, bits : [1..BitWidth -> {0, 1}]]
NetList == SetToSeq(Nets)
NN == Len(NetList)

(* sequences of at most n distinct nets, one order each *)
NetSeqsOrd(n) ==
    {<<>>} \cup (IF n >= 1 THEN {<<NetList[i]>> : i \in 1..NN} ELSE {})
           \cup (IF n >= 2 THEN UNION {{<<NetList[i], NetList[j]>> : j \in (i + 1)..NN} : i \in 1..NN} ELSE {})

Filters == [on : {TRUE}, allow : NetSeqsOrd(MaxAllow), block : NetSeqsOrd(MaxBlock), dflt : BOOLEAN]

(* second filter of a chain: absent, block one half, allow-list one quarter *)
GFilters ==
    IF ChainMode
    THEN {NoFilter,
          [on |-> TRUE, allow |-> <<>>, block |-> <<[fam |-> 4, bits |-> <<1>>]>>, dflt |-> FALSE],
          [on |-> TRUE, allow |-> <<[fam |-> 6, bits |-> <<>>]>>, block |-> <<>>, dflt |-> TRUE],
          [on |-> TRUE, allow |-> <<[fam |-> 4, bits |-> <<0>>]>>, block |-> <<[fam |-> 4, bits |-> <<>>]>>, dflt |-> TRUE]}
    ELSE {NoFilter}

VARIABLES f, g, a, out
vars == <<f, g, a, out>>

Init == /\ f \in Filters /\ g \in GFilters /\ a \in Addrs
        /\ out = ToJson([f |-> f, a |-> a, allow |-> ~Denied(f, a)])
Next == UNCHANGED vars
Spec == Init /\ [][Next]_vars

(* the code's switch computes the contract's decision table *)
Refines == AllowImpl(f, a) = ~Denied(f, a)
(* the table is total and only depends on membership *)
Table == LET al == InAny(a, f.allow) bl == InAny(a, f.block) IN
         /\ (bl /\ ~al) => Denied(f, a)
         /\ (al /\ ~bl) => ~Denied(f, a)
         /\ (al = bl) => (Denied(f, a) = f.dflt)
(* a chain refuses iff one member does, in whatever order *)
ChainConj == /\ ChainAllowImpl(<<f, g>>, a) = ~ChainDenied(<<f, g>>, a)
             /\ ChainAllowImpl(<<f, g>>, a) = ChainAllowImpl(<<g, f>>, a)
             /\ ChainAllowImpl(<<f, g>>, a) = (AllowImpl(f, a) /\ AllowImpl(g, a))
(* the other family never matters *)
FamilySeparation ==
    LET strip(ns) == SelectSeq(ns, LAMBDA n : n.fam = a.fam) IN
    Denied(f, a) = Denied([f EXCEPT !.allow = strip(f.allow), !.block = strip(f.block)], a)
=============================================================================

---------------------------- MODULE IPFilter_MC ----------------------------
(* C05: exhaustive check of the IP filter over small bit widths, and export of the decision    *)
(* vectors.  Every state is one (filter, second filter, address) triple; `out` is the JSON       *)
(* vector the Go harness replays on the real ipfilter.IPFilter (bits are concretised below a    *)
(* fixed public /24 resp. /120 base).                                                           *)
EXTENDS IPFilter, SequencesExt, Json

CONSTANTS BitWidth,   \* bits of an address in this model
          MaxAllow,   \* at most this many allow entries
          MaxBlock,   \* at most this many block entries
          ChainMode,  \* TRUE: also range over a second filter (chain = conjunction)
          PairMode    \* TRUE: the focused universe PairFilters instead of all small filters

Fams == {4, 6}
BitPrefixes == UNION {[1..k -> {0, 1}] : k \in 0..BitWidth}
Nets == [fam : Fams, bits : BitPrefixes]
Addrs == [fam : Fams, bits : [1..BitWidth -> {0, 1}]]
NetList == SetToSeq(Nets)
NN == Len(NetList)

(* sequences of at most n distinct nets, one order each *)
NetSeqsOrd(n) ==
    {<<>>} \cup (IF n >= 1 THEN {<<NetList[i]>> : i \in 1..NN} ELSE {})
           \cup (IF n >= 2 THEN UNION {{<<NetList[i], NetList[j]>> : j \in (i + 1)..NN} : i \in 1..NN} ELSE {})

AllFilters == [on : {TRUE}, allow : NetSeqsOrd(MaxAllow), block : NetSeqsOrd(MaxBlock), dflt : BOOLEAN]

(* Focused universe (meant for BitWidth >= 3): one list holds two different nets of the same      *)
(* family and the same size, in either order - siblings under one supernet (01x, 00x),             *)
(* numerically adjacent ones that are not siblings (01x, 10x: "10.0.1.0/24, 10.0.2.0/24"), and     *)
(* nets further apart - at every prefix length including full-length single addresses; the other  *)
(* list holds at most one net of that family.  A list is a set of prefixes: membership in it is    *)
(* membership in one of its entries, whatever their neighbours are ("standard prefix semantics"), *)
(* so an implementation that aggregates, sorts or de-duplicates its entries must still decide     *)
(* every address of the family as Denied says.                                                     *)
SameSizePairs == {p \in Nets \X Nets : p[1] # p[2] /\ p[1].fam = p[2].fam /\ Len(p[1].bits) = Len(p[2].bits)}
UpToOne(fam) == {<<>>} \cup {<<n>> : n \in {x \in Nets : x.fam = fam}}
PairFilter(p, o, side, d) == IF side THEN [on |-> TRUE, allow |-> p, block |-> o, dflt |-> d]
                                     ELSE [on |-> TRUE, allow |-> o, block |-> p, dflt |-> d]
(* as a predicate with the assignment inside the quantifiers: TLC enumerates the initial states   *)
(* without materialising (and sorting) the set of filters                                          *)
IsPairFilter(x) == \E p \in SameSizePairs, side \in BOOLEAN, d \in BOOLEAN : \E o \in UpToOne(p[1].fam) : x = PairFilter(p, o, side, d)

(* second filter of a chain: absent, block one half, allow-list one quarter *)
GFilters ==
    IF ChainMode
    THEN {NoFilter,
          [on |-> TRUE, allow |-> <<>>, block |-> <<[fam |-> 4, bits |-> <<1>>]>>, dflt |-> FALSE],
          [on |-> TRUE, allow |-> <<[fam |-> 6, bits |-> <<>>]>>, block |-> <<>>, dflt |-> TRUE],
          [on |-> TRUE, allow |-> <<[fam |-> 4, bits |-> <<0>>]>>, block |-> <<[fam |-> 4, bits |-> <<>>]>>, dflt |-> TRUE]}
    ELSE {NoFilter}

VARIABLES f, g, a, out
vars == <<f, g, a, out>>

Init == /\ IF PairMode THEN IsPairFilter(f) ELSE f \in AllFilters
        /\ g \in GFilters
        /\ a \in IF PairMode THEN {x \in Addrs : x.fam = (f.allow \o f.block)[1].fam}     \* the other family: see the general universe
                            ELSE Addrs
        /\ out = ToJson([f |-> f, a |-> a, allow |-> ~Denied(f, a)])
Next == UNCHANGED vars
Spec == Init /\ [][Next]_vars

(* the code's switch computes the contract's decision table *)
Refines == AllowImpl(f, a) = ~Denied(f, a)
(* the table is total and only depends on membership *)
Table == LET al == InAny(a, f.allow) bl == InAny(a, f.block) IN
         /\ (bl /\ ~al) => Denied(f, a)
         /\ (al /\ ~bl) => ~Denied(f, a)
         /\ (al = bl) => (Denied(f, a) = f.dflt)
(* a chain refuses iff one member does, in whatever order *)
ChainConj == /\ ChainAllowImpl(<<f, g>>, a) = ~ChainDenied(<<f, g>>, a)
             /\ ChainAllowImpl(<<f, g>>, a) = ChainAllowImpl(<<g, f>>, a)
             /\ ChainAllowImpl(<<f, g>>, a) = (AllowImpl(f, a) /\ AllowImpl(g, a))
(* the other family never matters *)
FamilySeparation ==
    LET strip(ns) == SelectSeq(ns, LAMBDA n : n.fam = a.fam) IN
    Denied(f, a) = Denied([f EXCEPT !.allow = strip(f.allow), !.block = strip(f.block)], a)
=============================================================================

--------------------------- MODULE IPFilter_Trace ---------------------------
(* C05: decisions recorded from the real ipfilter.IPFilter (arbitrary IPv4/IPv6 addresses and   *)
(* CIDRs, bits computed by the harness with net/netip) judged against the contract Denied.      *)
(* One line = {"f": filter, "a": address, "allow": observed}.  A disagreeing line is printed    *)
(* (VERIF_MISMATCH line-number contract-decision) and validation goes on, so that every line    *)
(* is judged.                                                                                    *)
EXTENDS IPFilter, Json, TLC, IOUtils

TLog == ndJsonDeserialize(IOEnv.VERIF_TRACE)

VARIABLE l
TInit == l = 1
TStep == /\ l <= Len(TLog)
         /\ LET e == TLog[l] IN
            IF e.allow = ~Denied(e.f, e.a) THEN TRUE
            ELSE PrintT(<<"VERIF_MISMATCH", l, ToJson([allow |-> ~Denied(e.f, e.a)])>>)
         /\ l' = l + 1
TSpec == TInit /\ [][TStep]_l

ASSUME TLCSet(1, 0)
HWM == TLCSet(1, IF l - 1 > TLCGet(1) THEN l - 1 ELSE TLCGet(1))
Accepted == /\ PrintT(<<"VERIF_HWM", TLCGet(1), Len(TLog)>>)
            /\ TLCGet(1) = Len(TLog)
=============================================================================

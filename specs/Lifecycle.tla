------------------------------ MODULE Lifecycle ------------------------------
(* C20.  Contract layer of the object life-cycle of easegress' supervisor.                      *)
(*                                                                                              *)
(* The cluster syncer delivers *snapshots* of the object configuration (name -> spec).  For     *)
(* every snapshot the system must reconcile the running objects with it by calling the          *)
(* life-cycle callbacks of the objects:                                                         *)
(*                                                                                              *)
(*     name appears                      exactly one  Init(new)                                 *)
(*     spec changes, same kind           exactly one  Inherit(new, prev)  prev = live instance  *)
(*     name disappears                   exactly one  Close(live)                               *)
(*     spec unchanged                    no callback                                            *)
(*     kind changes                      Close(live) and Init(new)       (no order stated)      *)
(*                                                                                              *)
(* and the set of live objects equals the latest snapshot once the obligations are discharged.  *)
(* Whether a callback panics is irrelevant for the obligations (of the same and of every other  *)
(* name): a call that panics is still "the" call.                                               *)
(*                                                                                              *)
(* Start-up.  Snapshots may already arrive while the system is starting.  The objects are        *)
(* reconciled in two groups - the business controllers, and the traffic objects (traffic gates   *)
(* and pipelines) - and each group *begins* to be reconciled at some moment of the start-up       *)
(* (CBegin): from the then latest snapshot, i.e. the objects of the group in that snapshot are   *)
(* initialised; the snapshots taken before are coalesced into it for that group, exactly as if   *)
(* the configuration source had delivered only the last of them.  A spec whose group has not     *)
(* begun is, for the obligations, the same as no object (Eff).  From its beginning on a group    *)
(* takes part in *every* snapshot; the system is up only when both groups have begun.  (This is  *)
(* the least the text allows: it does not say that an object must be initialised before there   *)
(* is anything that could initialise it, but it does say "for every sequence of snapshots".)     *)
(*                                                                                              *)
(* This module is the contract only: what the text of C20 says, nothing about how the registry, *)
(* the watchers and the handlers are organised (that is LifecycleImpl).  The obligations of a   *)
(* snapshot are a *set* `pend` of callback records with a partial order: an instance can be     *)
(* closed / inherited from only after it has itself been created (Init or Inherit).  The order  *)
(* between different names - and between Close(old) and Init(new) of a kind change - is free.   *)
EXTENDS Integers, Sequences, FiniteSets

CONSTANTS Names,        \* object names
          BizKinds,     \* kinds of category BusinessController     (watcher of the Supervisor)
          GateKinds,    \* kinds kept in the traffic controller's trafficGates map
          PipeKinds,    \* kinds kept in the traffic controller's pipelines map (kind = "Pipeline")
          Vers,         \* spec versions: two specs of one kind are equal iff their versions are
          MaxSnaps      \* bound on the number of snapshots (model checking only)

Kinds == BizKinds \cup GateKinds \cup PipeKinds

None     == [k |-> "none", v |-> 0]                    \* "no object under this name"
ObjSpecs == [k : Kinds, v : Vers]
Snapshots == [Names -> ObjSpecs \cup {None}]

NoInst == [k |-> "none", v |-> 0, born |-> 0]
(* an instance is identified by its name and the number of the snapshot that brought its spec *)
SpecOf(i) == [k |-> i.k, v |-> i.v]

(* the two groups of objects that are reconciled independently of each other *)
Groups == {"biz", "traf"}
GroupOf(k) == IF k \in BizKinds THEN "biz" ELSE "traf"

VARIABLES snap,     \* latest snapshot
          clive,    \* contract: name -> live instance [k, v, born] or NoInst
          step,     \* number of snapshots so far
          pend,     \* contract: set of callback obligations not yet discharged
          done,     \* history of discharged callbacks (observation only; never read by actions)
          begun,    \* group -> its reconciliation has begun (FALSE only while the system starts)
          since     \* name -> number of the snapshot that brought the name's present spec

cvars == <<snap, clive, step, pend, done, begun, since>>

(* a spec as far as the reconciliation that exists is concerned *)
Eff(s) == IF s # None /\ begun[GroupOf(s.k)] THEN s ELSE None
Up == \A g \in Groups : begun[g]

(* callback records *)
InitCB(x, s, b)       == [op |-> "init", name |-> x, k |-> s.k, v |-> s.v, born |-> b,
                          pk |-> "none", pv |-> 0, pborn |-> 0]
InheritCB(x, s, b, p) == [op |-> "inherit", name |-> x, k |-> s.k, v |-> s.v, born |-> b,
                          pk |-> p.k, pv |-> p.v, pborn |-> p.born]
CloseCB(x, i)         == [op |-> "close", name |-> x, k |-> i.k, v |-> i.v, born |-> i.born,
                          pk |-> "none", pv |-> 0, pborn |-> 0]

(* what happens to one name between two snapshots *)
Trans(old, new) ==
    IF old = None THEN (IF new = None THEN "absent" ELSE "appear")
    ELSE IF new = None THEN "disappear"
    ELSE IF old = new THEN "unchanged"
    ELSE IF old.k = new.k THEN "update" ELSE "kindchange"

(* the obligations snapshot number s creates for name x, whose live instance is `old` *)
Obl(x, old, new, s) ==
    LET t == Trans(SpecOf(old), new) IN
    CASE t = "appear"     -> {InitCB(x, new, s)}
      [] t = "disappear"  -> {CloseCB(x, old)}
      [] t = "update"     -> {InheritCB(x, new, s, old)}
      [] t = "kindchange" -> {CloseCB(x, old), InitCB(x, new, s)}
      [] OTHER            -> {}

NextLive(old, new, s) ==
    IF new = None THEN NoInst
    ELSE IF SpecOf(old) = new THEN old
    ELSE [k |-> new.k, v |-> new.v, born |-> s]

AllObl(live, new, s) == UNION {Obl(x, live[x], new[x], s) : x \in Names}

Creates(c) == c.op \in {"init", "inherit"}

(* a callback may happen iff it is an open obligation and the instance it ends has been created *)
Allowed(cb) ==
    /\ cb \in pend
    /\ cb.op = "inherit" =>
          ~\E c \in pend : Creates(c) /\ c.name = cb.name /\ c.born = cb.pborn
    /\ cb.op = "close" =>
          ~\E c \in pend : Creates(c) /\ c.name = cb.name /\ c.born = cb.born

CInitWith(up) ==
    /\ snap = [x \in Names |-> None]
    /\ clive = [x \in Names |-> NoInst]
    /\ step = 0 /\ pend = {} /\ done = {}
    /\ begun = [g \in Groups |-> up]
    /\ since = [x \in Names |-> 0]
CInit   == CInitWith(FALSE)     \* the system is starting
CInitUp == CInitWith(TRUE)      \* the system is up before the first snapshot arrives

(* a new snapshot arrives (the previous ones need not have been reconciled yet) *)
CSnapshot(s) ==
    LET eff == [x \in Names |-> Eff(s[x])] IN
    /\ step' = step + 1
    /\ snap' = s
    /\ since' = [x \in Names |-> IF s[x] # snap[x] THEN step + 1 ELSE since[x]]
    /\ pend' = pend \cup AllObl(clive, eff, step + 1)
    /\ clive' = [x \in Names |-> NextLive(clive[x], eff[x], step + 1)]
    /\ UNCHANGED <<done, begun>>

(* the reconciliation of group g begins, with the latest snapshot: its objects are initialised *)
BeginNames(g) == {x \in Names : snap[x] # None /\ GroupOf(snap[x].k) = g}
CBegin(g) ==
    /\ ~begun[g]
    /\ begun' = [begun EXCEPT ![g] = TRUE]
    /\ pend' = pend \cup {InitCB(x, snap[x], since[x]) : x \in BeginNames(g)}
    /\ clive' = [x \in Names |-> IF x \in BeginNames(g)
                                  THEN [k |-> snap[x].k, v |-> snap[x].v, born |-> since[x]] ELSE clive[x]]
    /\ UNCHANGED <<snap, step, done, since>>

CCallback(cb) ==
    /\ Allowed(cb)
    /\ pend' = pend \ {cb}
    /\ done' = done \cup {cb}
    /\ UNCHANGED <<snap, clive, step, begun, since>>

CNext ==
    \/ (step < MaxSnaps /\ \E s \in Snapshots : CSnapshot(s))
    \/ \E cb \in pend : CCallback(cb)
    \/ \E g \in Groups : CBegin(g)

CSpec == CInit /\ [][CNext]_cvars

-----------------------------------------------------------------------------
(* The clauses of C20 as theorems of the contract.                                              *)

CTypeOK ==
    /\ snap \in Snapshots
    /\ \A x \in Names : clive[x] = NoInst \/ (SpecOf(clive[x]) \in ObjSpecs /\ clive[x].born \in 1..step)
    /\ step \in 0..MaxSnaps
    /\ begun \in [Groups -> BOOLEAN]
    /\ \A x \in Names : since[x] \in 0..step /\ (snap[x] # None => since[x] >= 1)

(* "the set of live objects equals the latest applied snapshot" - of the groups that have begun, which
   are all groups once the system is up *)
LiveIsSnapshot == \A x \in Names : SpecOf(clive[x]) = Eff(snap[x])

All == pend \cup done
Of(x) == {c \in All : c.name = x}             \* the callbacks (open or made) of one name
CreationsIn(S, b) == {c \in S : Creates(c) /\ c.born = b}
EndingsIn(S, b)   == {c \in S : (c.op = "close" /\ c.born = b) \/ (c.op = "inherit" /\ c.pborn = b)}
CreationsOf(x, b) == CreationsIn(Of(x), b)
EndingsOf(x, b)   == EndingsIn(Of(x), b)

(* exactly once: over the whole history every instance is created by exactly one call, ended by at
   most one call (Close, or Inherit of its successor), never both pending and done, and the live
   instance of a name is the one that was created and not ended.  (Evaluated name by name: trace
   validation evaluates it on every observed state of histories with hundreds of callbacks.) *)
ExactlyOnce ==
    /\ pend \cap done = {}
    /\ \A x \in Names :
         LET S == Of(x)
             alive == {c \in S : Creates(c) /\ EndingsIn(S, c.born) = {}}
         IN
         /\ \A c \in S :
              /\ Creates(c) => Cardinality(CreationsIn(S, c.born)) = 1
              /\ Cardinality(EndingsIn(S, c.born)) <= 1
              /\ c.op = "close" => Cardinality(CreationsIn(S, c.born)) = 1      \* only initialised instances are closed
              /\ c.op = "inherit" => Cardinality(CreationsIn(S, c.pborn)) = 1   \* predecessor was a real instance
         /\ IF clive[x] = NoInst THEN alive = {}
            ELSE \E c \in alive : alive = {c} /\ c.born = clive[x].born /\ c.k = clive[x].k /\ c.v = clive[x].v

(* an ending is discharged only after the creation of the instance it ends *)
CreatedBeforeEnded ==
    \A x \in Names :
      LET S == Of(x) IN
      \A c \in S \cap done : (c.op = "close" => CreationsIn(S, c.born) \subseteq done)
                          /\ (c.op = "inherit" => CreationsIn(S, c.pborn) \subseteq done)

(* the per-snapshot clauses, as an action property on snapshot steps *)
NewObl(x) == {c \in pend' \ pend : c.name = x}
SnapshotClauses ==
    step' = step + 1 =>
      \A x \in Names :
        (* (Eff: while the system starts, the objects of a group that has not begun do not count) *)
        LET old == Eff(snap[x]) new == Eff(snap'[x]) t == Trans(old, new) n == NewObl(x) IN
        /\ t = "appear"     => \E c \in n : n = {c} /\ c.op = "init" /\ SpecOf(c) = new /\ c.born = step'
        /\ t = "update"     => \E c \in n : n = {c} /\ c.op = "inherit" /\ SpecOf(c) = new /\ c.born = step'
                                            /\ c.pborn = clive[x].born /\ c.pk = clive[x].k /\ c.pv = clive[x].v
        /\ t = "disappear"  => \E c \in n : n = {c} /\ c.op = "close" /\ c.born = clive[x].born /\ SpecOf(c) = old
        /\ t \in {"unchanged", "absent"} => n = {} /\ clive'[x] = clive[x]
        /\ t = "kindchange" => \E c, d \in n : n = {c, d} /\ c.op = "close" /\ c.born = clive[x].born
                                            /\ d.op = "init" /\ SpecOf(d) = new /\ d.born = step'
(* a group begins: exactly its objects of the latest snapshot are initialised, nothing else happens *)
BeginClauses ==
    (\E h \in Groups : ~begun[h] /\ begun'[h]) =>
      \E g \in Groups :
        /\ ~begun[g] /\ begun' = [begun EXCEPT ![g] = TRUE] /\ snap' = snap /\ step' = step
        /\ \A x \in Names :
             LET n == NewObl(x) IN
             IF snap[x] # None /\ GroupOf(snap[x].k) = g
             THEN clive[x] = NoInst /\ \E c \in n : n = {c} /\ c.op = "init" /\ SpecOf(c) = snap[x]
                                                   /\ SpecOf(clive'[x]) = snap[x] /\ clive'[x].born = c.born
             ELSE n = {} /\ clive'[x] = clive[x]
PerSnapshot == [][SnapshotClauses /\ BeginClauses]_cvars

(* obligations only disappear by being discharged, one at a time *)
Discharge == [][step' = step /\ begun' = begun => \E c \in pend : pend' = pend \ {c} /\ done' = done \cup {c}]_cvars
=============================================================================

--------------------------- MODULE LifecycleApply ---------------------------
(* C20.  Implementation-shaped layer of the second way objects are reconciled with a            *)
(* configuration: the Apply path of the TrafficController                                        *)
(* (pkg/object/trafficcontroller/trafficcontroller.go).                                          *)
(*                                                                                              *)
(* RawConfigTrafficController turns the registry's events into Create / Update / Delete calls    *)
(* (that path is LifecycleImpl, watcher "rctc").  Every other owner of traffic objects (mesh     *)
(* ingress / sidecar, ingress controller, function controller, ...) keeps the traffic gates and  *)
(* pipelines of its own namespace in line with *its* desired configuration by calling            *)
(*                                                                                              *)
(*   ApplyTrafficGate / ApplyPipeline (namespace, entity)   for every object it wants            *)
(*   DeleteTrafficGate / DeletePipeline (namespace, name)   for every object it no longer wants  *)
(*   Clean(namespace)                                       when it wants none any more          *)
(*                                                                                              *)
(* and it is the TrafficController that decides between Init, Inherit and nothing:               *)
(*                                                                                              *)
(*   Apply:   prev, exists := map.Load(name)                                                     *)
(*            !exists                  -> entity.InitWithRecovery;           map.Store(entity)   *)
(*            prev.Spec = entity.Spec  -> nothing                                                *)
(*            otherwise                -> entity.InheritWithRecovery(prev);  map.Store(entity)   *)
(*   Delete:  entity, exists := map.LoadAndDelete(name); exists -> entity.CloseWithRecovery      *)
(*   Clean:   CloseWithRecovery + Delete of every entry of both maps (here: the Deletes one by   *)
(*            one; all of it happens under tc.mutex)                                             *)
(*                                                                                              *)
(* The owner is modelled as the least a caller does: on a new desired configuration (a snapshot; *)
(* it reconciles one snapshot completely before it looks at the next one) it issues, in any      *)
(* order, Apply for every name of the snapshot - changed or not - and Delete for every name that *)
(* is gone; a name that moves between the two maps (traffic gate <-> pipeline: a change of kind) *)
(* is a Delete in the one and an Apply in the other.                                             *)
(*                                                                                              *)
(* Every callback is checked against the contract (Lifecycle) exactly as in LifecycleImpl.       *)
(* StoreOnInherit = TRUE is the code.  FALSE is the shape in which the Inherit branch does not   *)
(* store the new generation (e.g. a LoadOrStore that only stores when the name is new): the map  *)
(* keeps the first generation for ever, the next change inherits from a generation that is not   *)
(* the live one and Delete closes it instead of the live one: TLC rejects it (three snapshots).  *)
EXTENDS Lifecycle, TLC

CONSTANTS StoreOnInherit

AStoreOf(k) == IF k \in PipeKinds THEN "pipe" ELSE "gate"
AStores == {"gate", "pipe"}

NoMap == [x \in Names |-> NoInst]

VARIABLES tstore,   \* "gate": Namespace.trafficGates, "pipe": Namespace.pipelines: name -> entity [k, v, born]
          calls,    \* the calls the owner still has to make for the snapshot it is reconciling
          bad,      \* a callback was made that the contract does not allow
          badcb     \* which one (observation)

NameSym == Permutations(Names)

avars == <<tstore, calls, bad, badcb>>
vars == <<cvars, avars>>
aview == <<snap, clive, step, pend, begun, since, tstore, calls, bad>>

AInit ==
    /\ CInitUp
    /\ tstore = [s \in AStores |-> NoMap]
    /\ calls = {}
    /\ bad = FALSE /\ badcb = [op |-> "none"]

ApplyCall(x, s, b) == [c |-> "apply", name |-> x, st |-> AStoreOf(s.k), k |-> s.k, v |-> s.v, born |-> b]
DeleteCall(x, s)   == [c |-> "delete", name |-> x, st |-> AStoreOf(s.k), k |-> "none", v |-> 0, born |-> 0]

(* the owner gets a new desired configuration *)
Desired(s) ==
    /\ calls = {}
    /\ calls' = UNION {
           (IF s[x] # None THEN {ApplyCall(x, s[x], step + 1)} ELSE {})
           \cup (IF snap[x] # None /\ (s[x] = None \/ AStoreOf(s[x].k) # AStoreOf(snap[x].k))
                 THEN {DeleteCall(x, snap[x])} ELSE {}) : x \in Names}
    /\ CSnapshot(s)
    /\ UNCHANGED <<tstore, bad, badcb>>

Call(cb) ==
    /\ IF Allowed(cb)
       THEN pend' = pend \ {cb} /\ done' = done \cup {cb} /\ UNCHANGED <<bad, badcb>>
       ELSE bad' = TRUE /\ badcb' = cb /\ UNCHANGED <<pend, done>>
    /\ UNCHANGED <<snap, clive, step, begun, since>>
NoCall == UNCHANGED <<cvars, bad, badcb>>

DoApply(c) ==
    /\ c \in calls /\ c.c = "apply"
    /\ calls' = calls \ {c}
    /\ LET x == c.name
           e == [k |-> c.k, v |-> c.v, born |-> c.born]
           prev == tstore[c.st][x]
       IN
       IF prev = NoInst
       THEN Call(InitCB(x, e, e.born)) /\ tstore' = [tstore EXCEPT ![c.st][x] = e]
       ELSE IF SpecOf(prev) = SpecOf(e)
       THEN NoCall /\ UNCHANGED tstore
       ELSE /\ Call(InheritCB(x, e, e.born, prev))
            /\ tstore' = IF StoreOnInherit THEN [tstore EXCEPT ![c.st][x] = e] ELSE tstore

DoDelete(c) ==
    /\ c \in calls /\ c.c = "delete"
    /\ calls' = calls \ {c}
    /\ LET x == c.name
           victim == tstore[c.st][x]
       IN
       IF victim = NoInst
       THEN NoCall /\ UNCHANGED tstore                       \* "... not found"
       ELSE Call(CloseCB(x, victim)) /\ tstore' = [tstore EXCEPT ![c.st][x] = NoInst]

ANext ==
    \/ (step < MaxSnaps /\ \E s \in Snapshots : Desired(s))
    \/ \E c \in calls : DoApply(c) \/ DoDelete(c)

ASpec == AInit /\ [][ANext]_vars

-----------------------------------------------------------------------------
NoForbiddenCallback == ~bad

(* all calls made => every obligation discharged and the maps hold exactly the contract's live instances *)
Reconciled ==
    calls = {} =>
      /\ pend = {}
      /\ \A x \in Names, st \in AStores :
           tstore[st][x] = (IF clive[x] # NoInst /\ AStoreOf(clive[x].k) = st THEN clive[x] ELSE NoInst)
=============================================================================

---------------------------- MODULE LifecycleImpl ----------------------------
(* C20.  Implementation-shaped layer: the object registry, its watchers and the two event       *)
(* handlers, written the way pkg/supervisor and pkg/object/{rawconfig,}trafficcontroller are     *)
(* written, one action per critical section:                                                    *)
(*                                                                                              *)
(*   ApplyConfig(s)     ObjectRegistry.applyConfig under or.mutex: diff of the snapshot against  *)
(*                      `entities` into deleted / created / updated, then, per watcher, the      *)
(*                      filtered event is appended to the watcher's channel and the watcher's   *)
(*                      entity map is updated                        (pkg/supervisor/object.go) *)
(*   Start(w)           the handler goroutine of watcher w takes the next event from the channel *)
(*   HDelete/HCreate/HUpdate(w, x)                                                               *)
(*                      one iteration of the three loops of Supervisor.handleEvent ("sup") or    *)
(*                      RawConfigTrafficController.handleEvent -> TrafficController.Create/      *)
(*                      Update/Delete{TrafficGate,Pipeline} ("rctc"); the loops range over Go    *)
(*                      maps, so the order of the names inside one loop is arbitrary             *)
(*                                                                                              *)
(* Every callback the handlers make is checked against the contract (Lifecycle): it must be an  *)
(* allowed open obligation, and when everything is handled no obligation may be left and the    *)
(* stores of live objects must equal the contract's live set.                                   *)
(*                                                                                              *)
(* KindChangeIsUpdate = TRUE is the tree as originally pinned: applyConfig classified a name     *)
(* whose kind changed as *updated* (finding F18: TLC rejects it, and so did the real code).      *)
(* FALSE is the repaired diff (delete + create; "fix: object registry handles a change of kind   *)
(* as delete + create instead of update").                                                       *)
(* ChanCap is the buffer of a watcher's event channel (10 in the code).  applyConfig sends with  *)
(* a blocking `watcher.eventChan <- event` while holding the registry's mutex: when a watcher's  *)
(* handler is slow and its channel is full, the registry (and with it the intake of further      *)
(* snapshots) waits for room; modelled as ApplyConfig being disabled until every watcher that    *)
(* gets an event has room (the state in which some watchers already have their event and the     *)
(* registry waits for another one is not distinguished: the handlers do not depend on each       *)
(* other).  DropWhenFull = TRUE is the other shape such a send can take - a non-blocking send    *)
(* that gives up when the channel is full, after the registry's and the watcher's entity maps    *)
(* have moved on: the diff is never computed again, TLC rejects it (Reconciled).                 *)
(* Recover = TRUE is the pinned tree: Init/Inherit/CloseWithRecovery recover a panicking         *)
(* callback; FALSE models the loss of that recovery (the handler dies).                          *)
(*                                                                                              *)
(* Registration of a watcher (ObjectRegistry.NewWatcher) is an action of its own: the registry   *)
(* goroutine is started (`go or.run()`) before the supervisor registers its watcher, and the     *)
(* RawConfigTrafficController registers its watcher only when it is initialised as a system      *)
(* controller, so any number of snapshots may have been applied to the registry before a watcher *)
(* exists, and further ones may arrive at any moment of the registration.  NewWatcher            *)
(*   (1) filters the registry's entities into the watcher's entity map,                          *)
(*   (2) sends them as the first event (always, even if empty) and                               *)
(*   (3) adds the watcher to or.watchers.                                                        *)
(* AtomicRegister = TRUE is the code: (1)-(3) in one critical section of or.mutex (Register).    *)
(* FALSE is the shape in which (1)+(2) work on a copy taken under the lock and (3) happens later *)
(* (RegCopy, then RegDone): an applyConfig in between moves the registry on, the watcher, not    *)
(* yet in or.watchers, gets no event, and because only diffs against or.entities are ever sent   *)
(* the watcher never catches up: TLC rejects it (Reconciled / NoForbiddenCallback).              *)
(* In the contract the group of objects of a watcher begins (CBegin) when its watcher takes its  *)
(* view of the registry.                                                                         *)
EXTENDS Lifecycle, TLC

CONSTANTS Watchers,             \* subset of {"sup", "rctc"}
          MaxPanics,            \* bound on scripted panics
          KindChangeIsUpdate,
          Recover,
          ChanCap,              \* buffer of ObjectEntityWatcher.eventChan
          DropWhenFull,         \* FALSE: blocking send (the code); TRUE: non-blocking send that drops the event
          AtomicRegister,       \* TRUE: NewWatcher is one critical section (the code); FALSE: copy, then register later
          SkipEmpty             \* FALSE: ObjectRegistry.run applies every snapshot (the code); TRUE: it ignores a snapshot
                                \* without any object

StoreOf(k) == IF k \in BizKinds THEN "biz" ELSE IF k \in PipeKinds THEN "pipe" ELSE "gate"
Stores == {"biz", "gate", "pipe"}
(* FilterCategory(CategoryBusinessController) / FilterCategory(CategoryTrafficGate, CategoryPipeline) *)
Wants(w, k) == IF w = "sup" THEN k \in BizKinds ELSE k \notin BizKinds
GroupOfWatcher(w) == IF w = "sup" THEN "biz" ELSE "traf"

NoEnt == NoInst      \* an ObjectEntity is [k, v, born]: spec + the instance created with it
NoMap == [x \in Names |-> NoEnt]
NoEvent == [on |-> FALSE, del |-> NoMap, cre |-> NoMap, upd |-> NoMap, pan |-> {}]

VARIABLES entities,   \* ObjectRegistry.entities
          wents,      \* watcher -> ObjectEntityWatcher.entities
          queue,      \* watcher -> eventChan
          cur,        \* watcher -> event being handled (on = FALSE: none)
          store,      \* "biz": Supervisor.businessControllers; "gate"/"pipe": Namespace.trafficGates/.pipelines
          reg,        \* watcher -> "no": not created; "copied": has its first view, not in or.watchers; "yes": in or.watchers
          dead,       \* watcher -> its goroutine died of an unrecovered panic
          npanic,     \* scripted panics used
          bad,        \* a callback was made that the contract does not allow
          badcb       \* which one (observation)

NameSym == Permutations(Names)     \* the names are interchangeable (SYMMETRY in the MC configs)

ivars == <<entities, wents, queue, cur, store, reg, dead, npanic, bad, badcb>>
vars == <<cvars, ivars>>
view == <<snap, clive, step, pend, begun, since, entities, wents, queue, cur, store, reg, dead, npanic, bad>>

IInit ==
    /\ CInit
    /\ entities = NoMap
    /\ wents = [w \in Watchers |-> NoMap]
    /\ queue = [w \in Watchers |-> <<>>]
    /\ cur = [w \in Watchers |-> NoEvent]
    /\ store = [s \in Stores |-> NoMap]
    /\ reg = [w \in Watchers |-> "no"]
    /\ dead = [w \in Watchers |-> FALSE]
    /\ npanic = 0 /\ bad = FALSE /\ badcb = [op |-> "none"]

(* ---- ObjectRegistry.run: `case kv := <-or.configSyncChan` ---- *)
(* The registry goroutine hands every map it receives to applyConfig - also the map without any   *)
(* entry: the configuration in which the last objects have disappeared is a snapshot like every   *)
(* other.  SkipEmpty = TRUE is the shape in which such a map is taken for "nothing was pulled" and *)
(* ignored: no delete event is ever sent for the last objects, and because or.entities stays as   *)
(* it is, the same names coming back with the same spec count as unchanged: TLC rejects it.       *)
Ignored(s, pan) ==
    /\ SkipEmpty /\ s = [x \in Names |-> None]
    /\ npanic' = npanic + Cardinality(pan)
    /\ CSnapshot(s)
    /\ UNCHANGED <<entities, wents, queue, cur, store, reg, dead, bad, badcb>>

(* ---- ObjectRegistry.applyConfig ---- *)
ApplyConfig(s, pan) ==
    LET nb       == step + 1
        NewEnt(x) == [k |-> s[x].k, v |-> s[x].v, born |-> nb]
        gone     == {x \in Names : entities[x] # NoEnt /\ s[x] = None}
        changed  == {x \in Names : s[x] # None /\ SpecOf(entities[x]) # s[x]}     \* !exists || !Equals
        swapped  == {x \in changed : entities[x] # NoEnt /\ entities[x].k # s[x].k}
        asUpdate == {x \in changed : entities[x] # NoEnt /\ (KindChangeIsUpdate \/ x \notin swapped)}
        asCreate == changed \ asUpdate
        asDelete == gone \cup (IF KindChangeIsUpdate THEN {} ELSE swapped)
        Ev == [w \in Watchers |->
               IF reg[w] # "yes" THEN NoEvent ELSE          \* `for _, watcher := range or.watchers`
                 [on  |-> TRUE,
                  del |-> [x \in Names |-> IF x \in asDelete /\ Wants(w, entities[x].k) THEN entities[x] ELSE NoEnt],
                  cre |-> [x \in Names |-> IF x \in asCreate /\ Wants(w, s[x].k) THEN NewEnt(x) ELSE NoEnt],
                  upd |-> [x \in Names |-> IF x \in asUpdate /\ Wants(w, s[x].k) THEN NewEnt(x) ELSE NoEnt],
                  pan |-> pan]]
        Empty(e) == e.del = NoMap /\ e.cre = NoMap /\ e.upd = NoMap
        Full(w)  == Len(queue[w]) >= ChanCap
    IN
    /\ ~(SkipEmpty /\ s = [x \in Names |-> None])
    (* blocking send: the registry gets on only when every watcher that is sent an event has room *)
    /\ DropWhenFull \/ \A w \in Watchers : Empty(Ev[w]) \/ ~Full(w)
    /\ entities' = [x \in Names |-> IF x \in gone THEN NoEnt ELSE IF x \in changed THEN NewEnt(x) ELSE entities[x]]
    (* per watcher: deleted, then created, then updated names are applied to watcher.entities *)
    /\ wents' = [w \in Watchers |-> [x \in Names |->
                     IF reg[w] # "yes" THEN wents[w][x]
                     ELSE IF Ev[w].cre[x] # NoEnt THEN Ev[w].cre[x]
                     ELSE IF Ev[w].upd[x] # NoEnt THEN Ev[w].upd[x]
                     ELSE IF Ev[w].del[x] # NoEnt THEN NoEnt
                     ELSE wents[w][x]]]
    (* `if len(Delete)+len(Create)+len(Update) > 0 { watcher.eventChan <- event }` *)
    /\ queue' = [w \in Watchers |-> IF Empty(Ev[w]) \/ (DropWhenFull /\ Full(w)) THEN queue[w] ELSE Append(queue[w], Ev[w])]
    /\ npanic' = npanic + Cardinality(pan)
    /\ CSnapshot(s)                                   \* the contract takes note of the snapshot
    /\ UNCHANGED <<cur, store, reg, dead, bad, badcb>>

(* ---- ObjectRegistry.NewWatcher ---- *)
FirstView(w) == [x \in Names |-> IF entities[x] # NoEnt /\ Wants(w, entities[x].k) THEN entities[x] ELSE NoEnt]
FirstEvent(w) == [on |-> TRUE, del |-> NoMap, cre |-> FirstView(w), upd |-> NoMap, pan |-> {}]
TakeView(w, r) ==
    /\ reg[w] = "no"
    /\ reg' = [reg EXCEPT ![w] = r]
    /\ wents' = [wents EXCEPT ![w] = FirstView(w)]
    /\ queue' = [queue EXCEPT ![w] = <<FirstEvent(w)>>]      \* a fresh channel: the send never waits
    /\ CBegin(GroupOfWatcher(w))                           \* (the first event's entities were born at since[x])
    /\ UNCHANGED <<entities, cur, store, dead, npanic, bad, badcb>>
Register(w) == AtomicRegister /\ TakeView(w, "yes")
RegCopy(w)  == ~AtomicRegister /\ TakeView(w, "copied")
RegDone(w)  ==
    /\ reg[w] = "copied"
    /\ reg' = [reg EXCEPT ![w] = "yes"]
    /\ UNCHANGED <<cvars, entities, wents, queue, cur, store, dead, npanic, bad, badcb>>

(* ---- the handlers ---- *)
(* (an event without entries - only the first event of a watcher can be one - is handled by doing nothing) *)
Start(w) ==
    /\ ~dead[w] /\ ~cur[w].on /\ queue[w] # <<>>
    /\ LET e == Head(queue[w]) IN
       cur' = [cur EXCEPT ![w] = IF e.del = NoMap /\ e.cre = NoMap /\ e.upd = NoMap THEN NoEvent ELSE e]
    /\ queue' = [queue EXCEPT ![w] = Tail(@)]
    /\ UNCHANGED <<cvars, entities, wents, store, reg, dead, npanic, bad, badcb>>

(* a callback is made: compare with the contract; `p`: the callback panics *)
Call(cb, p) ==
    /\ IF Allowed(cb)
       THEN pend' = pend \ {cb} /\ done' = done \cup {cb} /\ UNCHANGED <<bad, badcb>>
       ELSE bad' = TRUE /\ badcb' = cb /\ UNCHANGED <<pend, done>>
    /\ UNCHANGED <<snap, clive, step, begun, since>>
NoCall == UNCHANGED <<cvars, bad, badcb>>

(* remove item x of loop `f` from the current event; the goroutine is free again when all is done *)
Consumed(w, f, x) ==
    LET e == [cur[w] EXCEPT ![f][x] = NoEnt] IN
    IF e.del = NoMap /\ e.cre = NoMap /\ e.upd = NoMap THEN NoEvent ELSE e

Dies(w, x) == x \in cur[w].pan /\ ~Recover

Step(w, f, x, cb, called, newStoreVal, st) ==
    IF called /\ Dies(w, x)
    THEN (* unrecovered panic: the process is gone; nothing after the call happens *)
         /\ Call(cb, TRUE)
         /\ dead' = [v \in Watchers |-> TRUE]
         /\ UNCHANGED <<cur, store, entities, wents, queue, reg, npanic>>
    ELSE /\ (IF called THEN Call(cb, x \in cur[w].pan) ELSE NoCall)
         /\ store' = (IF called THEN [store EXCEPT ![st][x] = newStoreVal] ELSE store)
         /\ cur' = [cur EXCEPT ![w] = Consumed(w, f, x)]
         /\ UNCHANGED <<dead, entities, wents, queue, reg, npanic>>

(* for name := range event.Delete: LoadAndDelete; missing -> "BUG"/error, continue; CloseWithRecovery *)
HDelete(w, x) ==
    /\ ~dead[w] /\ cur[w].on /\ cur[w].del[x] # NoEnt
    /\ LET st == StoreOf(cur[w].del[x].k)
           victim == store[st][x]
       IN Step(w, "del", x, CloseCB(x, victim), victim # NoEnt, NoEnt, st)

(* for name, entity := range event.Create: the supervisor skips a name that is already stored
   ("BUG: create already existed"); the traffic controller stores over it; InitWithRecovery; Store *)
HCreate(w, x) ==
    /\ ~dead[w] /\ cur[w].on /\ cur[w].del = NoMap /\ cur[w].cre[x] # NoEnt
    /\ LET e == cur[w].cre[x]
           st == StoreOf(e.k)
           skip == w = "sup" /\ store[st][x] # NoEnt
       IN Step(w, "cre", x, InitCB(x, e, e.born), ~skip, e, st)

(* for name, entity := range event.Update: Load; missing -> "BUG"/error, continue;
   InheritWithRecovery(previous); Store.  The store is chosen by the kind of the *new* entity. *)
HUpdate(w, x) ==
    /\ ~dead[w] /\ cur[w].on /\ cur[w].del = NoMap /\ cur[w].cre = NoMap /\ cur[w].upd[x] # NoEnt
    /\ LET e == cur[w].upd[x]
           st == StoreOf(e.k)
           prev == store[st][x]
       IN Step(w, "upd", x, InheritCB(x, e, e.born, prev), prev # NoEnt, e, st)

(* scripted panics: the callbacks made for these names while handling this snapshot's events panic.
   Only names for which the snapshot causes a callback at all are worth choosing. *)
PanSets(s) == {p \in SUBSET {x \in Names : Trans(snap[x], s[x]) \notin {"absent", "unchanged"}} :
                  Cardinality(p) + npanic <= MaxPanics}

INext ==
    \/ (step < MaxSnaps /\ \E s \in Snapshots : \E pan \in PanSets(s) : ApplyConfig(s, pan) \/ Ignored(s, pan))
    \/ \E w \in Watchers : Register(w) \/ RegCopy(w) \/ RegDone(w)
    \/ \E w \in Watchers : Start(w)
    \/ \E w \in Watchers, x \in Names : HDelete(w, x) \/ HCreate(w, x) \/ HUpdate(w, x)

ISpec == IInit /\ [][INext]_vars

-----------------------------------------------------------------------------
(* refinement of the contract *)

NoForbiddenCallback == ~bad

(* (a watcher that is being registered is not at rest) *)
Quiescent == \A w \in Watchers : queue[w] = <<>> /\ ~cur[w].on /\ reg[w] # "copied"

(* everything handled => every obligation discharged and live objects = latest snapshot *)
Reconciled ==
    Quiescent =>
      /\ pend = {}
      /\ \A x \in Names, st \in Stores :
           store[st][x] = (IF clive[x] # NoInst /\ StoreOf(clive[x].k) = st THEN clive[x] ELSE NoEnt)

(* a panicking callback never stops a handler *)
NobodyDies == \A w \in Watchers : ~dead[w]

(* design invariants of the registry (not part of C20's text; they hold for the repaired diff) *)
RegistryIsSnapshot == \A x \in Names : SpecOf(entities[x]) = snap[x]
WatcherViews ==
    \A w \in Watchers, x \in Names :
        reg[w] = "yes" =>
        wents[w][x] = (IF entities[x] # NoEnt /\ Wants(w, entities[x].k) THEN entities[x] ELSE NoEnt)
=============================================================================

--------------------------- MODULE Lifecycle_Gen ---------------------------
(* Behaviour generator for C20: all sequences of at most MaxSnaps snapshots (with scripted       *)
(* panics), each step annotated with what the contract (Lifecycle) predicts for a lock-step run: *)
(* the set of callbacks the snapshot must cause, the live set afterwards and, per name, the kind *)
(* of transition.  `out` is the JSON text of the whole history, so that `tlc -dump` exports every *)
(* sequence (the model is tiny) and `tlc -simulate` samples longer ones.                          *)
(*                                                                                              *)
(* Names are interchangeable, so only sequences whose per-name columns are sorted               *)
(* lexicographically (in the order NameSeq) are generated: exactly one representative of every   *)
(* orbit under renaming.                                                                         *)
(*                                                                                              *)
(* The snapshot without any object is a snapshot like every other (Snapshots contains it); since *)
(* it is one of 25 .. 125 it is rare in short exhaustive families, so EmptyAt pins it to chosen   *)
(* positions: e.g. all sequences  s1, {}, s3  and  s1, s2, {}, s4.                                *)
EXTENDS Lifecycle, Json, TLC

CONSTANTS NameSeq,      \* the names, as a sequence (order used for the canonical form)
          KindSeq,      \* the kinds, as a sequence
          MaxPanics,    \* bound on the number of (step, name) panic marks in a sequence
          Canonical,    \* TRUE: canonical sequences only (exhaustive dump); FALSE: any (simulation)
          EmptyAt       \* numbers of the snapshots that are the EMPTY configuration (no object at all):
                        \* families of sequences that pass through the empty configuration

VARIABLES hist, out

gvars == <<cvars, hist, out>>

Names1 == <<"a">>
Names2 == <<"a", "b">>
Names3 == <<"a", "b", "c">>
Names4 == <<"a", "b", "c", "d">>
SupKinds == <<"K1", "K2">>               \* two business-controller kinds
TrafKinds == <<"K1", "G1", "P1">>        \* business controller, traffic-gate category, pipeline category
TrafKinds4 == <<"K1", "K2", "G1", "P1">>
OneKind == <<"K1">>
GateOnly == <<"G1">>
ApplyKinds == <<"G1", "P1">>             \* the TrafficController's Apply path: traffic objects only

ASSUME {NameSeq[i] : i \in 1..Len(NameSeq)} = Names
ASSUME {KindSeq[i] : i \in 1..Len(KindSeq)} = Kinds

KindIdx(k) == CHOOSE i \in 1..Len(KindSeq) : KindSeq[i] = k
SpecCode(s) == IF s = None THEN 0 ELSE KindIdx(s.k) * 100 + s.v
Code(rec, x) == 2 * SpecCode(rec.snap[x]) + (IF x \in rec.pan THEN 1 ELSE 0)
Column(h, x) == [j \in 1..Len(h) |-> Code(h[j], x)]

LexLeq(u, v) == \/ u = v
                \/ \E i \in 1..Len(u) : (\A j \in 1..(i - 1) : u[j] = v[j]) /\ u[i] < v[i]

Canon(h) == \A i \in 1..(Len(NameSeq) - 1) : LexLeq(Column(h, NameSeq[i]), Column(h, NameSeq[i + 1]))

Marks(h) == LET RECURSIVE Sum(_)
                Sum(j) == IF j = 0 THEN 0 ELSE Cardinality(h[j].pan) + Sum(j - 1)
            IN Sum(Len(h))

(* panics are only scripted for names for which the snapshot causes a callback *)
PanChoices(s) ==
    {p \in SUBSET {x \in Names : Trans(snap[x], s[x]) \notin {"absent", "unchanged"}} :
        Cardinality(p) + Marks(hist) <= MaxPanics}

(* lock-step replays start from a system that is up (start-up histories are judged by trace validation) *)
GInit == CInitUp /\ hist = <<>> /\ out = "[]"

(* one snapshot, reconciled completely before the next one (lock-step) *)
GStep(s, pan) ==
    LET n == step + 1
        rec == [snap  |-> s,
                pan   |-> pan,
                exp   |-> AllObl(clive, s, n),
                live  |-> [x \in Names |-> NextLive(clive[x], s[x], n)],
                trans |-> [x \in Names |-> Trans(snap[x], s[x])]]
    IN
    /\ n \in EmptyAt => s = [x \in Names |-> None]
    /\ hist' = Append(hist, rec)
    /\ Canonical => Canon(hist')
    /\ snap' = s /\ step' = n
    /\ clive' = rec.live
    /\ since' = [x \in Names |-> IF s[x] # snap[x] THEN n ELSE since[x]]
    /\ UNCHANGED <<pend, done, begun>>
    /\ out' = ToJson(hist')

GNext == step < MaxSnaps /\ \E s \in Snapshots : \E pan \in PanChoices(s) : GStep(s, pan)

GSpec == GInit /\ [][GNext]_gvars

(* for `tlc -simulate`: one random snapshot per step instead of the enumeration of all successors *)
GNextSim == step < MaxSnaps /\ LET s == RandomElement(Snapshots) IN \E pan \in PanChoices(s) : GStep(s, pan)
GSimSpec == GInit /\ [][GNextSim]_gvars
=============================================================================

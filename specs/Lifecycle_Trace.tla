-------------------------- MODULE Lifecycle_Trace --------------------------
(* Trace validation for C20: a history recorded from a real Supervisor (snapshots pushed through *)
(* the mocked syncer channel, every Init/Inherit/Close call of the test-only kinds, the live set *)
(* at quiescent points) must be a behaviour of the contract (Lifecycle):                         *)
(*                                                                                              *)
(*   snap    a snapshot was handed to the object registry           -> CSnapshot                 *)
(*   cb      a callback ran (op, name, kind, version, id of the Go instance, id of the           *)
(*           predecessor for Inherit)                               -> CCallback of an allowed   *)
(*           obligation; instance ids are bound to the contract's instances on creation          *)
(*   quiet   all watchers have handled all events (barrier); the observed live objects           *)
(*                                                                  -> no obligation left,       *)
(*                                                                     live set = contract's     *)
(*   reset   a fresh supervisor is about to be started (nothing has begun)                       *)
(*   up      the supervisor is up (supervisor.MustNew has returned): both groups of objects have *)
(*           begun to be reconciled.  The snapshots logged between `reset` and `up` were handed   *)
(*           to the syncer channel while the supervisor was starting; the moment at which a      *)
(*           group begins (CBegin, a silent step) is searched by TLC                              *)
(*   note    (coverage only) what the harness did to the schedule of a start-up                   *)
(*   gate    (coverage only) end of a long burst of snapshots pushed while the handlers were     *)
(*           kept busy by slow / gated callbacks; nothing happens in the contract: however far   *)
(*           the reconciliation lags behind the snapshots, the obligations stay the same         *)
(*                                                                                              *)
(* The order of callbacks of different names is free, so is the order of Close(old)/Init(new)   *)
(* of a kind change; TLC searches the (small) choice of which obligation a callback discharges. *)
EXTENDS Lifecycle, Json, TLC, IOUtils

TLog == ndJsonDeserialize(IOEnv.VERIF_TRACE)

VARIABLES l,      \* next trace line
          bind    \* observed instance id -> [name, born] of the contract's instance

tvars == <<cvars, l, bind>>

IsEvent(e) == l <= Len(TLog) /\ TLog[l].ev = e /\ l' = l + 1

Ref(x, b) == [name |-> x, born |-> b]
Extend(id, r) == [i \in DOMAIN bind \cup {id} |-> IF i = id THEN r ELSE bind[i]]

TReset ==
    /\ IsEvent("reset")
    /\ snap' = [x \in Names |-> None] /\ clive' = [x \in Names |-> NoInst]
    /\ step' = 0 /\ pend' = {} /\ done' = {}
    /\ begun' = [g \in Groups |-> FALSE] /\ since' = [x \in Names |-> 0]
    /\ bind' = <<>>

TSnap ==
    /\ IsEvent("snap")
    /\ CSnapshot([x \in Names |-> [k |-> TLog[l].snap[x].k, v |-> TLog[l].snap[x].v]])
    /\ UNCHANGED bind

TCb ==
    /\ IsEvent("cb")
    /\ LET e == TLog[l] IN
       \E cb \in pend :
         /\ cb.op = e.op /\ cb.name = e.name /\ cb.k = e.k /\ cb.v = e.v
         /\ CCallback(cb)
         /\ CASE e.op = "init" ->
                   /\ e.id \notin DOMAIN bind
                   /\ bind' = Extend(e.id, Ref(e.name, cb.born))
              [] e.op = "inherit" ->
                   /\ e.id \notin DOMAIN bind
                   /\ e.pid \in DOMAIN bind /\ bind[e.pid] = Ref(e.name, cb.pborn)
                   /\ bind' = Extend(e.id, Ref(e.name, cb.born))
              [] e.op = "close" ->
                   /\ e.id \in DOMAIN bind /\ bind[e.id] = Ref(e.name, cb.born)
                   /\ UNCHANGED bind

TQuiet ==
    /\ IsEvent("quiet")
    /\ Up /\ pend = {}
    /\ \A x \in Names :
         LET o == TLog[l].live[x] IN
         /\ o.k = clive[x].k /\ o.v = clive[x].v
         /\ clive[x] # NoInst => (o.id \in DOMAIN bind /\ bind[o.id] = Ref(x, clive[x].born))
    /\ UNCHANGED <<cvars, bind>>

TGate == (IsEvent("gate") \/ IsEvent("note")) /\ UNCHANGED <<cvars, bind>>

(* start-up: a group begins at some moment before the supervisor is up *)
TBegin == /\ l <= Len(TLog) /\ TLog[l].ev # "reset"
          /\ \E g \in Groups : CBegin(g)
          /\ UNCHANGED <<l, bind>>

TUp == IsEvent("up") /\ Up /\ UNCHANGED <<cvars, bind>>

TNext == TReset \/ TSnap \/ TCb \/ TQuiet \/ TGate \/ TBegin \/ TUp

TInit == CInit /\ l = 1 /\ bind = <<>>

TSpec == TInit /\ [][TNext]_tvars

ASSUME TLCSet(1, 0)
HWM == TLCSet(1, IF l - 1 > TLCGet(1) THEN l - 1 ELSE TLCGet(1))
Accepted == /\ PrintT(<<"VERIF_HWM", TLCGet(1), Len(TLog)>>)
            /\ TLCGet(1) = Len(TLog)
=============================================================================

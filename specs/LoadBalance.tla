----------------------------- MODULE LoadBalance -----------------------------
(* C04.  Contract of easegress' proxy server pool as a load balancer                             *)
(* (pkg/filters/proxy/{loadbalance,pool,server}.go).                                             *)
(*                                                                                              *)
(* A pool has a policy, a static server list and (optionally) service discovery.  The *current  *)
(* list* is a generation: generation 1 is the static list; every report of service discovery    *)
(* (ServerPool.useService) starts a new generation consisting of the reported instances that    *)
(* carry one of the pool's tags, or of the static list again when none qualifies.  The code      *)
(* publishes a generation by one atomic.Value store (createLoadBalancer) - action Replace.       *)
(*                                                                                              *)
(* A selection (ServerPool.LoadBalancer().ChooseServer(req)) is two critical points in the code: *)
(* the atomic load of the balancer (Snap) and the choice inside that immutable balancer (Pick -  *)
(* for roundRobin the atomic fetch-and-add of the counter).  The contract keeps the two points   *)
(* so that "a server of the pool's current list" means: of a list that was current at some       *)
(* instant of the call.  Run by one caller, Snap;Pick is the atomic ChooseSeq.                    *)
(*                                                                                              *)
(* The contract says only what the property says; wherever the property leaves the choice open   *)
(* (which of the least-chosen servers round robin takes, which server a new key hashes to, the   *)
(* order of discovered instances) the contract is nondeterministic.                               *)
EXTENDS Integers, Sequences, FiniteSets

CONSTANTS Configs,    \* set of pool configurations to explore (records, see below)
          InstSets,   \* set of discovery reports: each a set of [id, w, t]  (t = carries a pool tag)
          Procs,      \* concurrent callers
          Keys,       \* request keys (client IPs / header values), abstract
          MaxSel,     \* bound on selections   (model checking only)
          MaxGen,     \* bound on generations  (model checking only)
          AgeBits,    \* a balancer may have served k0 = 2^b - d selections before it is observed:
          AgeD        \*   b \in AgeBits, d \in AgeD   (model checking / generation only)

(* configuration: [policy  : "roundRobin" | "random" | "weightedRandom" | "ipHash" | "headerHash" |
                             "any"   (policy left out: the property promises membership only),
                   static  : set of [id |-> string, w |-> weight],
                   disc    : BOOLEAN   (serviceRegistry + serviceName configured)]                *)

Policies == {"roundRobin", "random", "weightedRandom", "ipHash", "headerHash", "any"}
NIL  == "nil"     \* ChooseServer returned no server
NONE == "-"       \* key not yet seen in a generation

(* ServerPoolSpec.Validate: some server or a service; weights on all static servers or on none *)
Accepted(c) ==
    /\ c.policy \in Policies
    /\ (c.static # {} \/ c.disc)
    /\ \A s, t \in c.static : (s.id = t.id) => (s = t)
    /\ LET pos == {s \in c.static : s.w > 0} IN pos = {} \/ pos = c.static
    /\ \A s \in c.static : s.w >= 0

VARIABLES cfg,      \* the configuration (constant along a behaviour)
          gen,      \* number of the current generation
          lst,      \* lst[g]: server list of generation g, a set of [id, w]
          cnt,      \* cnt[g][id]: selections of id made in generation g
          sticky,   \* sticky[g][k]: server that key k was sent to in generation g, or NONE
          pc,       \* per caller: "idle" | "snap" | "pick" | "done"
          key,      \* per caller: key of the pending request
          sg,       \* per caller: generation seen by Snap
          res,      \* per caller: chosen server id, or NIL
          nsel,     \* selections so far (bounds the model)
          last      \* the step just taken (observation; not in the VIEW)

vars == <<cfg, gen, lst, cnt, sticky, pc, key, sg, res, nsel, last>>
view == <<cfg, gen, lst, cnt, sticky, pc, key, sg, res, nsel>>

Ids(l) == {s.id : s \in l}
WeightIn(l, id) == (CHOOSE s \in l : s.id = id).w
Tagged(I) == {[id |-> x.id, w |-> x.w] : x \in {y \in I : y.t}}
(* useService: tagged instances, falling back to the static list when none qualifies *)
NewList(I) == IF Tagged(I) = {} THEN cfg.static ELSE Tagged(I)

Zero(l) == [i \in Ids(l) |-> 0]
NoKeys  == [k \in Keys |-> NONE]

(* ---- the heart of the contract: what a selection in generation gg with key k may return ---- *)
Allowed(gg, k) ==
    LET l == lst[gg] IN
    IF l = {} THEN {NIL}                                   \* no server only for an empty list
    ELSE CASE cfg.policy = "roundRobin" ->                 \* a least-chosen server  (<=> floor/ceil fairness)
                {i \in Ids(l) : \A j \in Ids(l) : cnt[gg][i] <= cnt[gg][j]}
           [] cfg.policy \in {"ipHash", "headerHash"} ->   \* equal keys -> same server while the list is unchanged
                IF sticky[gg][k] = NONE THEN Ids(l) ELSE {sticky[gg][k]}
           [] cfg.policy = "weightedRandom" ->             \* never a zero weight server when some weight is positive
                IF \E s \in l : s.w > 0 THEN Ids({s \in l : s.w > 0}) ELSE Ids(l)
           [] OTHER -> Ids(l)                              \* random / unspecified: any member

(* effect of choosing r in generation gg for key k *)
Effect(gg, k, r) ==
    /\ cnt' = IF r = NIL THEN cnt ELSE [cnt EXCEPT ![gg][r] = @ + 1]
    /\ sticky' = IF r # NIL /\ cfg.policy \in {"ipHash", "headerHash"}
                 THEN [sticky EXCEPT ![gg][k] = r] ELSE sticky
    /\ nsel' = nsel + 1

Init ==
    /\ cfg \in Configs /\ Accepted(cfg)
    /\ gen = 1 /\ lst = <<cfg.static>> /\ cnt = <<Zero(cfg.static)>> /\ sticky = <<NoKeys>>
    /\ pc = [p \in Procs |-> "idle"] /\ key = [p \in Procs |-> CHOOSE k \in Keys : TRUE]
    /\ sg = [p \in Procs |-> 1] /\ res = [p \in Procs |-> NIL]
    /\ nsel = 0 /\ last = [a |-> "init"]

(* A discovery report replaces the balancer: one atomic store of a fresh one.  The report need not  *)
(* change the list: the registry may deliver the instances it delivered before, and every report    *)
(* without a qualifying instance ends in the static list.  "ipHash and headerHash send equal keys   *)
(* to the same server while the list is unchanged" speaks of the list, not of the balancer object    *)
(* built over it: when the rebuilt list is the current list over again (`same`), the keys keep       *)
(* their servers.  The contract's lists are sets (the order of discovered instances is the           *)
(* registry's business); `same` is the finer fact "the same servers in the same order" - the least   *)
(* that "unchanged" can mean - so it implies equal sets, and it is a fact of the environment for     *)
(* discovered lists (nondeterministic here, observed in a recorded trace), while the static list is   *)
(* the configured one each time it is fallen back to.  (Ids of static servers and of discovered       *)
(* instances are distinct in every configuration explored, so lst[gen] = cfg.static identifies a      *)
(* generation that is the static list.)  Round robin starts over in the new balancer: the fairness    *)
(* clause counts the selections of one balancer.                                                      *)
StaticAgain(I) == Tagged(I) = {} /\ lst[gen] = cfg.static

ReplaceAs(I, same) ==
    /\ cfg.disc /\ gen < MaxGen
    /\ same => NewList(I) = lst[gen]
    /\ StaticAgain(I) => same
    /\ gen' = gen + 1
    /\ lst' = Append(lst, NewList(I))
    /\ cnt' = Append(cnt, Zero(NewList(I)))
    /\ sticky' = Append(sticky, IF same THEN sticky[gen] ELSE NoKeys)
    /\ last' = [a |-> "rep", insts |-> I, n |-> Cardinality(NewList(I)), fb |-> (Tagged(I) = {}), same |-> same]
    /\ UNCHANGED <<cfg, pc, key, sg, res, nsel>>

Replace(I) == \E same \in BOOLEAN : ReplaceAs(I, same)

(* ---- a selection by a concurrent caller ---- *)
Inv(p, k) ==
    /\ pc[p] = "idle" /\ nsel + Cardinality({q \in Procs : pc[q] \in {"snap", "pick"}}) < MaxSel
    /\ pc' = [pc EXCEPT ![p] = "snap"] /\ key' = [key EXCEPT ![p] = k]
    /\ last' = [a |-> "inv", p |-> p, k |-> k]
    /\ UNCHANGED <<cfg, gen, lst, cnt, sticky, sg, res, nsel>>

Snap(p) ==                                        \* sp.loadBalancer.Load()
    /\ pc[p] = "snap"
    /\ sg' = [sg EXCEPT ![p] = gen] /\ pc' = [pc EXCEPT ![p] = "pick"]
    /\ last' = [a |-> "snap", p |-> p]
    /\ UNCHANGED <<cfg, gen, lst, cnt, sticky, key, res, nsel>>

PickWith(p, r) ==                                 \* lb.ChooseServer(req)
    /\ pc[p] = "pick" /\ r \in Allowed(sg[p], key[p])
    /\ Effect(sg[p], key[p], r)
    /\ res' = [res EXCEPT ![p] = r] /\ pc' = [pc EXCEPT ![p] = "done"]
    /\ last' = [a |-> "pick", p |-> p, r |-> r]
    /\ UNCHANGED <<cfg, gen, lst, key, sg>>

Pick(p) == \E r \in Allowed(sg[p], key[p]) : PickWith(p, r)

(* Snap and Pick in one step.  For deciding whether an observed concurrent history is allowed    *)
(* this is as permissive as the two separate points: a call whose Pick falls after the           *)
(* replacement that ended its generation can be moved, together with its Snap, to just before    *)
(* that replacement without changing the order of the picks inside the generation.               *)
ChooseAt(p, r) ==
    /\ pc[p] = "snap" /\ r \in Allowed(gen, key[p])
    /\ Effect(gen, key[p], r)
    /\ sg' = [sg EXCEPT ![p] = gen] /\ res' = [res EXCEPT ![p] = r] /\ pc' = [pc EXCEPT ![p] = "done"]
    /\ last' = [a |-> "pick", p |-> p, r |-> r]
    /\ UNCHANGED <<cfg, gen, lst, key>>

Ret(p) ==
    /\ pc[p] = "done" /\ pc' = [pc EXCEPT ![p] = "idle"]
    /\ last' = [a |-> "ret", p |-> p, r |-> res[p], g |-> sg[p]]
    /\ UNCHANGED <<cfg, gen, lst, cnt, sticky, key, sg, res, nsel>>

(* ---- a selection whose two points are far apart ---- *)
(* Hold = Inv;Snap in one step: a request has loaded the pool's balancer and has not chosen yet   *)
(* (doHandle is between sp.LoadBalancer() and .ChooseServer(req)).  Any number of replacements    *)
(* and of other callers' selections may follow before the request chooses.                         *)
Hold(p, k) ==
    /\ pc[p] = "idle" /\ nsel + Cardinality({q \in Procs : pc[q] \in {"snap", "pick"}}) < MaxSel
    /\ pc' = [pc EXCEPT ![p] = "pick"] /\ key' = [key EXCEPT ![p] = k] /\ sg' = [sg EXCEPT ![p] = gen]
    /\ last' = [a |-> "hold", p |-> p, k |-> k]
    /\ UNCHANGED <<cfg, gen, lst, cnt, sticky, res, nsel>>

(* The held request chooses and returns (Pick;Ret).  "A server of the pool's current list": of a   *)
(* list that was current at some instant of the call, i.e. of a generation gg between the one      *)
(* loaded and the one current now - and it fails for lack of a server only if that list is empty.  *)
(* (The code chooses in the balancer it loaded, gg = sg[p]; a pool that looked the list up again    *)
(* when choosing would keep the property as well.)                                                  *)
SpanGens(p, r) == {gg \in sg[p]..gen : r \in Allowed(gg, key[p])}
Least(S) == CHOOSE x \in S : \A y \in S : x <= y

HPickWith(p, r) ==
    /\ pc[p] = "pick" /\ SpanGens(p, r) # {}
    /\ LET gg == Least(SpanGens(p, r)) IN
         /\ Effect(gg, key[p], r)
         /\ sg' = [sg EXCEPT ![p] = gg]
         /\ last' = [a |-> "hpick", p |-> p, r |-> r, g |-> gg]
    /\ res' = [res EXCEPT ![p] = r] /\ pc' = [pc EXCEPT ![p] = "idle"]
    /\ UNCHANGED <<cfg, gen, lst, key>>

HPick(p) == \E r \in UNION {Allowed(gg, key[p]) : gg \in sg[p]..gen} : HPickWith(p, r)

(* ---- a balancer that has served selections before it is observed ---- *)
(* "After ANY number k of roundRobin selections": the clause also speaks of the selections that    *)
(* follow k0 earlier ones, for k0 as large as a long-lived pool reaches (2^32 is seven weeks at    *)
(* 1000 requests per second).  Age(b, d, E): the current generation's balancer has already made    *)
(* k0 = 2^b - d selections, fairly: every server floor(k0/n) times and the servers of E once more, *)
(* Cardinality(E) = k0 mod n.  The contract counts modulo whole rounds (subtracting floor(k0/n)    *)
(* from every count changes neither RRFair nor the set of least-chosen servers), so cnt becomes    *)
(* the indicator of E.  Which servers are in E is the balancer's business (its rotation order).     *)
RECURSIVE PowMod2(_, _)
PowMod2(b, n) == IF b = 0 THEN 1 % n ELSE (2 * PowMod2(b - 1, n)) % n
K0Mod(b, d, n) == (PowMod2(b, n) + n * d - d) % n          \* (2^b - d) mod n, for d <= 2^b

Age(b, d, E) ==
    /\ cfg.policy = "roundRobin" /\ lst[gen] # {} /\ cnt[gen] = Zero(lst[gen])
    /\ E \subseteq Ids(lst[gen]) /\ Cardinality(E) = K0Mod(b, d, Cardinality(lst[gen]))
    /\ cnt' = [cnt EXCEPT ![gen] = [i \in Ids(lst[gen]) |-> IF i \in E THEN 1 ELSE 0]]
    /\ last' = [a |-> "age", b |-> b, d |-> d]
    /\ UNCHANGED <<cfg, gen, lst, sticky, pc, key, sg, res, nsel>>

(* ---- the same selection made by a single caller: one atomic step ---- *)
ChooseSeq(k) ==
    /\ nsel < MaxSel /\ \A p \in Procs : pc[p] = "idle"
    /\ \E r \in Allowed(gen, k) :
          /\ Effect(gen, k, r)
          /\ last' = [a |-> "ch", k |-> k, r |-> r]
    /\ UNCHANGED <<cfg, gen, lst, pc, key, sg, res>>

(* ---- many selections at once ---- *)
(* P is a set of [k |-> key, id |-> server or NIL, c |-> how often]: the tally of a burst of           *)
(* selections, made by any number of concurrent callers between two quiescent instants with no      *)
(* replacement in between.  Batch(P) holds iff some order of that many Pick steps produces the       *)
(* tally: every linearisation of a round robin burst keeps RRFair, and every tally that is a         *)
(* member-only, RRFair-preserving (resp. sticky, positive-weight) extension of the current state     *)
(* is reached by picking level by level.                                                             *)
TallyOf(P, i) == LET RECURSIVE S(_)
                     S(Q) == IF Q = {} THEN 0 ELSE LET x == CHOOSE x \in Q : TRUE IN x.c + S(Q \ {x})
                 IN S({x \in P : x.id = i})

BatchOK(P) ==
    LET l == lst[gen] IN
    /\ \A x \in P : x.c > 0
    /\ IF l = {} THEN \A x \in P : x.id = NIL
       ELSE /\ \A x \in P : x.id \in Ids(l)
            /\ cfg.policy = "roundRobin" =>
                   \A i, j \in Ids(l) : (cnt[gen][i] + TallyOf(P, i)) - (cnt[gen][j] + TallyOf(P, j)) <= 1
            /\ cfg.policy \in {"ipHash", "headerHash"} =>
                   /\ \A x, y \in P : x.k = y.k => x.id = y.id
                   /\ \A x \in P : sticky[gen][x.k] \in {NONE, x.id}
            /\ cfg.policy = "weightedRandom" =>
                   ((\E s \in l : s.w > 0) => \A x \in P : WeightIn(l, x.id) > 0)

Batch(P) ==
    /\ \A p \in Procs : pc[p] = "idle"
    /\ BatchOK(P)
    /\ cnt' = [cnt EXCEPT ![gen] = [i \in DOMAIN cnt[gen] |-> cnt[gen][i] + TallyOf(P, i)]]
    /\ sticky' = IF cfg.policy \in {"ipHash", "headerHash"}
                 THEN [sticky EXCEPT ![gen] = [k \in Keys |-> IF \E x \in P : x.k = k /\ x.id # NIL
                                                             THEN (CHOOSE x \in P : x.k = k).id ELSE sticky[gen][k]]]
                 ELSE sticky
    /\ nsel' = nsel + 1
    /\ last' = [a |-> "batch"]
    /\ UNCHANGED <<cfg, gen, lst, pc, key, sg, res>>

Ages == \E b \in AgeBits, d \in AgeD : \E E \in SUBSET Ids(lst[gen]) : Age(b, d, E)

Next ==
    \/ \E I \in InstSets : Replace(I)
    \/ \E p \in Procs : (\E k \in Keys : Inv(p, k)) \/ Snap(p) \/ Pick(p) \/ Ret(p)
    \/ Ages

SeqNext ==
    \/ \E I \in InstSets : Replace(I)
    \/ \E k \in Keys : ChooseSeq(k)

(* sequential requests, with up to Cardinality(Procs) requests held between load and choice *)
ChooseNow(k) ==
    /\ nsel + Cardinality({q \in Procs : pc[q] \in {"snap", "pick"}}) < MaxSel
    /\ \E r \in Allowed(gen, k) :
          /\ Effect(gen, k, r)
          /\ last' = [a |-> "ch", k |-> k, r |-> r]
    /\ UNCHANGED <<cfg, gen, lst, pc, key, sg, res>>

HeldNext ==
    \/ \E I \in InstSets : Replace(I)
    \/ \E k \in Keys : ChooseNow(k)
    \/ \E p \in Procs : (\E k \in Keys : Hold(p, k)) \/ HPick(p)

Spec == Init /\ [][Next]_vars
SeqSpec == Init /\ [][SeqNext]_vars

-----------------------------------------------------------------------------
(* The clauses of C04 as invariants / action properties of the contract.                        *)

TypeOK ==
    /\ gen = Len(lst) /\ gen = Len(cnt) /\ gen = Len(sticky)
    /\ \A p \in Procs : sg[p] \in 1..gen

Sum(f) == LET RECURSIVE S(_)
              S(D) == IF D = {} THEN 0 ELSE LET x == CHOOSE x \in D : TRUE IN f[x] + S(D \ {x})
          IN S(DOMAIN f)

(* "after any number k of roundRobin selections each of the n servers has been chosen           *)
(*  floor(k/n) or ceil(k/n) times" - per generation, at every instant                            *)
RRFair ==
    cfg.policy = "roundRobin" =>
        \A gg \in 1..gen :
            LET n == Cardinality(lst[gg])  k == Sum(cnt[gg]) IN
            n > 0 => \A i \in Ids(lst[gg]) : cnt[gg][i] \in {k \div n, (k + n - 1) \div n}

(* "goes to a server of the pool's current list": of a generation that was current during the call *)
Member ==
    \A p \in Procs : pc[p] = "done" /\ res[p] # NIL => res[p] \in Ids(lst[sg[p]])

(* "failed for lack of a server only when that list is empty" (and then it must be) *)
NilIffEmpty ==
    \A p \in Procs : pc[p] = "done" => ((res[p] = NIL) <=> (lst[sg[p]] = {}))

(* the same two clauses for a request held between the load of the balancer and its choice, whatever *)
(* happened to the list in between (last.g: the generation the choice is accounted to)              *)
HeldOK ==
    last.a = "hpick" =>
        /\ last.g \in 1..gen
        /\ (last.r = NIL) <=> (lst[last.g] = {})
        /\ last.r # NIL => last.r \in Ids(lst[last.g])

(* "ipHash and headerHash send equal keys to the same server while the list is unchanged" *)
Sticky ==
    [][last'.a # "init" =>      \* ("init": a trace specification starting the next recorded trace)
         \A gg \in 1..gen, k \in Keys : sticky[gg][k] # NONE => sticky'[gg][k] = sticky[gg][k]]_vars

StickyPick ==
    [][\A p \in Procs : (last'.a \in {"pick", "hpick"} /\ last'.p = p /\ cfg.policy \in {"ipHash", "headerHash"}
                          /\ sticky[sg'[p]][key[p]] # NONE) => res'[p] = sticky[sg'[p]][key[p]]]_vars

(* ... also across a rebuild of the balancer over the unchanged list *)
StickyRebuild ==
    [][(last'.a = "rep" /\ gen' = gen + 1 /\ (last'.same \/ (last'.fb /\ lst[gen] = cfg.static)))
          => (lst'[gen'] = lst[gen] /\ sticky'[gen'] = sticky[gen])]_vars

(* "weightedRandom never picks a zero-weight server when some weight is positive" *)
NoZeroWeight ==
    cfg.policy = "weightedRandom" =>
        \A p \in Procs : (pc[p] = "done" /\ res[p] # NIL /\ \E s \in lst[sg[p]] : s.w > 0)
                            => WeightIn(lst[sg[p]], res[p]) > 0

(* a replacement takes the tagged instances, or the static list when none qualifies *)
ReplaceRule ==
    [][gen' = gen + 1 =>
         \E I \in InstSets : lst'[gen'] = (IF \E x \in I : x.t THEN Tagged(I) ELSE cfg.static)]_vars
=============================================================================

--------------------------- MODULE LoadBalanceImpl ---------------------------
(* C04, implementation-shaped layer: the pool the way pkg/filters/proxy writes it, one action    *)
(* per atomic step of the code, carried along with the contract variables of LoadBalance so that *)
(* TLC checks refinement as the action property  [][Next]_vars  (every step of the code is a      *)
(* step the contract allows, or leaves the contract state unchanged).                             *)
(*                                                                                              *)
(*   createLoadBalancer   objs[g] = the immutable balancer: the Servers slice (an ordered list;   *)
(*                        useService ranges over a Go map, so the order is arbitrary) and, for    *)
(*                        weightedRandom, totalWeight;   sp.loadBalancer.Store(lb)  = IReplace    *)
(*   LoadBalancer()       atomic load                                                = ILoad     *)
(*   roundRobin           counter := atomic.AddUint64(&lb.counter,1)-1; Servers[counter % n]      *)
(*   ipHash/headerHash    Servers[fnv32(key) % n]  (hv: one hash function for every balancer)      *)
(*   weightedRandom       r := rand.Intn(totalWeight); walk the list subtracting weights          *)
(*   random               Servers[rand.Intn(n)]                                                   *)
(*                                                                                              *)
(* Switches (constants):                                                                          *)
(*   AtomicRR = FALSE  splits the fetch-and-add in a read and a write (a negative control: TLC    *)
(*                     must then find the unfair schedule);                                      *)
(*   FixedWR  = TRUE   is the code: uniform choice when the total weight is 0 (repaired by the     *)
(*                     fix "weightedRandom load balancer chooses uniformly when no server has a    *)
(*                     weight"; this check found the defect);                                      *)
(*              FALSE  is the code before that repair, rand.Intn(0) panics when the total weight   *)
(*                     is 0 - kept as a negative control: TLC must find the panic.                 *)
EXTENDS LoadBalance

(*   CtrBits  = 0      is the code: the counter is a uint64 and never wraps within the numbers of   *)
(*                     selections considered (k0 < 2^63, so that int(counter) is not negative);       *)
(*              W > 0  a W-bit counter that wraps to 0 - a negative control: when the number of       *)
(*                     servers does not divide 2^W the rotation restarts out of phase and TLC must    *)
(*                     find the unfair count (reached from an aged balancer, IAge).                   *)
(*   Reseed   = FALSE  is the code: every hash balancer uses the same function of the key (FNV);      *)
(*              TRUE   a hash function drawn per balancer object (a seeded hash) - a negative control:  *)
(*                     a rebuild over the unchanged list then moves keys and TLC must find it.           *)
CONSTANTS AtomicRR, FixedWR, HashRange, CtrBits, Reseed

VARIABLES objs,      \* objs[g]: sequence of [id, w] - the Servers slice of generation g's balancer
          ctr,       \* ctr[g]: the round robin counter of generation g's balancer
          hv,        \* hv[g]: the hash function Keys -> 0..HashRange-1 of generation g's balancer
          tmp,       \* per caller: counter value read (non-atomic variant only)
          panicked   \* some ChooseServer call panicked

ivars == <<objs, ctr, hv, tmp, panicked>>
allvars == <<vars, ivars>>
iview == <<view, ivars>>

RECURSIVE Orders(_)
Orders(S) == IF S = {} THEN {<<>>}
             ELSE UNION {{<<x>> \o t : t \in Orders(S \ {x})} : x \in S}

RECURSIVE SumW(_)
SumW(q) == IF q = <<>> THEN 0 ELSE Head(q).w + SumW(Tail(q))

(* the weighted walk: first server at which r - w1 - ... - wi < 0 *)
RECURSIVE Walk(_, _)
Walk(q, r) == IF q = <<>> THEN NIL            \* "BUG: should not run to here"
              ELSE IF r - Head(q).w < 0 THEN Head(q).id ELSE Walk(Tail(q), r - Head(q).w)

HashFns == IF cfg.policy \in {"ipHash", "headerHash"} THEN [Keys -> 0..(HashRange - 1)] ELSE {[k \in Keys |-> 0]}

IInit ==
    /\ Init
    /\ objs = <<CHOOSE o \in Orders(cfg.static) : TRUE>>      \* the configured order (one representative)
    /\ ctr = <<0>>
    /\ \E h \in HashFns : hv = <<h>>
    /\ tmp = [p \in Procs |-> 0]
    /\ panicked = FALSE

(* useService: the tagged instances in the order the map range yields them, or sp.spec.Servers - the   *)
(* configured slice itself - when none qualifies.  The list is unchanged when the slice built equals    *)
(* the current one.                                                                                     *)
IReplace(I) ==
    /\ \E o \in (IF Tagged(I) = {} THEN {objs[1]} ELSE Orders(NewList(I))) :
          /\ ReplaceAs(I, o = objs[gen])
          /\ objs' = Append(objs, o)
    /\ ctr' = Append(ctr, 0)
    /\ IF Reseed THEN \E h \in HashFns : hv' = Append(hv, h) ELSE hv' = Append(hv, hv[1])
    /\ UNCHANGED <<tmp, panicked>>

Wrapped(c) == IF CtrBits = 0 THEN c ELSE c % (2 ^ CtrBits)

(* the balancer after k0 = 2^b - d selections: its counter holds k0 (as far as it has bits) and the  *)
(* k0 mod n servers at the head of the rotation have had one selection more                           *)
IAge(b, d) ==
    /\ lst[gen] # {} /\ 2 ^ b >= d
    /\ LET q == objs[gen]  r0 == (2 ^ b - d) % Len(q) IN
         Age(b, d, {q[i].id : i \in 1..r0})
    /\ ctr' = [ctr EXCEPT ![gen] = Wrapped(2 ^ b - d)]
    /\ UNCHANGED <<objs, hv, tmp, panicked>>

IInv(p, k) == Inv(p, k) /\ UNCHANGED ivars
ILoad(p)   == Snap(p) /\ UNCHANGED ivars
IRet(p)    == Ret(p) /\ UNCHANGED ivars

(* the choice is made: the contract step with the code's server *)
Chosen(p, r) ==
    /\ pc[p] = "pick"
    /\ Effect(sg[p], key[p], r)
    /\ res' = [res EXCEPT ![p] = r] /\ pc' = [pc EXCEPT ![p] = "done"]
    /\ last' = [a |-> "pick", p |-> p, r |-> r]
    /\ UNCHANGED <<cfg, gen, lst, key, sg>>

At(q, i) == q[(i % Len(q)) + 1].id

IChooseEmpty(p) ==
    /\ pc[p] = "pick" /\ objs[sg[p]] = <<>>
    /\ Chosen(p, NIL) /\ UNCHANGED ivars

IChooseRR(p) ==
    /\ pc[p] = "pick" /\ objs[sg[p]] # <<>> /\ cfg.policy \in {"roundRobin", "any"} /\ AtomicRR
    /\ Chosen(p, At(objs[sg[p]], ctr[sg[p]]))
    /\ ctr' = [ctr EXCEPT ![sg[p]] = Wrapped(@ + 1)]
    /\ UNCHANGED <<objs, hv, tmp, panicked>>

(* negative control: counter read and written in two steps *)
IReadRR(p) ==
    /\ pc[p] = "pick" /\ objs[sg[p]] # <<>> /\ cfg.policy \in {"roundRobin", "any"} /\ ~AtomicRR
    /\ tmp[p] = 0
    /\ tmp' = [tmp EXCEPT ![p] = ctr[sg[p]] + 1]
    /\ UNCHANGED <<vars, objs, ctr, hv, panicked>>
IWriteRR(p) ==
    /\ pc[p] = "pick" /\ objs[sg[p]] # <<>> /\ cfg.policy \in {"roundRobin", "any"} /\ ~AtomicRR
    /\ tmp[p] > 0
    /\ Chosen(p, At(objs[sg[p]], tmp[p] - 1))
    /\ ctr' = [ctr EXCEPT ![sg[p]] = tmp[p]]
    /\ tmp' = [tmp EXCEPT ![p] = 0]
    /\ UNCHANGED <<objs, hv, panicked>>

IChooseHash(p) ==
    /\ pc[p] = "pick" /\ objs[sg[p]] # <<>> /\ cfg.policy \in {"ipHash", "headerHash"}
    /\ Chosen(p, At(objs[sg[p]], hv[sg[p]][key[p]]))
    /\ UNCHANGED ivars

IChooseRandom(p) ==
    /\ pc[p] = "pick" /\ objs[sg[p]] # <<>> /\ cfg.policy = "random"
    /\ \E i \in 0..(Len(objs[sg[p]]) - 1) : Chosen(p, At(objs[sg[p]], i))
    /\ UNCHANGED ivars

IChooseWeighted(p) ==
    /\ pc[p] = "pick" /\ objs[sg[p]] # <<>> /\ cfg.policy = "weightedRandom"
    /\ LET q == objs[sg[p]]  total == SumW(q) IN
       IF total > 0
       THEN /\ \E r \in 0..(total - 1) : Chosen(p, Walk(q, r))
            /\ UNCHANGED ivars
       ELSE IF FixedWR
       THEN /\ \E i \in 0..(Len(q) - 1) : Chosen(p, At(q, i))
            /\ UNCHANGED ivars
       ELSE /\ panicked' = TRUE                        \* rand.Intn(0)
            /\ pc' = [pc EXCEPT ![p] = "idle"]
            /\ last' = [a |-> "panic", p |-> p]
            /\ UNCHANGED <<cfg, gen, lst, cnt, sticky, key, sg, res, nsel, objs, ctr, hv, tmp>>

INext ==
    \/ \E I \in InstSets : IReplace(I)
    \/ \E b \in AgeBits, d \in AgeD : IAge(b, d)
    \/ \E p \in Procs :
         \/ \E k \in Keys : IInv(p, k)
         \/ ILoad(p) \/ IRet(p)
         \/ IChooseEmpty(p) \/ IChooseRR(p) \/ IReadRR(p) \/ IWriteRR(p)
         \/ IChooseHash(p) \/ IChooseRandom(p) \/ IChooseWeighted(p)

ISpec == IInit /\ [][INext]_allvars

(* refinement: every step of the code is a contract step or a stutter of the contract state *)
Refines == [][Next]_vars

(* "no policy panics ... for a pool that validation accepted" *)
NoPanic == ~panicked

(* the balancer object always holds exactly the contract's list *)
ObjIsList == \A gg \in 1..gen : {objs[gg][i] : i \in 1..Len(objs[gg])} = lst[gg] /\ Len(objs[gg]) = Cardinality(lst[gg])
=============================================================================

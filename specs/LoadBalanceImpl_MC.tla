-------------------------- MODULE LoadBalanceImpl_MC -------------------------
(* Model-checking wrapper of LoadBalanceImpl (configuration sets only).                          *)
EXTENDS LoadBalanceImpl, LoadBalance_Cfg

McConfigs == {c \in [policy : Policies, static : McStatic, disc : BOOLEAN] : Accepted(c)}
(* the configurations the pinned weightedRandom code can serve: total weight never 0 *)
PosConfigs == {c \in [policy : Policies, static : PosStatic, disc : BOOLEAN] : Accepted(c)}
RRConfigs == {c \in McConfigs : c.policy \in {"roundRobin", "any"}}
RROnlyConfigs == {c \in McConfigs : c.policy = "roundRobin"}
WRConfigs == {c \in McConfigs : c.policy \in {"weightedRandom", "random"}}
HashConfigs == {c \in McConfigs : c.policy \in {"ipHash", "headerHash"}}
=============================================================================

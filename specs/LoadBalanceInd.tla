--------------------------- MODULE LoadBalanceInd ---------------------------
(* C04, optional unbounded check (Apalache): round robin as fetch-and-add then index mod N,      *)
(* for a fixed number of servers N (rewritten by the driver) but an UNBOUNDED number k of         *)
(* selections.  IndInv is inductive (Init => IndInv, IndInv /\ Next => IndInv') and implies the   *)
(* fairness clause of C04: after any k selections each server was chosen floor(k/N) or           *)
(* ceil(k/N) times.                                                                              *)
EXTENDS Integers

N == 3
Servers == 0..(N - 1)

VARIABLES
    \* @type: Int -> Int;
    cnt,
    \* @type: Int;
    k

Init == cnt = [s \in Servers |-> 0] /\ k = 0

Next == LET s == k % N IN
        /\ cnt' = [cnt EXCEPT ![s] = @ + 1]
        /\ k' = k + 1

IndInv == /\ k >= 0
          /\ DOMAIN cnt = Servers
          /\ \A s \in Servers : cnt[s] = (k + N - 1 - s) \div N

\* an arbitrary state satisfying the invariant (k unbounded)
IndInit == /\ k \in Nat
           /\ cnt = [s \in Servers |-> (k + N - 1 - s) \div N]

Fair == \A s \in Servers : cnt[s] >= k \div N /\ cnt[s] <= (k + N - 1) \div N
=============================================================================

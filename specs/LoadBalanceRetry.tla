--------------------------- MODULE LoadBalanceRetry ---------------------------
(* C04, requests with several attempts.                                                          *)
(*                                                                                              *)
(* A pool may carry a retry policy (maxAttempts = cfg.att; 1 or no field: no policy).  A client   *)
(* request is then forwarded up to cfg.att times (ServerPool.handle wraps doHandle in             *)
(* RetryPolicy.Wrap): every attempt runs doHandle again, i.e. loads the pool's balancer and asks   *)
(* it for a server.  The property's first sentence speaks about every one of these forwardings:    *)
(*   - each attempt is a selection in the list current at that attempt (a discovery report may     *)
(*     arrive during the back-off between two attempts), obeying the policy's clause like any      *)
(*     other selection (the retry of a request has the key of the request: under ipHash and        *)
(*     headerHash it goes to the same server while the list is unchanged; under roundRobin it is   *)
(*     the next selection);                                                                        *)
(*   - an attempt, and with it the request, is failed for lack of a server only when that list is  *)
(*     empty - whatever the request's earlier attempts did to the servers of the list.             *)
(* How many attempts are made, when they stop and what the client finally sees is C10's business  *)
(* (Resilience.tla); here the attempts a request makes are inputs.                                 *)
(*                                                                                              *)
(* A request with attempts belongs to a caller p:  idle -Start-> sent -Retry-> sent ... -Finish->  *)
(* idle.  While it is "sent" (at the backend, or in the back-off that follows a failed attempt)    *)
(* anything else may happen: replacements, other requests, held requests.                          *)
EXTENDS LoadBalance

VARIABLE att       \* att[p]: attempts made so far by the request of caller p that is in flight (0: none)

rvars == <<vars, att>>
rview == <<view, att>>

MaxAtt == IF "att" \in DOMAIN cfg THEN cfg.att ELSE 1

RInit == Init /\ MaxAtt >= 1 /\ att = [p \in Procs |-> 0]

(* first attempt of a new request of p with key k: forwarded to r *)
Start(p, k, r) ==
    /\ pc[p] = "idle" /\ nsel < MaxSel
    /\ r # NIL /\ r \in Allowed(gen, k)
    /\ Effect(gen, k, r)
    /\ pc' = [pc EXCEPT ![p] = "sent"] /\ key' = [key EXCEPT ![p] = k]
    /\ sg' = [sg EXCEPT ![p] = gen] /\ res' = [res EXCEPT ![p] = r]
    /\ att' = [att EXCEPT ![p] = 1]
    /\ last' = [a |-> "send", p |-> p, k |-> k, r |-> r, i |-> 1]
    /\ UNCHANGED <<cfg, gen, lst>>

(* the attempt of p's request that is at the backend fails, and its next attempt is forwarded to r: *)
(* a selection like any other, in the generation current now                                        *)
RetryAt(p, r) ==
    /\ pc[p] = "sent"
    /\ r # NIL /\ r \in Allowed(gen, key[p])
    /\ Effect(gen, key[p], r)
    /\ sg' = [sg EXCEPT ![p] = gen] /\ res' = [res EXCEPT ![p] = r]
    /\ att' = [att EXCEPT ![p] = @ + 1]
    /\ last' = [a |-> "send", p |-> p, k |-> key[p], r |-> r, i |-> att[p] + 1]
    /\ UNCHANGED <<cfg, gen, lst, pc, key>>

Retry(p, r) == att[p] < MaxAtt /\ nsel < MaxSel /\ RetryAt(p, r)

(* the request of p is failed for lack of a server (503, nothing sent): as its first attempt, or   *)
(* after the attempt at the backend failed - the attempts that were due found no server, which      *)
(* the contract allows only for an empty list                                                       *)
NoServerStep(p, k) ==
    /\ pc[p] \in {"idle", "sent"} /\ (pc[p] = "sent" => k = key[p])
    /\ Effect(gen, k, NIL)
    /\ pc' = [pc EXCEPT ![p] = "idle"] /\ key' = [key EXCEPT ![p] = k]
    /\ sg' = [sg EXCEPT ![p] = gen] /\ res' = [res EXCEPT ![p] = NIL]
    /\ att' = [att EXCEPT ![p] = 0]
    /\ last' = [a |-> "nosrv", p |-> p, k |-> k, i |-> att[p]]
    /\ UNCHANGED <<cfg, gen, lst>>

NoServerAt(p, k) == NIL \in Allowed(gen, k) /\ NoServerStep(p, k)

NoServer(p, k) == (pc[p] = "sent" => att[p] < MaxAtt) /\ nsel < MaxSel /\ NoServerAt(p, k)

(* the request ends with the outcome o of the attempt at the backend (a failure ends it when no     *)
(* attempt is left; an implementation that gives up earlier does not concern C04)                    *)
FinishAt(p, o) ==
    /\ pc[p] = "sent"
    /\ pc' = [pc EXCEPT ![p] = "idle"] /\ att' = [att EXCEPT ![p] = 0]
    /\ last' = [a |-> "done", p |-> p, o |-> o]
    /\ UNCHANGED <<cfg, gen, lst, cnt, sticky, key, sg, res, nsel>>

Finish(p, o) == (o = "fail" => att[p] >= MaxAtt) /\ FinishAt(p, o)

RetryNext ==
    \E p \in Procs :
        \/ \E k \in Keys, r \in Ids(lst[gen]) : Start(p, k, r)
        \/ \E r \in Ids(lst[gen]) : Retry(p, r)
        \/ \E k \in Keys : NoServer(p, k)
        \/ \E o \in {"ok", "fail"} : Finish(p, o)

(* sequential requests, some held between load and choice, some with several attempts *)
RSeqNext == (HeldNext /\ UNCHANGED att) \/ RetryNext
RSeqSpec == RInit /\ [][RSeqNext]_rvars

-----------------------------------------------------------------------------
(* "every forwarded request goes to a server of the pool's current list, and a request is failed  *)
(*  for lack of a server only when that list is empty" - for every attempt of a request            *)
AttemptOK ==
    /\ last.a = "send"  => lst[gen] # {} /\ last.r \in Ids(lst[gen])
    /\ last.a = "nosrv" => lst[gen] = {}

AttBound ==
    \A p \in Procs : att[p] \in 0..MaxAtt /\ (att[p] > 0 <=> pc[p] = "sent")

(* the retry of a request has the request's key: same server while the list is unchanged *)
StickyRetry ==
    [][(last'.a = "send" /\ cfg.policy \in {"ipHash", "headerHash"} /\ sticky[gen][last'.k] # NONE)
          => last'.r = sticky[gen][last'.k]]_rvars

(* under weightedRandom no attempt goes to a zero-weight server when some weight is positive *)
NoZeroWeightRetry ==
    (last.a = "send" /\ cfg.policy = "weightedRandom" /\ \E s \in lst[gen] : s.w > 0)
        => WeightIn(lst[gen], last.r) > 0
=============================================================================

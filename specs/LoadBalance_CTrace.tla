-------------------------- MODULE LoadBalance_CTrace -------------------------
(* Concurrent trace validation for C04: G goroutines call ServerPool.LoadBalancer().ChooseServer  *)
(* while one goroutine (as the pool's watcher does) feeds discovery reports to useService.  The   *)
(* harness logs invocation and return of every call under one global sequence.  TLC searches a    *)
(* linearisation: every call takes effect at a silent step between its inv and its ret, and the   *)
(* server it returned must be one the contract allows at that point (member of the list current   *)
(* then; least-chosen for roundRobin; the key's server for the hash policies; ...).               *)
(* Some calls are spread out by the harness: the caller loads the pool's balancer, waits until the *)
(* watcher's useService has returned, and only then chooses (inv.held); such a call still has to   *)
(* take effect at one instant between its inv and its ret, in the list current at that instant.     *)
(* The harness copies the value a call is going to return into its inv event (field r), so the    *)
(* search only places the call, it does not guess its result.                                     *)
(*   reset   cfg                                                                                  *)
(*   inv     p, k, r          ret   p, r                                                          *)
(*   rinv    insts            rret                              (the watcher's useService call)   *)
EXTENDS LoadBalance, Json, TLC, IOUtils

TLog == ndJsonDeserialize(IOEnv.VERIF_TRACE)

VARIABLES l,
          ann,     \* per caller: the result its pending call is going to return
          wpc,     \* watcher: "idle" | "pend" | "done"
          winst    \* watcher: the pending report
tvars == <<vars, l, ann, wpc, winst>>

(* Only the current generation can still be chosen from (ChooseAt), so the counts and sticky keys  *)
(* of earlier generations, and the bookkeeping variables, are left out of the VIEW: two search     *)
(* states that differ only there have the same future.                                            *)
tview == <<l, cfg, gen, lst[gen], cnt[gen], sticky[gen], pc, key, res, ann, wpc, winst>>

ToSet(q) == {q[i] : i \in 1..Len(q)}
IsEvent(e) == l <= Len(TLog) /\ TLog[l].ev = e /\ l' = l + 1

Fresh(c) ==
    /\ cfg' = c
    /\ gen' = 1 /\ lst' = <<c.static>> /\ cnt' = <<[i \in Ids(c.static) |-> 0]>> /\ sticky' = <<NoKeys>>
    /\ pc' = [p \in Procs |-> "idle"] /\ key' = key /\ sg' = [p \in Procs |-> 1]
    /\ res' = [p \in Procs |-> NIL] /\ nsel' = 0 /\ last' = [a |-> "init"]
    /\ ann' = [p \in Procs |-> NIL] /\ wpc' = "idle" /\ winst' = {}

TReset ==
    /\ IsEvent("reset")
    /\ LET c == [policy |-> TLog[l].cfg.policy, static |-> ToSet(TLog[l].cfg.static), disc |-> TLog[l].cfg.disc]
       IN Accepted(c) /\ Fresh(c)

TInv(p) ==
    /\ IsEvent("inv") /\ TLog[l].p = p
    /\ Inv(p, TLog[l].k)
    /\ ann' = [ann EXCEPT ![p] = TLog[l].r]
    /\ UNCHANGED <<wpc, winst>>

(* Silent steps are only tried when the next recorded event is a return: a linearisation point   *)
(* commutes with a later invocation of another caller, so nothing is lost and the search is       *)
(* smaller.                                                                                        *)
BeforeReturn == l <= Len(TLog) /\ TLog[l].ev \in {"ret", "rret"}

Lin(p) == BeforeReturn /\ ChooseAt(p, ann[p]) /\ UNCHANGED <<l, ann, wpc, winst>>

TRet(p) ==
    /\ IsEvent("ret") /\ TLog[l].p = p
    /\ res[p] = TLog[l].r
    /\ Ret(p)
    /\ UNCHANGED <<ann, wpc, winst>>

TRInv ==
    /\ IsEvent("rinv") /\ wpc = "idle"
    /\ wpc' = "pend" /\ winst' = ToSet(TLog[l].insts)
    /\ UNCHANGED <<vars, ann>>

LinRep ==
    /\ BeforeReturn /\ wpc = "pend" /\ Replace(winst) /\ wpc' = "done"
    /\ UNCHANGED <<l, ann, winst>>

TRRet ==
    /\ IsEvent("rret") /\ wpc = "done" /\ wpc' = "idle"
    /\ UNCHANGED <<vars, ann, winst>>

(* a call that panicked is explained by no contract step wherever it is placed: report it and go *)
(* on with the next trace (other rejections are found by the search failing to advance)          *)
RECURSIVE NextReset(_)
NextReset(j) == IF j > Len(TLog) \/ TLog[j].ev = "reset" THEN j ELSE NextReset(j + 1)

TBad ==
    /\ l <= Len(TLog) /\ TLog[l].ev = "inv" /\ TLog[l].r = "panic"
    /\ PrintT(<<"VERIF_REJECT", l>>)
    /\ l' = NextReset(l)
    /\ UNCHANGED <<vars, ann, wpc, winst>>

TNext == TBad \/ TReset \/ TRInv \/ LinRep \/ TRRet \/ \E p \in Procs : TInv(p) \/ Lin(p) \/ TRet(p)

TInit ==
    /\ l = 1
    /\ cfg = [policy |-> "any", static |-> {}, disc |-> TRUE]
    /\ gen = 1 /\ lst = <<{}>> /\ cnt = <<<<>>>> /\ sticky = <<NoKeys>>
    /\ pc = [p \in Procs |-> "idle"] /\ key = [p \in Procs |-> CHOOSE k \in Keys : TRUE]
    /\ sg = [p \in Procs |-> 1] /\ res = [p \in Procs |-> NIL]
    /\ nsel = 0 /\ last = [a |-> "init"]
    /\ ann = [p \in Procs |-> NIL] /\ wpc = "idle" /\ winst = {}

TSpec == TInit /\ [][TNext]_tvars

ASSUME TLCSet(1, 0)
HWM == TLCSet(1, IF l - 1 > TLCGet(1) THEN l - 1 ELSE TLCGet(1))
TraceAccepted == /\ PrintT(<<"VERIF_HWM", TLCGet(1), Len(TLog)>>)
                 /\ TLCGet(1) = Len(TLog)
=============================================================================

--------------------------- MODULE LoadBalance_Cfg ---------------------------
(* Constant data shared by the model-checking and generation wrappers of LoadBalance: the static *)
(* server lists and the discovery reports explored.                                              *)
S(id, w) == [id |-> id, w |-> w]
D(id, w, t) == [id |-> id, w |-> w, t |-> t]

(* static lists: empty (discovery only), one server, no weights, all weights *)
StaticLists == { {}, {S("a", 0)}, {S("a", 0), S("b", 0)}, {S("a", 0), S("b", 0), S("c", 0)},
                 {S("a", 2), S("b", 1)}, {S("a", 1), S("b", 3), S("c", 1)} }

(* discovery reports: nothing, nothing tagged, one, several, weights mixed with zero, all zero *)
GenInstSets == { {},
                 {D("x", 1, FALSE)},
                 {D("x", 0, TRUE)},
                 {D("x", 0, TRUE), D("y", 0, TRUE)},
                 {D("x", 2, TRUE), D("y", 0, TRUE), D("z", 5, FALSE)},
                 {D("x", 1, TRUE), D("y", 2, TRUE), D("z", 0, TRUE)},
                 {D("x", 0, TRUE), D("y", 0, TRUE), D("z", 0, TRUE)} }

(* smaller sets for the exhaustive concurrent runs *)
McStatic == { {}, {S("a", 0), S("b", 0)}, {S("a", 1), S("b", 3), S("c", 1)} }
McInstSets == { {D("x", 1, FALSE)}, {D("x", 2, TRUE), D("y", 0, TRUE), D("z", 5, FALSE)},
                {D("x", 0, TRUE), D("y", 0, TRUE), D("z", 0, TRUE)} }
(* one report, delivered again and again: the same instances, in whatever order they come out *)
AgainInstSets == { {D("x", 0, TRUE), D("y", 0, TRUE)}, {D("x", 1, FALSE)} }
(* ... with every weight positive: what the pinned code can handle under weightedRandom *)
PosStatic == { {}, {S("a", 1), S("b", 3), S("c", 1)} }
PosInstSets == { {D("x", 1, FALSE)}, {D("x", 2, TRUE), D("y", 0, TRUE), D("z", 5, FALSE)} }
=============================================================================

--------------------------- MODULE LoadBalance_Gen ---------------------------
(* Model-checking / behaviour-generation wrapper of LoadBalance: the configurations and          *)
(* discovery reports explored, and `out`, the JSON description of the step just taken.           *)
EXTENDS LoadBalance, LoadBalance_Cfg, Json

VARIABLE out

GenConfigs == {c \in [policy : Policies, static : StaticLists, disc : BOOLEAN] : Accepted(c)}
McConfigs == {c \in [policy : Policies, static : McStatic, disc : BOOLEAN] : Accepted(c)}
McRRConfigs == {c \in McConfigs : c.policy = "roundRobin"}

GInit == Init /\ out = ToJson([a |-> "init", cfg |-> cfg])
GNext == Next /\ out' = ToJson(last')
GSpec == GInit /\ [][GNext]_<<vars, out>>

(* sequential behaviours (inputs for the replay on the real pool): requests one after the other,  *)
(* some of them held between the load of the balancer and the choice while the list is replaced   *)
(* and other requests choose; round robin balancers that have served 2^b - d selections before.   *)
(* (Which servers had the extra selection - E - is the real balancer's business: the generator     *)
(* takes one representative, the replay does not use it.)                                          *)
GAge == \E b \in AgeBits, d \in AgeD :
           LET n == Cardinality(lst[gen])
               Es == {E \in SUBSET Ids(lst[gen]) : Cardinality(E) = K0Mod(b, d, n)}
           IN  /\ last.a \in {"init", "rep"}        \* the balancer just created is the one with a history
               /\ n > 0 /\ Age(b, d, CHOOSE E \in Es : TRUE)
GSeqNext == (HeldNext \/ GAge) /\ out' = ToJson(last')
GSeqSpec == GInit /\ [][GSeqNext]_<<vars, out>>
=============================================================================

--------------------------- MODULE LoadBalance_Gen ---------------------------
(* Model-checking / behaviour-generation wrapper of LoadBalance: the configurations and          *)
(* discovery reports explored, and `out`, the JSON description of the step just taken.           *)
EXTENDS LoadBalance, LoadBalance_Cfg, Json

VARIABLE out

GenConfigs == {c \in [policy : Policies, static : StaticLists, disc : BOOLEAN] : Accepted(c)}
McConfigs == {c \in [policy : Policies, static : McStatic, disc : BOOLEAN] : Accepted(c)}

GInit == Init /\ out = ToJson([a |-> "init", cfg |-> cfg])
GNext == Next /\ out' = ToJson(last')
GSpec == GInit /\ [][GNext]_<<vars, out>>

(* sequential behaviours (inputs for the replay on the real pool) *)
GSeqNext == SeqNext /\ out' = ToJson(last')
GSeqSpec == GInit /\ [][GSeqNext]_<<vars, out>>
=============================================================================

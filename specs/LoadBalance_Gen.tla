--------------------------- MODULE LoadBalance_Gen ---------------------------
(* Model-checking / behaviour-generation wrapper of LoadBalance: the configurations and          *)
(* discovery reports explored, and `out`, the JSON description of the step just taken.           *)
EXTENDS LoadBalanceRetry, LoadBalance_Cfg, Json

VARIABLE out

(* att: maxAttempts of the pool's retry policy (1: no policy); up to one more than the longest list *)
GenConfigs == {c \in [policy : Policies, static : StaticLists, disc : BOOLEAN, att : 1..4] : Accepted(c)}
McConfigs == {c \in [policy : Policies, static : McStatic, disc : BOOLEAN] : Accepted(c)}
McRRConfigs == {c \in McConfigs : c.policy = "roundRobin"}

(* exhaustive runs of requests with several attempts *)
(* (one server; two; three weighted; discovery only - with 3 attempts: as many failures as servers and more) *)
McRetryConfigs == {c \in [policy : Policies, static : McStatic \cup {{S("a", 0)}}, disc : BOOLEAN, att : {3}] : Accepted(c)}

GInit == RInit /\ out = ToJson([a |-> "init", cfg |-> cfg])
GNext == Next /\ UNCHANGED att /\ out' = ToJson(last')
GSpec == GInit /\ [][GNext]_<<rvars, out>>

(* sequential behaviours (inputs for the replay on the real pool): requests one after the other,  *)
(* some of them held between the load of the balancer and the choice while the list is replaced   *)
(* and other requests choose; round robin balancers that have served 2^b - d selections before.   *)
(* (Which servers had the extra selection - E - is the real balancer's business: the generator     *)
(* takes one representative, the replay does not use it.)                                          *)
GAge == \E b \in AgeBits, d \in AgeD :
           LET n == Cardinality(lst[gen])
               Es == {E \in SUBSET Ids(lst[gen]) : Cardinality(E) = K0Mod(b, d, n)}
           IN  /\ last.a \in {"init", "rep"}        \* the balancer just created is the one with a history
               /\ n > 0 /\ Age(b, d, CHOOSE E \in Es : TRUE)
GHeldNext == ((HeldNext \/ GAge) /\ UNCHANGED att) /\ out' = ToJson(last')
GHeldSpec == GInit /\ [][GHeldNext]_<<rvars, out>>
(* ... and requests with several attempts (pools with a retry policy, failing backends), interleaved  *)
(* with all of the above.                                                                           *)
GSeqNext == (((HeldNext \/ GAge) /\ UNCHANGED att) \/ RetryNext) /\ out' = ToJson(last')
GSeqSpec == GInit /\ [][GSeqNext]_<<rvars, out>>
(* negative control: a pool whose retry refuses the servers that failed the request before and gives *)
(* up when the balancer has no other to offer                                                        *)
GiveUp == \E p \in Procs : pc[p] = "sent" /\ att[p] < MaxAtt /\ res[p] # NIL
                            /\ Allowed(gen, key[p]) \subseteq {res[p]} /\ NoServerStep(p, key[p])
GBadRetrySpec == GInit /\ [][(RSeqNext \/ GiveUp) /\ out' = ToJson(last')]_<<rvars, out>>
=============================================================================

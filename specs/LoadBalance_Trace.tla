-------------------------- MODULE LoadBalance_Trace --------------------------
(* Trace validation for C04, sequential: requests sent one after the other through the real      *)
(* ServerPool (handle -> doHandle -> LoadBalancer().ChooseServer -> stubbed transport), with      *)
(* discovery reports (useService) in between.  Every observed target must be one the contract     *)
(* allows.  Events:                                                                               *)
(*   reset  cfg = [policy, static = <<[id,w]...>>, disc]      a fresh pool                        *)
(*   rep    insts = <<[id,w,t]...>>, same                      useService(instances); same: the    *)
(*                   servers of the balancer built are those of the balancer it replaces, in the   *)
(*                   same order (observed; absent = not observed = FALSE)                           *)
(*   ch     k, r     r = id of the server the transport was called for | "nil" (503, not sent)     *)
(*                   anything else ("panic", "error:...") is accepted by no contract step          *)
(*   hold   p, k     request p loaded the pool's balancer (sp.LoadBalancer()) and waits             *)
(*   hpick  p, r     ... and now chooses in the balancer it loaded (lb.ChooseServer(req)); r as in ch *)
(*   age    b, d     the current balancer (round robin) was put into the state it has after          *)
(*                   2^b - d selections; the next events are n `ch` (or one `batch`) on it           *)
(* Requests with several attempts (pool with a retry policy of cfg.att attempts, transport scripted  *)
(* to fail; the request of p stays in flight while other events are recorded):                        *)
(*   send   p, k, r, i   attempt i of p's request (key k) reached the transport for server r; for    *)
(*                       i > 1: the attempt before it was answered with a failure just now           *)
(*   nosrv  p, k, i      p's request ended with 503 'no server' after i attempts were sent (the      *)
(*                       last of them answered with a failure just now), nothing more was sent        *)
(*   done   p, o         p's request ended with the outcome of its last attempt                       *)
EXTENDS LoadBalanceRetry, Json, TLC, IOUtils

TLog == ndJsonDeserialize(IOEnv.VERIF_TRACE)

VARIABLE l
tvars == <<rvars, l>>

ToSet(q) == {q[i] : i \in 1..Len(q)}
IsEvent(e) == l <= Len(TLog) /\ TLog[l].ev = e /\ l' = l + 1

Fresh(c) ==
    /\ cfg' = c
    /\ gen' = 1 /\ lst' = <<c.static>> /\ cnt' = <<[i \in Ids(c.static) |-> 0]>> /\ sticky' = <<NoKeys>>
    /\ pc' = [p \in Procs |-> "idle"] /\ key' = key /\ sg' = [p \in Procs |-> 1]
    /\ res' = [p \in Procs |-> NIL] /\ nsel' = 0 /\ last' = [a |-> "init"]
    /\ att' = [p \in Procs |-> 0]

TReset ==
    /\ IsEvent("reset")
    /\ LET c == [policy |-> TLog[l].cfg.policy, static |-> ToSet(TLog[l].cfg.static), disc |-> TLog[l].cfg.disc,
                att |-> TLog[l].cfg.att]
       IN Accepted(c) /\ c.att >= 1 /\ Fresh(c)

(* the static list over again is unchanged whatever was observed of the balancer's slice; a discovered *)
(* list is unchanged when the same instances came out in the same order                               *)
ObsSame(e) == LET I == ToSet(e.insts) IN
              \/ StaticAgain(I)
              \/ ("same" \in DOMAIN e /\ e.same /\ NewList(I) = lst[gen])
TRep == IsEvent("rep") /\ ReplaceAs(ToSet(TLog[l].insts), ObsSame(TLog[l])) /\ UNCHANGED att

TCh ==
    /\ IsEvent("ch")
    /\ TLog[l].r \in Allowed(gen, TLog[l].k)
    /\ Effect(gen, TLog[l].k, TLog[l].r)
    /\ last' = [a |-> "ch", k |-> TLog[l].k, r |-> TLog[l].r]
    /\ UNCHANGED <<cfg, gen, lst, pc, key, sg, res, att>>

(*   batch  picks = <<[k, id, c]...>>   tally of a burst of selections by concurrent callers        *)
TBatch == IsEvent("batch") /\ Batch(ToSet(TLog[l].picks)) /\ UNCHANGED att

(*   noage  why      the balancer has no server, or keeps no field that counts its selections: it     *)
(*                   was not aged (the selections made on it to find that out follow as `ch`)          *)
TSkip == IsEvent("noage") /\ UNCHANGED rvars

THold == IsEvent("hold") /\ Hold(TLog[l].p, TLog[l].k) /\ UNCHANGED att

THPick == IsEvent("hpick") /\ HPickWith(TLog[l].p, TLog[l].r) /\ UNCHANGED att

(* attempts of a request: how many are made is not judged here (RetryAt, FinishAt: no bound) *)
TSend ==
    /\ IsEvent("send")
    /\ LET e == TLog[l] IN
         IF e.i = 1 THEN Start(e.p, e.k, e.r)
                    ELSE pc[e.p] = "sent" /\ key[e.p] = e.k /\ att[e.p] + 1 = e.i /\ RetryAt(e.p, e.r)

TNoSrv == IsEvent("nosrv") /\ att[TLog[l].p] = TLog[l].i /\ NoServerAt(TLog[l].p, TLog[l].k)

TDone == IsEvent("done") /\ FinishAt(TLog[l].p, TLog[l].o)

(* Which servers had had the extra selection (E) shows in what follows: the next n - |E| sequential *)
(* selections of a fair balancer go to exactly the servers outside E.  The step takes that E; if    *)
(* the picks that follow are not n - |E| distinct servers of the list no E explains them, any E is  *)
(* taken and the offending pick is rejected where it occurs.  Before a burst: an E that explains     *)
(* its tally, if there is one.                                                                       *)
TAge ==
    /\ IsEvent("age")
    /\ lst[gen] # {}
    /\ LET ids == Ids(lst[gen])
           n   == Cardinality(ids)
           r0  == K0Mod(TLog[l].b, TLog[l].d, n)
           Es  == {E \in SUBSET ids : Cardinality(E) = r0}
           nxt == {j \in (l + 1)..(l + n - r0) : j <= Len(TLog)}
           fst == {TLog[j].r : j \in {i \in nxt : TLog[i].ev = "ch"}}
           Ok(E) == LET c0 == [i \in ids |-> IF i \in E THEN 1 ELSE 0]
                        P == ToSet(TLog[l + 1].picks)
                    IN  /\ \A x \in P : x.c > 0 /\ x.id \in ids
                        /\ \A i, j \in ids : (c0[i] + TallyOf(P, i)) - (c0[j] + TallyOf(P, j)) <= 1
           E   == IF l + 1 <= Len(TLog) /\ TLog[l + 1].ev = "batch"
                  THEN (IF \E X \in Es : Ok(X) THEN CHOOSE X \in Es : Ok(X) ELSE CHOOSE X \in Es : TRUE)
                  ELSE (IF ids \ fst \in Es THEN ids \ fst ELSE CHOOSE X \in Es : TRUE)
       IN  \* well-formed recording: the picks that reveal E follow immediately
           /\ \/ l + 1 <= Len(TLog) /\ TLog[l + 1].ev = "batch"
              \/ \A j \in (l + 1)..(l + n - r0) : j <= Len(TLog) /\ TLog[j].ev = "ch"
           /\ Age(TLog[l].b, TLog[l].d, E)
    /\ UNCHANGED att

(* an observation no contract step explains: report it, and go on with the next trace, so that   *)
(* one run lists every rejected trace (the driver turns the report into the verdict)             *)
RECURSIVE NextReset(_)
NextReset(j) == IF j > Len(TLog) \/ TLog[j].ev = "reset" THEN j ELSE NextReset(j + 1)

TBad ==
    /\ l <= Len(TLog)
    /\ \/ TLog[l].ev = "ch" /\ TLog[l].r \notin Allowed(gen, TLog[l].k)
       \/ TLog[l].ev = "batch" /\ ~BatchOK(ToSet(TLog[l].picks))
       \/ TLog[l].ev = "hpick" /\ pc[TLog[l].p] = "pick" /\ SpanGens(TLog[l].p, TLog[l].r) = {}
       \/ TLog[l].ev = "send" /\ (TLog[l].r = NIL \/ TLog[l].r \notin Allowed(gen, TLog[l].k))
       \/ TLog[l].ev = "nosrv" /\ NIL \notin Allowed(gen, TLog[l].k)
    /\ PrintT(<<"VERIF_REJECT", l>>)
    /\ l' = NextReset(l)
    /\ UNCHANGED rvars

TNext == TReset \/ TRep \/ TCh \/ TBatch \/ THold \/ THPick \/ TAge \/ TSkip \/ TSend \/ TNoSrv \/ TDone \/ TBad

TInit ==
    /\ l = 1
    /\ cfg = [policy |-> "any", static |-> {}, disc |-> TRUE, att |-> 1]
    /\ gen = 1 /\ lst = <<{}>> /\ cnt = <<<<>>>> /\ sticky = <<NoKeys>>
    /\ pc = [p \in Procs |-> "idle"] /\ key = [p \in Procs |-> CHOOSE k \in Keys : TRUE]
    /\ sg = [p \in Procs |-> 1] /\ res = [p \in Procs |-> NIL]
    /\ nsel = 0 /\ last = [a |-> "init"]
    /\ att = [p \in Procs |-> 0]

TSpec == TInit /\ [][TNext]_tvars

ASSUME TLCSet(1, 0)
HWM == TLCSet(1, IF l - 1 > TLCGet(1) THEN l - 1 ELSE TLCGet(1))
TraceAccepted == /\ PrintT(<<"VERIF_HWM", TLCGet(1), Len(TLog)>>)
                 /\ TLCGet(1) = Len(TLog)
=============================================================================

-------------------------- MODULE LoadBalance_Trace --------------------------
(* Trace validation for C04, sequential: requests sent one after the other through the real      *)
(* ServerPool (handle -> doHandle -> LoadBalancer().ChooseServer -> stubbed transport), with      *)
(* discovery reports (useService) in between.  Every observed target must be one the contract     *)
(* allows.  Events:                                                                               *)
(*   reset  cfg = [policy, static = <<[id,w]...>>, disc]      a fresh pool                        *)
(*   rep    insts = <<[id,w,t]...>>                            useService(instances)               *)
(*   ch     k, r     r = id of the server the transport was called for | "nil" (503, not sent)     *)
(*                   anything else ("panic", "error:...") is accepted by no contract step          *)
(*   hold   p, k     request p loaded the pool's balancer (sp.LoadBalancer()) and waits             *)
(*   hpick  p, r     ... and now chooses in the balancer it loaded (lb.ChooseServer(req)); r as in ch *)
(*   age    b, d     the current balancer (round robin) was put into the state it has after          *)
(*                   2^b - d selections; the next events are n `ch` (or one `batch`) on it           *)
EXTENDS LoadBalance, Json, TLC, IOUtils

TLog == ndJsonDeserialize(IOEnv.VERIF_TRACE)

VARIABLE l
tvars == <<vars, l>>

ToSet(q) == {q[i] : i \in 1..Len(q)}
IsEvent(e) == l <= Len(TLog) /\ TLog[l].ev = e /\ l' = l + 1

Fresh(c) ==
    /\ cfg' = c
    /\ gen' = 1 /\ lst' = <<c.static>> /\ cnt' = <<[i \in Ids(c.static) |-> 0]>> /\ sticky' = <<NoKeys>>
    /\ pc' = [p \in Procs |-> "idle"] /\ key' = key /\ sg' = [p \in Procs |-> 1]
    /\ res' = [p \in Procs |-> NIL] /\ nsel' = 0 /\ last' = [a |-> "init"]

TReset ==
    /\ IsEvent("reset")
    /\ LET c == [policy |-> TLog[l].cfg.policy, static |-> ToSet(TLog[l].cfg.static), disc |-> TLog[l].cfg.disc]
       IN Accepted(c) /\ Fresh(c)

TRep == IsEvent("rep") /\ Replace(ToSet(TLog[l].insts))

TCh ==
    /\ IsEvent("ch")
    /\ TLog[l].r \in Allowed(gen, TLog[l].k)
    /\ Effect(gen, TLog[l].k, TLog[l].r)
    /\ last' = [a |-> "ch", k |-> TLog[l].k, r |-> TLog[l].r]
    /\ UNCHANGED <<cfg, gen, lst, pc, key, sg, res>>

(*   batch  picks = <<[k, id, c]...>>   tally of a burst of selections by concurrent callers        *)
TBatch == IsEvent("batch") /\ Batch(ToSet(TLog[l].picks))

(*   noage  why      the balancer has no server, or keeps no field that counts its selections: it     *)
(*                   was not aged (the selections made on it to find that out follow as `ch`)          *)
TSkip == IsEvent("noage") /\ UNCHANGED vars

THold == IsEvent("hold") /\ Hold(TLog[l].p, TLog[l].k)

THPick == IsEvent("hpick") /\ HPickWith(TLog[l].p, TLog[l].r)

(* Which servers had had the extra selection (E) shows in what follows: the next n - |E| sequential *)
(* selections of a fair balancer go to exactly the servers outside E.  The step takes that E; if    *)
(* the picks that follow are not n - |E| distinct servers of the list no E explains them, any E is  *)
(* taken and the offending pick is rejected where it occurs.  Before a burst: an E that explains     *)
(* its tally, if there is one.                                                                       *)
TAge ==
    /\ IsEvent("age")
    /\ lst[gen] # {}
    /\ LET ids == Ids(lst[gen])
           n   == Cardinality(ids)
           r0  == K0Mod(TLog[l].b, TLog[l].d, n)
           Es  == {E \in SUBSET ids : Cardinality(E) = r0}
           nxt == {j \in (l + 1)..(l + n - r0) : j <= Len(TLog)}
           fst == {TLog[j].r : j \in {i \in nxt : TLog[i].ev = "ch"}}
           Ok(E) == LET c0 == [i \in ids |-> IF i \in E THEN 1 ELSE 0]
                        P == ToSet(TLog[l + 1].picks)
                    IN  /\ \A x \in P : x.c > 0 /\ x.id \in ids
                        /\ \A i, j \in ids : (c0[i] + TallyOf(P, i)) - (c0[j] + TallyOf(P, j)) <= 1
           E   == IF l + 1 <= Len(TLog) /\ TLog[l + 1].ev = "batch"
                  THEN (IF \E X \in Es : Ok(X) THEN CHOOSE X \in Es : Ok(X) ELSE CHOOSE X \in Es : TRUE)
                  ELSE (IF ids \ fst \in Es THEN ids \ fst ELSE CHOOSE X \in Es : TRUE)
       IN  \* well-formed recording: the picks that reveal E follow immediately
           /\ \/ l + 1 <= Len(TLog) /\ TLog[l + 1].ev = "batch"
              \/ \A j \in (l + 1)..(l + n - r0) : j <= Len(TLog) /\ TLog[j].ev = "ch"
           /\ Age(TLog[l].b, TLog[l].d, E)

(* an observation no contract step explains: report it, and go on with the next trace, so that   *)
(* one run lists every rejected trace (the driver turns the report into the verdict)             *)
RECURSIVE NextReset(_)
NextReset(j) == IF j > Len(TLog) \/ TLog[j].ev = "reset" THEN j ELSE NextReset(j + 1)

TBad ==
    /\ l <= Len(TLog)
    /\ \/ TLog[l].ev = "ch" /\ TLog[l].r \notin Allowed(gen, TLog[l].k)
       \/ TLog[l].ev = "batch" /\ ~BatchOK(ToSet(TLog[l].picks))
       \/ TLog[l].ev = "hpick" /\ pc[TLog[l].p] = "pick" /\ SpanGens(TLog[l].p, TLog[l].r) = {}
    /\ PrintT(<<"VERIF_REJECT", l>>)
    /\ l' = NextReset(l)
    /\ UNCHANGED vars

TNext == TReset \/ TRep \/ TCh \/ TBatch \/ THold \/ THPick \/ TAge \/ TSkip \/ TBad

TInit ==
    /\ l = 1
    /\ cfg = [policy |-> "any", static |-> {}, disc |-> TRUE]
    /\ gen = 1 /\ lst = <<{}>> /\ cnt = <<<<>>>> /\ sticky = <<NoKeys>>
    /\ pc = [p \in Procs |-> "idle"] /\ key = [p \in Procs |-> CHOOSE k \in Keys : TRUE]
    /\ sg = [p \in Procs |-> 1] /\ res = [p \in Procs |-> NIL]
    /\ nsel = 0 /\ last = [a |-> "init"]

TSpec == TInit /\ [][TNext]_tvars

ASSUME TLCSet(1, 0)
HWM == TLCSet(1, IF l - 1 > TLCGet(1) THEN l - 1 ELSE TLCGet(1))
TraceAccepted == /\ PrintT(<<"VERIF_HWM", TLCGet(1), Len(TLog)>>)
                 /\ TLCGet(1) = Len(TLog)
=============================================================================

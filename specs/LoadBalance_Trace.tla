-------------------------- MODULE LoadBalance_Trace --------------------------
(* Trace validation for C04, sequential: requests sent one after the other through the real      *)
(* ServerPool (handle -> doHandle -> LoadBalancer().ChooseServer -> stubbed transport), with      *)
(* discovery reports (useService) in between.  Every observed target must be one the contract     *)
(* allows.  Events:                                                                               *)
(*   reset  cfg = [policy, static = <<[id,w]...>>, disc]      a fresh pool                        *)
(*   rep    insts = <<[id,w,t]...>>                            useService(instances)               *)
(*   ch     k, r     r = id of the server the transport was called for | "nil" (503, not sent)     *)
(*                   anything else ("panic", "error:...") is accepted by no contract step          *)
EXTENDS LoadBalance, Json, TLC, IOUtils

TLog == ndJsonDeserialize(IOEnv.VERIF_TRACE)

VARIABLE l
tvars == <<vars, l>>

ToSet(q) == {q[i] : i \in 1..Len(q)}
IsEvent(e) == l <= Len(TLog) /\ TLog[l].ev = e /\ l' = l + 1

Fresh(c) ==
    /\ cfg' = c
    /\ gen' = 1 /\ lst' = <<c.static>> /\ cnt' = <<[i \in Ids(c.static) |-> 0]>> /\ sticky' = <<NoKeys>>
    /\ pc' = [p \in Procs |-> "idle"] /\ key' = key /\ sg' = [p \in Procs |-> 1]
    /\ res' = [p \in Procs |-> NIL] /\ nsel' = 0 /\ last' = [a |-> "init"]

TReset ==
    /\ IsEvent("reset")
    /\ LET c == [policy |-> TLog[l].cfg.policy, static |-> ToSet(TLog[l].cfg.static), disc |-> TLog[l].cfg.disc]
       IN Accepted(c) /\ Fresh(c)

TRep == IsEvent("rep") /\ Replace(ToSet(TLog[l].insts))

TCh ==
    /\ IsEvent("ch")
    /\ TLog[l].r \in Allowed(gen, TLog[l].k)
    /\ Effect(gen, TLog[l].k, TLog[l].r)
    /\ last' = [a |-> "ch", k |-> TLog[l].k, r |-> TLog[l].r]
    /\ UNCHANGED <<cfg, gen, lst, pc, key, sg, res>>

(*   batch  picks = <<[k, id, c]...>>   tally of a burst of selections by concurrent callers        *)
TBatch == IsEvent("batch") /\ Batch(ToSet(TLog[l].picks))

(* an observation no contract step explains: report it, and go on with the next trace, so that   *)
(* one run lists every rejected trace (the driver turns the report into the verdict)             *)
RECURSIVE NextReset(_)
NextReset(j) == IF j > Len(TLog) \/ TLog[j].ev = "reset" THEN j ELSE NextReset(j + 1)

TBad ==
    /\ l <= Len(TLog)
    /\ \/ TLog[l].ev = "ch" /\ TLog[l].r \notin Allowed(gen, TLog[l].k)
       \/ TLog[l].ev = "batch" /\ ~BatchOK(ToSet(TLog[l].picks))
    /\ PrintT(<<"VERIF_REJECT", l>>)
    /\ l' = NextReset(l)
    /\ UNCHANGED vars

TNext == TReset \/ TRep \/ TCh \/ TBatch \/ TBad

TInit ==
    /\ l = 1
    /\ cfg = [policy |-> "any", static |-> {}, disc |-> TRUE]
    /\ gen = 1 /\ lst = <<{}>> /\ cnt = <<<<>>>> /\ sticky = <<NoKeys>>
    /\ pc = [p \in Procs |-> "idle"] /\ key = [p \in Procs |-> CHOOSE k \in Keys : TRUE]
    /\ sg = [p \in Procs |-> 1] /\ res = [p \in Procs |-> NIL]
    /\ nsel = 0 /\ last = [a |-> "init"]

TSpec == TInit /\ [][TNext]_tvars

ASSUME TLCSet(1, 0)
HWM == TLCSet(1, IF l - 1 > TLCGet(1) THEN l - 1 ELSE TLCGet(1))
TraceAccepted == /\ PrintT(<<"VERIF_HWM", TLCGet(1), Len(TLog)>>)
                 /\ TLCGet(1) = Len(TLog)
=============================================================================

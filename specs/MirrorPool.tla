------------------------------- MODULE MirrorPool -------------------------------
(* Extension check X05 (a): the Proxy filter's mirror pool (pkg/filters/proxy: Proxy.Handle,      *)
(* ServerPool.handle / handleMirror / prepareRequest).                                            *)
(*                                                                                                *)
(* One client request travels through Proxy.Handle.  Two threads of control:                      *)
(*   P - the pipeline goroutine: evaluates the mirror pool's filter, spawns the mirror goroutine, *)
(*       calls the main pool (send, reply), returns; then the pipeline moves on (possibly to      *)
(*       another namespace of the shared Context) and finally the request ends (the request's     *)
(*       context is cancelled, as the HTTP server does when the handler returns);                 *)
(*   M - the mirror goroutine: binds the request it mirrors, sends it to the mirror backend,      *)
(*       drains and drops whatever comes back.                                                    *)
(* One action per critical section of the code.  The contract (what a user of `mirrorPool` relies *)
(* on, doc/reference/filters.md: "requests are sent to this pool simultaneously when they are     *)
(* sent to candidate pools or main pool") is written as invariants below.                         *)
(*                                                                                                *)
(* Design switches (each has a wrong position that TLC must refute - negative controls):          *)
(*   CaptureLate = FALSE  the mirrored request is bound when the goroutine is spawned.            *)
(*                 TRUE   it is read from the shared Context when the goroutine gets to run       *)
(*                        (`go p.mirrorPool.handle(ctx, true)` evaluates ctx.GetInputRequest()    *)
(*                        inside the new goroutine): refuted by MirrorFaithful / NoCrash.         *)
(*   StreamGuard = TRUE   a streamed request body is never handed to the mirror (a fixed          *)
(*                        placeholder text is sent instead); FALSE: both calls read the one       *)
(*                        stream: refuted by MainFaithful / ClientIndependent.                    *)
(*   WaitMirror  = FALSE  fire-and-forget; TRUE: the reply waits for the mirror call: refuted by  *)
(*                        FireAndForget.                                                          *)
EXTENDS MirrorPoolDefs

CONSTANTS CaptureLate, StreamGuard, WaitMirror,
          NextKinds       \* what the pipeline may do after the Proxy: subset of {"end", "otherNs", "emptyNs"}

Cfgs   == [filter : FilterKinds, mainB : MainBs, mirB : MirBs, next : NextKinds]

VARIABLES orig, cfg,     \* the client's request and the scenario (fixed)
          ns,            \* active namespace of the shared Context: "A" (the Proxy's) or "B"
          pcP, pcM,      \* program counters
          cap,           \* the request the mirror goroutine is bound to
          streamTaken,   \* the one-shot stream body has been consumed
          mainGot,       \* what the main backend received
          mirGot,        \* sequence of what the mirror backend received
          resp, result,  \* what the client gets / the filter result
          cancelled,     \* the request's context has ended
          aborted,       \* the mirror call found the context already ended (nothing was sent)
          crashed,       \* the mirror goroutine panicked (process exit)
          last           \* label of the step just taken
vars == <<orig, cfg, ns, pcP, pcM, cap, streamTaken, mainGot, mirGot, resp, result, cancelled, aborted, crashed, last>>
view == <<orig, cfg, ns, pcP, pcM, cap, streamTaken, mainGot, mirGot, resp, result, cancelled, aborted, crashed>>

ReqIn(n) == IF n = "A" THEN orig ELSE IF cfg.next = "otherNs" THEN R2 ELSE NoReq

Init == /\ orig \in Reqs /\ cfg \in Cfgs
        /\ ns = "A" /\ pcP = "start" /\ pcM = "none" /\ cap = NoReq /\ streamTaken = FALSE
        /\ mainGot = NoView /\ mirGot = <<>> /\ resp = NoResp /\ result = "-"
        /\ cancelled = FALSE /\ aborted = FALSE /\ crashed = FALSE /\ last = "arrive"

(* Proxy.Handle: `if p.mirrorPool != nil && p.mirrorPool.filter.Match(req) { go ... }` *)
PMatch ==
    /\ pcP = "start" /\ pcP' = "main" /\ last' = "match"
    /\ IF Matches(cfg.filter, orig)
       THEN pcM' = "spawned" /\ cap' = (IF CaptureLate THEN NoReq ELSE orig)
       ELSE UNCHANGED <<pcM, cap>>
    /\ UNCHANGED <<orig, cfg, ns, streamTaken, mainGot, mirGot, resp, result, cancelled, aborted, crashed>>

(* the mirror goroutine gets to run: ServerPool.handle builds its serverPoolContext *)
MCapture ==
    /\ pcM = "spawned" /\ last' = "mcapture"
    /\ IF ~CaptureLate THEN pcM' = "ready" /\ UNCHANGED <<cap, crashed>>
       ELSE IF ReqIn(ns) = NoReq THEN pcM' = "done" /\ crashed' = TRUE /\ UNCHANGED cap   \* nil.(*httpprot.Request)
       ELSE pcM' = "ready" /\ cap' = ReqIn(ns) /\ UNCHANGED crashed
    /\ UNCHANGED <<orig, cfg, ns, pcP, streamTaken, mainGot, mirGot, resp, result, cancelled, aborted>>

(* handleMirror: prepareRequest(mirror = true) + fnSendRequest; the mirror backend receives the request *)
MSend ==
    /\ pcM = "ready" /\ last' = "msend"
    /\ IF cancelled THEN pcM' = "done" /\ aborted' = TRUE /\ UNCHANGED <<mirGot, streamTaken>>
       ELSE IF cfg.mirB = "refused" THEN pcM' = "done" /\ UNCHANGED <<mirGot, streamTaken, aborted>>
       ELSE /\ pcM' = "inflight" /\ UNCHANGED aborted
            /\ IF cap.body = "stream" /\ ~StreamGuard
               THEN /\ mirGot' = Append(mirGot, View(cap, IF streamTaken THEN "damaged" ELSE "stream"))
                    /\ streamTaken' = TRUE
               ELSE mirGot' = Append(mirGot, View(cap, MirrorBody(cap))) /\ UNCHANGED streamTaken
    /\ UNCHANGED <<orig, cfg, ns, pcP, cap, mainGot, resp, result, cancelled, crashed>>

(* the mirror backend answers (ok, error status, broken body - at once; slow - whenever it likes); *)
(* the goroutine drains the body and ends.  A mirror that never answers has no such step.          *)
MReply ==
    /\ pcM = "inflight" /\ cfg.mirB # "never" /\ pcM' = "done" /\ last' = "mreply"
    /\ UNCHANGED <<orig, cfg, ns, pcP, cap, streamTaken, mainGot, mirGot, resp, result, cancelled, aborted, crashed>>

(* the mirror call carries the client request's context: when that ends, the call is abandoned *)
MCancel ==
    /\ pcM = "inflight" /\ cancelled /\ pcM' = "done" /\ last' = "mcancel"
    /\ UNCHANGED <<orig, cfg, ns, pcP, cap, streamTaken, mainGot, mirGot, resp, result, cancelled, aborted, crashed>>

(* main pool: prepareRequest(mirror = false) + fnSendRequest *)
PMainSend ==
    /\ pcP = "main" /\ pcP' = "wait" /\ last' = "mainsend"
    /\ IF cfg.mainB = "refused" THEN UNCHANGED <<mainGot, streamTaken>>
       ELSE IF orig.body = "stream"
            THEN mainGot' = View(orig, IF streamTaken THEN "damaged" ELSE "stream") /\ streamTaken' = TRUE
            ELSE mainGot' = View(orig, orig.body) /\ UNCHANGED streamTaken
    /\ UNCHANGED <<orig, cfg, ns, pcM, cap, mirGot, resp, result, cancelled, aborted, crashed>>

PMainReply ==
    /\ pcP = "wait" /\ (WaitMirror => pcM \in {"none", "done"})
    /\ pcP' = "ret" /\ last' = "mainreply"
    /\ resp' = MainOutcome(cfg.mainB, mainGot.body) /\ result' = MainResult(cfg.mainB)
    /\ UNCHANGED <<orig, cfg, ns, pcM, cap, streamTaken, mainGot, mirGot, cancelled, aborted, crashed>>

(* the pipeline goes on with its next filter: Context.UseNamespace *)
PMoveOn ==
    /\ pcP = "ret" /\ pcP' = "moved" /\ last' = "moveon"
    /\ ns' = IF cfg.next = "end" THEN "A" ELSE "B"
    /\ UNCHANGED <<orig, cfg, pcM, cap, streamTaken, mainGot, mirGot, resp, result, cancelled, aborted, crashed>>

(* the response has been written: the server cancels the request's context *)
PFinish ==
    /\ pcP = "moved" /\ pcP' = "fin" /\ last' = "finish" /\ cancelled' = TRUE
    /\ UNCHANGED <<orig, cfg, ns, pcM, cap, streamTaken, mainGot, mirGot, resp, result, aborted, crashed>>

Next == PMatch \/ MCapture \/ MSend \/ MReply \/ MCancel \/ PMainSend \/ PMainReply \/ PMoveOn \/ PFinish
Spec == Init /\ [][Next]_vars

-----------------------------------------------------------------------------
TypeOK == /\ pcP \in {"start", "main", "wait", "ret", "moved", "fin"}
          /\ pcM \in {"none", "spawned", "ready", "inflight", "done"}
          /\ ns \in {"A", "B"} /\ Len(mirGot) <= 1

(* the contract *)
MirrorFaithful      == \A i \in 1..Len(mirGot) : mirGot[i] = ExpMirrorView(orig)
OnlyMatchedMirrored == (pcM # "none" \/ Len(mirGot) > 0) => Matches(cfg.filter, orig)
AtMostOnce          == Len(mirGot) <= 1
MainFaithful        == mainGot # NoView => mainGot = ExpMainView(orig)
ClientIndependent   == resp # NoResp => /\ resp = MainOutcome(cfg.mainB, IF cfg.mainB = "refused" THEN "-" ELSE orig.body)
                                        /\ result = MainResult(cfg.mainB)
NoCrash             == ~crashed
FireAndForget       == pcP = "wait" => ENABLED PMainReply
Quiescent           == pcP = "fin" /\ ~ENABLED Next
NoLeak              == Quiescent => pcM \in {"none", "done"}
Delivered           == (Quiescent /\ Matches(cfg.filter, orig) /\ cfg.mirB # "refused" /\ ~aborted /\ ~crashed) => Len(mirGot) = 1
(* vacuity helpers: each must be REFUTED (the situation is reachable) *)
NeverLate      == ~(last = "mcapture" /\ pcP \in {"moved", "fin"})
NeverAborted   == ~aborted
NeverHeldAtRet == ~(pcP = "ret" /\ pcM = "inflight" /\ cfg.mirB = "never")
=============================================================================

----------------------------- MODULE MirrorPoolDefs -----------------------------
(* X05 (a): vocabulary and contract functions of the mirror-pool model, shared by MirrorPool      *)
(* (state machine of one request) and MirrorPool_Trace (many concurrent requests, real network).  *)
EXTENDS Integers, Sequences, FiniteSets

Methods  == {"GET", "POST"}
Paths    == {"/m/a", "/x"}
XMs      == {"none", "yes", "no"}                 \* header X-Mirror: absent / yes / no
Bodies   == {"empty", "small", "big", "stream"}   \* big: a large buffered body; stream: the request is a stream
Reqs     == [m : Methods, p : Paths, xm : XMs, hop : BOOLEAN, body : Bodies]
(* the request a later filter of the pipeline works on, in another namespace of the same Context *)
R2       == [m |-> "PUT", p |-> "/other", xm |-> "yes", hop |-> FALSE, body |-> "small"]
NoReq    == [m |-> "-", p |-> "-", xm |-> "-", hop |-> FALSE, body |-> "-"]

FilterKinds == {"hdr", "hdrUrl"}    \* mirror filter: X-Mirror exact "yes" [and urls: POST with prefix /m]
MainBs == {"ok", "e500", "refused"}
MirBs  == {"ok", "e500", "slow", "never", "broken", "refused"}

(* what a backend receives: hop-by-hop headers are stripped (hopSeen stays FALSE), end-to-end headers arrive (tag) *)
View(r, b) == [m |-> r.m, p |-> r.p, xm |-> r.xm, hopSeen |-> FALSE, tag |-> TRUE, body |-> b]
NoView     == [m |-> "-", p |-> "-", xm |-> "-", hopSeen |-> FALSE, tag |-> FALSE, body |-> "-"]
NoResp     == [status |-> 0, from |-> "-", echo |-> "-"]

(* proxy.generalMatcher: a header rule must match, and if urls are configured one of them too *)
Matches(f, r) == /\ r.xm = "yes"
                 /\ f = "hdrUrl" => (r.m = "POST" /\ r.p = "/m/a")

(* the contract's expectations *)
MirrorBody(r)   == IF r.body = "stream" THEN "placeholder" ELSE r.body
ExpMirrorView(r) == View(r, MirrorBody(r))
ExpMainView(r)   == View(r, r.body)
(* the main backend echoes the body it received; a refused connection is answered by the proxy with 503 *)
MainOutcome(b, gotBody) ==
    CASE b = "ok"      -> [status |-> 200, from |-> "main", echo |-> gotBody]
      [] b = "e500"    -> [status |-> 500, from |-> "main", echo |-> gotBody]
      [] b = "refused" -> [status |-> 503, from |-> "proxy", echo |-> "-"]
MainResult(b) == IF b = "refused" THEN "serverError" ELSE ""
=============================================================================

----------------------------- MODULE MirrorPool_Gen -----------------------------
(* Generator wrapper for X05 (a): `out` is the JSON of the step just taken together with what the *)
(* harness must observe on the real Proxy afterwards.                                             *)
EXTENDS MirrorPool, Json
VARIABLE out
Obs == [pcM |-> pcM', spawned |-> (pcM' # "none"), mainGot |-> mainGot', mirGot |-> mirGot',
        resp |-> resp', result |-> result', ns |-> ns', cancelled |-> cancelled', aborted |-> aborted']
GInit == Init /\ out = ToJson([a |-> "arrive", orig |-> orig, cfg |-> cfg])
GNext == Next /\ out' = ToJson([a |-> last', obs |-> Obs])
GSpec == GInit /\ [][GNext]_<<vars, out>>
gview == view
(* directed generation: only requests the mirror filter matches / only schedules in which the     *)
(* mirror goroutine gets to run after the pipeline has moved on                                   *)
GenMatched == Matches(cfg.filter, orig)
GenLate    == (last' = "mcapture") => pcP \in {"moved", "fin"}
=============================================================================

---------------------------- MODULE MirrorPool_Trace ----------------------------
(* X05 (a), trace validation: many concurrent client requests went through real Proxy filters     *)
(* (real http.Client, real loopback main and mirror backends, no schedule control).  The log has  *)
(*   req(id, orig, cfg)   the harness is about to call Proxy.Handle                               *)
(*   mainrecv(id, got)    the main backend received a request (classified by the backend)         *)
(*   mirrecv(id, got)     the mirror backend received a request                                   *)
(*   resp(id, resp, result)  Proxy.Handle returned                                                *)
(*   quiesce              barrier: every Handle has returned and every mirror goroutine that is   *)
(*                        still alive is parked in a mirror backend that holds its answer         *)
(*   end(alive)           barrier after all request contexts were cancelled: mirror goroutines    *)
(*                        still alive                                                             *)
(* Every event must be allowed by the contract of MirrorPool for the request it belongs to.       *)
EXTENDS MirrorPoolDefs, Json, TLC, IOUtils

TLog == ndJsonDeserialize(IOEnv.VERIF_TRACE)

VARIABLES l,     \* next trace line
          st     \* id -> [orig, cfg, mainGot, mirN, resp]
tvars == <<l, st>>

IsEvent(e) == l <= Len(TLog) /\ TLog[l].ev = e /\ l' = l + 1
E == TLog[l]
Upd(id, r) == st' = [k \in DOMAIN st \cup {id} |-> IF k = id THEN r ELSE st[k]]

TReset == IsEvent("reset") /\ st' = <<>>
TReq == /\ IsEvent("req") /\ E.id \notin DOMAIN st
        /\ Upd(E.id, [orig |-> E.orig, cfg |-> E.cfg, mainGot |-> NoView, mirN |-> 0, resp |-> FALSE])
(* MainFaithful: the main backend gets the client's request, once, before the reply *)
TMainRecv == /\ IsEvent("mainrecv") /\ E.id \in DOMAIN st
             /\ LET s == st[E.id] IN
                /\ s.mainGot = NoView /\ ~s.resp /\ s.cfg.mainB # "refused"
                /\ E.got = ExpMainView(s.orig)
                /\ Upd(E.id, [s EXCEPT !.mainGot = E.got])
(* OnlyMatchedMirrored, AtMostOnce, MirrorFaithful *)
TMirRecv == /\ IsEvent("mirrecv") /\ E.id \in DOMAIN st
            /\ LET s == st[E.id] IN
               /\ Matches(s.cfg.filter, s.orig) /\ s.cfg.mirB # "refused" /\ s.mirN = 0
               /\ E.got = ExpMirrorView(s.orig)
               /\ Upd(E.id, [s EXCEPT !.mirN = 1])
(* ClientIndependent: status / headers / body / result are those of the main pool alone *)
TResp == /\ IsEvent("resp") /\ E.id \in DOMAIN st
         /\ LET s == st[E.id] IN
            /\ ~s.resp /\ (s.cfg.mainB # "refused" => s.mainGot # NoView)
            /\ E.resp = MainOutcome(s.cfg.mainB, IF s.cfg.mainB = "refused" THEN "-" ELSE s.orig.body)
            /\ E.result = MainResult(s.cfg.mainB)
            /\ Upd(E.id, [s EXCEPT !.resp = TRUE])
(* Delivered *)
TQuiesce == /\ IsEvent("quiesce") /\ UNCHANGED st
            /\ \A id \in DOMAIN st : LET s == st[id] IN
                  /\ s.resp
                  /\ (Matches(s.cfg.filter, s.orig) /\ s.cfg.mirB # "refused") => s.mirN = 1
(* NoLeak *)
TEnd == IsEvent("end") /\ E.alive = 0 /\ UNCHANGED st

TNext == TReset \/ TReq \/ TMainRecv \/ TMirRecv \/ TResp \/ TQuiesce \/ TEnd
TInit == l = 1 /\ st = <<>>
TSpec == TInit /\ [][TNext]_tvars

ASSUME TLCSet(1, 0)
HWM == TLCSet(1, IF l - 1 > TLCGet(1) THEN l - 1 ELSE TLCGet(1))
Accepted == /\ PrintT(<<"VERIF_HWM", TLCGet(1), Len(TLog)>>)
            /\ TLCGet(1) = Len(TLog)
=============================================================================

------------------------------- MODULE MockFilter -------------------------------
(* Extension check X05 (b): the Mock filter (pkg/filters/mock) as a decision table.              *)
(*                                                                                                *)
(* A Mock object is configured with a list of rules (AddRule ... Seal) and then handles requests *)
(* (Handle).  The contract is the reading of doc/reference/filters.md (Mock, mock.Rule,          *)
(* mock.MatchRule, urlrule.StringMatch):                                                         *)
(*   * a rule matches a request when its path criteria and its header criteria both hold;        *)
(*     path: no criteria -> holds; `path` -> equality; `pathPrefix` -> prefix; both -> either;   *)
(*     headers: none -> holds; matchAllHeaders -> every listed header satisfies its StringMatch, *)
(*     otherwise at least one does; a header satisfies its StringMatch when one of its values    *)
(*     does (exact OR prefix OR regex); `empty` is satisfied exactly by an absent header;        *)
(*   * the FIRST matching rule produces the response (code, headers, body), result "mocked",     *)
(*     after the rule's delay unless the request is cancelled meanwhile;                         *)
(*   * no matching rule: result "", no response is produced.                                     *)
(* Strings the module looks into are sequences of one-character strings.                         *)
(*                                                                                                *)
(* Design switches:                                                                               *)
(*   FirstWins    = TRUE (contract, code); FALSE = the last matching rule wins: refuted.          *)
(*   CompileRegex = TRUE (contract: a `regex` criterion works); FALSE = the criterion is never    *)
(*                  compiled and never matches: refuted by AsDocumented.  NOTE: this is what the  *)
(*                  pinned code does (Mock.reload does not call StringMatch.Init): finding.       *)
(*   Pool         = "full" | "small" | "tiny": size of the rule universe (exhaustive runs use the *)
(*                  smaller ones for two-rule configurations).                                    *)
EXTENDS Integers, Sequences, FiniteSets

CONSTANTS MaxRules, MaxReqs, FirstWins, CompileRegex, Pool,
          Cancels       \* request contexts considered: {FALSE, TRUE} or, to halve an exhaustive run, {FALSE}

E  == <<>>
(* request paths *)
P_root == <<"/">>
P_u    == <<"/", "u">>
P_u1   == <<"/", "u", "/", "1">>
P_u12  == <<"/", "u", "/", "1", "2">>
P_o    == <<"/", "o">>
ReqPaths == {P_root, P_u, P_u1, P_u12, P_o}
(* header values *)
V1 == <<"v", "1">>
V2 == <<"v", "2">>
W  == <<"w">>
XAs == {<<>>, <<V1>>, <<W>>, <<W, V2>>}    \* values of request header X-A (a header may be repeated)
XBs == {<<>>, <<V1>>}                      \* values of request header X-B
Reqs == [p : ReqPaths, xa : XAs, xb : XBs, cancelled : Cancels]

(* urlrule.StringMatch; regex is an abstract name: "RV" is ^v.$ , "R2" is 2$ *)
NoSM == [on |-> FALSE, exact |-> E, prefix |-> E, regex |-> "", empty |-> FALSE]
SM(ex, pre, re, em) == [on |-> TRUE, exact |-> ex, prefix |-> pre, regex |-> re, empty |-> em]
M1 == SM(V1, E, "", FALSE)
M2 == SM(E, <<"v">>, "", FALSE)
M3 == SM(E, E, "RV", FALSE)
M4 == SM(E, E, "", TRUE)
M5 == SM(W, E, "R2", FALSE)
XAMatchers == IF Pool = "full" THEN {NoSM, M1, M2, M3, M4, M5} ELSE IF Pool = "small" THEN {NoSM, M2, M3, M4} ELSE {NoSM, M3, M4}
XBMatchers == IF Pool = "full" THEN {NoSM, M1, M4} ELSE {NoSM, M1}
RulePaths    == IF Pool = "full" THEN {E, P_u1, P_o} ELSE {E, P_u1}
RulePrefixes == IF Pool = "full" THEN {E, P_root, P_u, P_u1} ELSE {E, P_u}
(* what a rule answers; the harness adds a header X-Rule: <index> to every rule *)
Outs == IF Pool = "full"
        THEN {[code |-> 200, hdr |-> TRUE, body |-> "b", delay |-> 0], [code |-> 404, hdr |-> FALSE, body |-> "", delay |-> 0],
              [code |-> 503, hdr |-> TRUE, body |-> "", delay |-> 1], [code |-> 200, hdr |-> FALSE, body |-> "b", delay |-> 1]}
        ELSE IF Pool = "small"
        THEN {[code |-> 200, hdr |-> TRUE, body |-> "b", delay |-> 0], [code |-> 503, hdr |-> FALSE, body |-> "", delay |-> 1]}
        ELSE {[code |-> 200, hdr |-> TRUE, body |-> "b", delay |-> 1]}
Rules == [path : RulePaths, prefix : RulePrefixes, xa : XAMatchers, xb : XBMatchers, all : BOOLEAN, out : Outs]

IsPrefix(a, b) == Len(a) <= Len(b) /\ \A i \in 1..Len(a) : a[i] = b[i]
RegexMatch(re, v) == CASE re = "RV" -> Len(v) = 2 /\ v[1] = "v"
                       [] re = "R2" -> Len(v) >= 1 /\ v[Len(v)] = "2"
                       [] OTHER -> FALSE

(* urlrule.StringMatch.Match; `rx` says whether regex criteria are usable *)
SMatch(m, v, rx) == \/ m.empty /\ v = E
                    \/ m.exact # E /\ v = m.exact
                    \/ m.prefix # E /\ IsPrefix(m.prefix, v)
                    \/ m.regex # "" /\ rx /\ RegexMatch(m.regex, v)
(* one header against its criterion (Mock.match: matchOneHeader) *)
HdrOK(m, vals, rx) == IF Len(vals) = 0 THEN m.empty
                      ELSE ~m.empty /\ \E i \in 1..Len(vals) : SMatch(m, vals[i], rx)
(* declarative reading of the header criteria *)
Listed(r) == {k \in {"xa", "xb"} : (IF k = "xa" THEN r.xa ELSE r.xb).on}
KeyOK(r, q, k, rx) == IF k = "xa" THEN HdrOK(r.xa, q.xa, rx) ELSE HdrOK(r.xb, q.xb, rx)
HeadersOK(r, q, rx) == \/ Listed(r) = {}
                       \/ r.all /\ \A k \in Listed(r) : KeyOK(r, q, k, rx)
                       \/ ~r.all /\ \E k \in Listed(r) : KeyOK(r, q, k, rx)
PathOK(r, q) == \/ r.path = E /\ r.prefix = E
                \/ r.path # E /\ q.p = r.path
                \/ r.prefix # E /\ IsPrefix(r.prefix, q.p)
RuleMatches(r, q, rx) == PathOK(r, q) /\ HeadersOK(r, q, rx)

(* implementation shape of the header loop (Go map iteration: any order of the listed keys):    *)
(* for k in order { if ok(k) { if !all {return true} } else { if all {return false} } } return all *)
RECURSIVE Loop(_, _, _, _)
Loop(order, r, q, rx) ==
    IF order = <<>> THEN r.all
    ELSE IF KeyOK(r, q, Head(order), rx)
         THEN (IF ~r.all THEN TRUE ELSE Loop(Tail(order), r, q, rx))
         ELSE (IF r.all THEN FALSE ELSE Loop(Tail(order), r, q, rx))
Orders(S) == IF S = {} THEN {<<>>} ELSE IF Cardinality(S) = 1 THEN {<<CHOOSE k \in S : TRUE>>} ELSE {<<"xa", "xb">>, <<"xb", "xa">>}
ImplHeadersOK(r, q, order, rx) == IF Listed(r) = {} THEN TRUE ELSE Loop(order, r, q, rx)
(* implementation shape of matchPath *)
ImplPathOK(r, q) == IF r.path = E /\ r.prefix = E THEN TRUE
                    ELSE IF r.path = q.p THEN TRUE
                    ELSE IF r.prefix = E THEN FALSE
                    ELSE IsPrefix(r.prefix, q.p)

Matching(rs, q, rx) == {i \in 1..Len(rs) : RuleMatches(rs[i], q, rx)}
Min(S) == CHOOSE x \in S : \A y \in S : x <= y
Max(S) == CHOOSE x \in S : \A y \in S : x >= y
Decide(rs, q, rx) == LET S == Matching(rs, q, rx) IN IF S = {} THEN 0 ELSE IF FirstWins THEN Min(S) ELSE Max(S)
DocDecide(rs, q)  == LET S == Matching(rs, q, TRUE) IN IF S = {} THEN 0 ELSE Min(S)

VARIABLES rules, sealed, n, last
vars == <<rules, sealed, n, last>>
view == <<rules, sealed, last>>

Init == rules = <<>> /\ sealed = FALSE /\ n = 0 /\ last = [a |-> "init"]

AddRule(r) == /\ ~sealed /\ Len(rules) < MaxRules
              /\ rules' = Append(rules, r) /\ last' = [a |-> "addrule", rule |-> r]
              /\ UNCHANGED <<sealed, n>>
Seal == /\ ~sealed /\ Len(rules) >= 1 /\ sealed' = TRUE /\ last' = [a |-> "seal", rules |-> rules]
        /\ UNCHANGED <<rules, n>>
(* Mock.Handle *)
Handle(q) ==
    LET i == Decide(rules, q, CompileRegex) IN
    /\ sealed /\ n < MaxReqs /\ n' = n + 1
    /\ last' = [a |-> "handle", req |-> q, rule |-> i,
                result |-> IF i = 0 THEN "" ELSE "mocked",
                respSet |-> i # 0,
                code |-> IF i = 0 THEN 0 ELSE rules[i].out.code,
                hdr |-> IF i = 0 THEN FALSE ELSE rules[i].out.hdr,
                body |-> IF i = 0 THEN "" ELSE rules[i].out.body,
                waits |-> i # 0 /\ rules[i].out.delay > 0 /\ ~q.cancelled]
    /\ UNCHANGED <<rules, sealed>>

Next == \/ ~sealed /\ Len(rules) < MaxRules /\ \E r \in Rules : AddRule(r)
        \/ Seal
        \/ sealed /\ n < MaxReqs /\ \E q \in Reqs : Handle(q)
Spec == Init /\ [][Next]_vars

-----------------------------------------------------------------------------
H == last.a = "handle"
FirstMatchWins == H /\ last.rule > 0 =>
                    /\ RuleMatches(rules[last.rule], last.req, CompileRegex)
                    /\ \A j \in 1..(last.rule - 1) : ~RuleMatches(rules[j], last.req, CompileRegex)
NoneMeansNone  == H /\ last.rule = 0 =>
                    /\ \A j \in 1..Len(rules) : ~RuleMatches(rules[j], last.req, CompileRegex)
                    /\ last.result = "" /\ ~last.respSet
MockedIffMatched == H => ((last.result = "mocked") <=> (last.rule > 0)) /\ (last.respSet <=> (last.rule > 0))
AnswerIsTheRules == H /\ last.rule > 0 => /\ last.code = rules[last.rule].out.code
                                          /\ last.body = rules[last.rule].out.body
                                          /\ last.hdr = rules[last.rule].out.hdr
(* the code's loops compute the declarative reading, whatever the map iteration order *)
LoopIsDeclarative == \A i \in 1..Len(rules) : \A q \in (IF H THEN {last.req} ELSE {}) :
                        /\ ImplPathOK(rules[i], q) = PathOK(rules[i], q)
                        /\ \A o \in Orders(Listed(rules[i])) :
                              ImplHeadersOK(rules[i], q, o, CompileRegex) = HeadersOK(rules[i], q, CompileRegex)
(* the documented behaviour: regex criteria work *)
AsDocumented == H => last.rule = DocDecide(rules, last.req)
(* vacuity helpers (each must be refuted) *)
NeverSecond  == ~(H /\ last.rule >= 2)
NeverRegex   == ~(H /\ last.rule > 0 /\ DocDecide(rules, last.req) # Decide(rules, last.req, FALSE))
NeverNone    == ~(H /\ last.rule = 0)
NeverWaits   == ~(H /\ last.waits)
=============================================================================

----------------------------- MODULE MockFilter_Gen -----------------------------
(* Generator wrapper for X05 (b): `out` = JSON of the step just taken (configuration steps and   *)
(* Handle steps with the predicted outcome).  TLC's simulator enumerates all successors of a     *)
(* state: a rule is therefore drawn in two stages (path criteria and answer, then header         *)
(* criteria) - GNext refines Next with one stuttering step per rule.                             *)
EXTENDS MockFilter, Json
VARIABLES out, draft
NoDraft == [on |-> FALSE, path |-> E, prefix |-> E, all |-> FALSE, out |-> CHOOSE o \in Outs : TRUE]
GInit == Init /\ out = ToJson([a |-> "init"]) /\ draft = NoDraft
GDraft == /\ ~draft.on /\ ~sealed /\ Len(rules) < MaxRules
          /\ \E p \in RulePaths, pre \in RulePrefixes, al \in BOOLEAN, o \in Outs :
                draft' = [on |-> TRUE, path |-> p, prefix |-> pre, all |-> al, out |-> o]
          /\ UNCHANGED <<vars, out>>
GAdd == /\ draft.on /\ draft' = NoDraft
        /\ \E xa \in XAMatchers, xb \in XBMatchers :
              AddRule([path |-> draft.path, prefix |-> draft.prefix, xa |-> xa, xb |-> xb, all |-> draft.all, out |-> draft.out])
        /\ out' = ToJson(last')
GRest == /\ ~draft.on /\ UNCHANGED draft
         /\ (Seal \/ (sealed /\ n < MaxReqs /\ \E q \in Reqs : Handle(q)))
         /\ out' = ToJson(last')
GNext == GDraft \/ GAdd \/ GRest
GSpec == GInit /\ [][GNext]_<<vars, out, draft>>
=============================================================================

------------------------------- MODULE MqttConn -------------------------------
(* X07 - one client connection of the MQTT proxy (pkg/object/mqttproxy: Broker.handleConn,        *)
(* Client.readLoop / writeLoop / processPacket / close): the protocol state machine, the           *)
(* keep-alive timer and the will, with a logical clock.                                             *)
(*                                                                                                  *)
(* Life of a connection (field st of the state record s):                                            *)
(*   "new"     the socket is accepted, handleConn waits for the first packet (no timer at all);      *)
(*   "up"      CONNECT accepted (CONNACK 0), readLoop / writeLoop run;                               *)
(*   "zombie"  the broker has closed the Client from inside (Client.close(): a newer connection with *)
(*             the same client id took over, the stored session was deleted, the session watcher     *)
(*             reconciled): `done` is closed, the writer is gone, but the socket stays open until    *)
(*             readLoop comes back from its blocking read - the next packet, end of stream or the     *)
(*             keep-alive deadline - and the teardown runs only then (if the loop was between two     *)
(*             packets when the Client was closed it ends at once: ZombieEnds);                        *)
(*   "closed"  readLoop's deferred teardown has run and handleConn has closed the socket.            *)
(*                                                                                                  *)
(* Clock: one tick = half a keep-alive period (K/2 seconds; K = 0: an arbitrary unit).  readLoop     *)
(* arms a deadline of K + K/2 before every read, i.e. a connection that stays silent for             *)
(* GraceTicks = 3 ticks after its last packet is ended by the broker ([MQTT-3.1.2-24]); K = 0         *)
(* disables the timer.  idle = ticks since the last packet, armed = ticks since the deadline was     *)
(* armed (the same unless Rearm = FALSE, the negative control "timer armed once").                    *)
(*                                                                                                  *)
(* Will: the CONNECT's will is kept by the Client and handed to the Publish pipeline (the            *)
(* backend - this proxy does not route it to subscribers) by readLoop's deferred teardown, exactly    *)
(* once, whenever the connection ends in another way than by a DISCONNECT packet: end of stream,      *)
(* keep-alive expiry, protocol error, and - late - for a connection that was taken over: when that   *)
(* zombie finally ends.  DISCONNECT discards it.  Nothing is handed over for a connection that        *)
(* never got up, and nothing without will flag.                                                       *)
(*                                                                                                  *)
(* Replies (what the code does; deviations from MQTT 3.1.1 are switchable so that TLC can name them): *)
(*   CONNECT ok -> CONNACK 0; CONNECT refused by paho's Validate -> CONNACK code, closed;             *)
(*     session-present flag: SPRule "clean" = the code (copies the CONNECT's clean-session flag),     *)
(*     "mqtt" = [MQTT-3.2.2-1..4] (0 for a clean session / a refusal / no stored session);            *)
(*   first packet not CONNECT -> closed, no reply;   second CONNECT -> closed (protocol error);       *)
(*   PINGREQ -> PINGRESP;  UNSUBSCRIBE -> UNSUBACK same id (malformed filters included);              *)
(*   SUBSCRIBE, every filter well-formed -> SUBACK same id, one code per filter in order: Grant       *)
(*     "header" = the code (the QoS bits of the SUBSCRIBE's fixed header, i.e. 1, whatever was         *)
(*     requested), "capped" = [MQTT-3.8.4-6] min(requested, 1); a SUBSCRIBE with a malformed filter   *)
(*     is dropped as a whole without SUBACK (MQTT: SUBACK with 0x80) and the connection stays;        *)
(*   PUBLISH -> Publish pipeline once; QoS1 -> PUBACK same id; QoS0/QoS2 -> nothing (QoS2 unsupported, *)
(*     no PUBREC);  PUBACK -> nothing;  DISCONNECT -> closed, will discarded;                          *)
(*   packets only a broker sends, the QoS2 handshake, unknown packet types -> closed (abnormal).       *)
EXTENDS Integers, Sequences

CONSTANTS GraceTicks,   \* 3 = one and a half keep-alive periods        (negative control: 2)
          Rearm,        \* TRUE: every packet re-arms the timer           (negative control: FALSE)
          WillOnDisc,   \* FALSE: DISCONNECT discards the will            (negative control: TRUE)
          WillTwice,    \* FALSE; TRUE = a taken-over connection's will is processed at the takeover and again at its end
          Grant,        \* "header" | "capped"
          SPRule,       \* "clean" | "mqtt"
          MaxTick,      \* bound of the logical clock
          MaxPubs       \* bound of the PUBLISH counter

VARIABLES s,            \* the connection (record, see S0)
          last          \* the step just taken: action, packet, replies, state before - observation only

vars == <<s, last>>

MaxQoS == 1
Min(a, b) == IF a < b THEN a ELSE b

(* ---- packets: one record shape for all ---------------------------------------------------------- *)
(* t  packet type;  id  packet identifier (CONNECT: 1 = clean session);  q  QoS (PUBLISH; CONNECT:    *)
(* will QoS; SUBSCRIBE: fixed header bits = 1);  fs  filters <<[ok, q]>> (SUBSCRIBE / UNSUBSCRIBE);   *)
(* k keep-alive;  w will topic number (0 = no will flag);  v CONNECT variant                          *)
Pkt(t, id, q, fs, k, w, v) == [t |-> t, id |-> id, q |-> q, fs |-> fs, k |-> k, w |-> w, v |-> v]
NoPkt == Pkt("none", 0, 0, <<>>, 0, 0, "")
Rep(t, id, rc) == [t |-> t, id |-> id, rc |-> rc]

Filters == [ok : BOOLEAN, q : 0..2]
FilterSeqs == {<<f>> : f \in Filters} \cup {<<f, g>> : f \in Filters, g \in Filters}
UnsubSeqs == {<<[ok |-> a, q |-> 0]>> : a \in BOOLEAN} \cup {<<[ok |-> a, q |-> 0], [ok |-> b, q |-> 0]>> : a \in BOOLEAN, b \in BOOLEAN}
Ids == {1, 2}
ConnectPkts == {Pkt("connect", c, wq[2], <<>>, k, wq[1], v) :
                   c \in {0, 1}, k \in 0..2, wq \in {<<0, 0>>, <<1, 0>>, <<2, 1>>}, v \in {"ok", "badproto", "noid"}}
BrokerOnly == {"connack", "suback", "unsuback", "pingresp", "pubrec", "pubrel", "pubcomp", "garbage"}
Packets == ConnectPkts
           \cup {Pkt("ping", 0, 0, <<>>, 0, 0, ""), Pkt("disc", 0, 0, <<>>, 0, 0, "")}
           \cup {Pkt("sub", i, 1, fs, 0, 0, "") : i \in Ids, fs \in FilterSeqs}
           \cup {Pkt("unsub", i, 1, fs, 0, 0, "") : i \in Ids, fs \in UnsubSeqs}
           \cup {Pkt("pub", i, q, <<>>, 0, 0, "") : i \in Ids, q \in 0..2}
           \cup {Pkt("puback", i, 0, <<>>, 0, 0, "") : i \in Ids}
           \cup {Pkt(t, 0, 0, <<>>, 0, 0, "") : t \in BrokerOnly}

(* ---- the connection -------------------------------------------------------------------------- *)
NoWill == [w |-> 0, q |-> 0]
S0 == [st |-> "new", ka |-> 0, will |-> NoWill, idle |-> 0, armed |-> 0,
       wills |-> <<>>,      \* wills handed to the Publish pipeline
       pubs |-> 0,          \* client PUBLISH packets handed to the Publish pipeline
       cause |-> "none"]    \* how it ended: disc | drop | expire | error | zombie (closed from inside, then a packet) | refused | nonconnect

Live(s0) == s0.st \in {"up", "zombie"}

(* readLoop's deferred teardown + handleConn's conn.Close() *)
End(s0, cause) ==
    [s0 EXCEPT !.st = "closed", !.cause = cause,
               !.wills = IF s0.will.w # 0 /\ Live(s0) /\ (cause # "disc" \/ WillOnDisc) THEN Append(@, s0.will) ELSE @]

Rearmed(s0) == [s0 EXCEPT !.idle = 0, !.armed = IF Rearm THEN 0 ELSE @]

ConnCode(v) == CASE v = "ok" -> 0 [] v = "badproto" -> 1 [] v = "noid" -> 2
SPOf(p, rule) == IF rule = "clean" THEN p.id ELSE 0      \* no session is stored for the id in this model
Granted(p, i, g) == IF g = "header" THEN p.q ELSE Min(p.fs[i].q, MaxQoS)
AllOk(fs) == \A i \in 1..Len(fs) : fs[i].ok

(* handleConn: the first packet *)
NewHandle(s0, p, g, r) ==
    IF p.t # "connect" THEN [s |-> End(s0, "nonconnect"), rep |-> <<>>]
    ELSE IF p.v # "ok" THEN [s |-> End(s0, "refused"), rep |-> <<Rep("connack", SPOf(p, r), <<ConnCode(p.v)>>)>>]
    ELSE [s |-> [s0 EXCEPT !.st = "up", !.ka = p.k, !.will = IF p.w = 0 THEN NoWill ELSE [w |-> p.w, q |-> p.q],
                           !.idle = 0, !.armed = 0],
          rep |-> <<Rep("connack", SPOf(p, r), <<0>>)>>]

(* readLoop / processPacket on a connection that is up *)
UpHandle(s0, p, g, r) ==
    LET a == Rearmed(s0) IN
    CASE p.t = "ping"   -> [s |-> a, rep |-> <<Rep("pingresp", 0, <<>>)>>]
      [] p.t = "sub"    -> [s |-> a, rep |-> IF AllOk(p.fs)
                                             THEN <<Rep("suback", p.id, [i \in 1..Len(p.fs) |-> Granted(p, i, g)])>>
                                             ELSE <<>>]
      [] p.t = "unsub"  -> [s |-> a, rep |-> <<Rep("unsuback", p.id, <<>>)>>]
      [] p.t = "pub"    -> [s |-> [a EXCEPT !.pubs = @ + 1], rep |-> IF p.q = 1 THEN <<Rep("puback", p.id, <<>>)>> ELSE <<>>]
      [] p.t = "puback" -> [s |-> a, rep |-> <<>>]
      [] p.t = "disc"   -> [s |-> End(s0, "disc"), rep |-> <<>>]
      [] OTHER          -> [s |-> End(s0, "error"), rep |-> <<>>]

(* readLoop of a connection the broker has closed from inside: the packet is still processed (the    *)
(* reply has no writer any more), then the loop sees `done` and ends                                   *)
ZombieHandle(s0, p, g, r) ==
    LET h == UpHandle(s0, p, g, r) IN
    [s |-> IF h.s.st = "closed" THEN h.s ELSE End(h.s, "zombie"), rep |-> <<>>]

HandleV(s0, p, g, r) == CASE s0.st = "new" -> NewHandle(s0, p, g, r)
                          [] s0.st = "up" -> UpHandle(s0, p, g, r)
                          [] s0.st = "zombie" -> ZombieHandle(s0, p, g, r)
Handle(s0, p) == HandleV(s0, p, Grant, SPRule)

CanExpire(s0) == Live(s0) /\ s0.ka > 0 /\ s0.armed >= GraceTicks

(* ---- actions ---------------------------------------------------------------------------------- *)
Init == s = S0 /\ last = [a |-> "init", p |-> NoPkt, rep |-> <<>>, pre |-> "new"]

(* the client sends a packet and the broker handles it (a connection whose deadline has passed does  *)
(* not get that far: Expire)                                                                          *)
Recv(p) == /\ s.st # "closed" /\ ~CanExpire(s) /\ (p.t = "pub" => s.pubs < MaxPubs)
           /\ s' = Handle(s, p).s
           /\ last' = [a |-> "pkt", p |-> p, rep |-> Handle(s, p).rep, pre |-> s.st]

(* the client's end of the stream ends (network drop, half-close) *)
Drop == /\ s.st # "closed"
        /\ s' = End(s, "drop") /\ last' = [a |-> "drop", p |-> NoPkt, rep |-> <<>>, pre |-> s.st]

Tick == /\ Live(s) /\ s.idle < MaxTick /\ ~CanExpire(s)
        /\ s' = [s EXCEPT !.idle = @ + 1, !.armed = @ + 1]
        /\ last' = [a |-> "tick", p |-> NoPkt, rep |-> <<>>, pre |-> s.st]

(* the read deadline fires *)
Expire == /\ CanExpire(s)
          /\ s' = End(s, "expire") /\ last' = [a |-> "expire", p |-> NoPkt, rep |-> <<>>, pre |-> s.st]

(* another connection with the same client id is accepted (handleConn: go oldClient.close()), or the  *)
(* broker closes the Client for another reason (deleteSession, reconnectWatcher)                       *)
Takeover == /\ s.st = "up"
            /\ s' = [s EXCEPT !.st = "zombie",
                              !.wills = IF WillTwice /\ s.will.w # 0 THEN Append(@, s.will) ELSE @]
            /\ last' = [a |-> "takeover", p |-> NoPkt, rep |-> <<>>, pre |-> s.st]

(* a Client that was closed from inside while its readLoop was between two packets (not blocked in a read): the loop  *)
(* sees `done` at once and the connection ends without the client doing anything                                     *)
ZombieEnds == /\ s.st = "zombie"
              /\ s' = End(s, "zombie") /\ last' = [a |-> "zend", p |-> NoPkt, rep |-> <<>>, pre |-> s.st]

Next == (\E p \in Packets : Recv(p)) \/ Drop \/ Tick \/ Expire \/ Takeover \/ ZombieEnds
Spec == Init /\ [][Next]_vars

(* ---- contract --------------------------------------------------------------------------------- *)
TypeOK == /\ s.st \in {"new", "up", "zombie", "closed"} /\ s.ka \in 0..2 /\ s.idle \in 0..MaxTick /\ s.armed \in 0..MaxTick
          /\ s.pubs \in 0..MaxPubs /\ Len(s.wills) <= 2

(* will: at most once, only the CONNECT's own, never while the connection is open *)
WillAtMostOnce == Len(s.wills) <= 1
WillIsTheConnects == s.wills # <<>> => s.will.w # 0 /\ s.wills[1] = s.will
NoWillWhileOpen == s.st # "closed" => s.wills = <<>>
(* ... exactly when a connection that was up and had the will flag ends otherwise than by DISCONNECT *)
WillIffAbnormalEnd == s.st = "closed" =>
      (s.wills # <<>>) = (s.will.w # 0 /\ s.cause \in {"drop", "expire", "error", "zombie"})
NoWillAfterDisconnect == s.cause = "disc" => s.wills = <<>>

(* keep-alive: the broker ends a silent connection at 1.5 x K and never before ([MQTT-3.1.2-24]), K = 0: never *)
NoEarlyExpiry == s.cause = "expire" => s.ka > 0 /\ s.idle >= 3
ExpiryIsForced == Live(s) /\ s.ka > 0 => s.idle <= 3
(* every packet re-arms the timer: directly after a packet nothing can expire *)
RearmedByPacket == [][last'.a = "pkt" /\ s'.st # "closed" => ~CanExpire(s')]_vars

(* replies *)
IsSuback(x) == x.t = "suback"
ReplyDiscipline == [][last'.a = "pkt" =>
      LET p == last'.p  rp == last'.rep  pre == last'.pre IN
      /\ pre = "up" /\ p.t = "ping" => rp = <<Rep("pingresp", 0, <<>>)>>
      /\ pre = "up" /\ p.t = "unsub" => rp = <<Rep("unsuback", p.id, <<>>)>>
      /\ pre = "up" /\ p.t = "sub" /\ AllOk(p.fs) =>
             /\ Len(rp) = 1 /\ rp[1].t = "suback" /\ rp[1].id = p.id /\ Len(rp[1].rc) = Len(p.fs)
             /\ \A i \in 1..Len(p.fs) : rp[1].rc[i] \in 0..MaxQoS
      /\ pre = "up" /\ p.t = "pub" => (rp = IF p.q = 1 THEN <<Rep("puback", p.id, <<>>)>> ELSE <<>>) /\ s'.pubs = s.pubs + 1
      /\ p.t # "pub" => s'.pubs = s.pubs
      /\ pre = "new" /\ p.t # "connect" => rp = <<>> /\ s'.st = "closed"
      /\ pre = "new" /\ p.t = "connect" => Len(rp) = 1 /\ rp[1].t = "connack" /\ (rp[1].rc[1] = 0) = (s'.st = "up")
      /\ pre # "new" /\ p.t = "connect" => s'.st = "closed"                 \* second CONNECT
      /\ p.t \in BrokerOnly \cup {"disc"} => s'.st = "closed"
      /\ pre = "up" /\ p.t \in {"ping", "sub", "unsub", "pub", "puback"} => s'.st = "up"
      /\ Len(rp) <= 1]_vars
ClosedIsFinal == [][s.st = "closed" => s' = s]_vars

(* ---- MQTT 3.1.1 rules the code deviates from: refuted for Grant = "header" / SPRule = "clean" ---- *)
MqttGrantNotAboveRequest == [][last'.a = "pkt" /\ last'.p.t = "sub" /\ last'.rep # <<>> =>
      \A i \in 1..Len(last'.p.fs) : last'.rep[1].rc[i] <= last'.p.fs[i].q]_vars
MqttSessionPresent == [][last'.a = "pkt" /\ last'.p.t = "connect" /\ last'.rep # <<>> /\ (last'.p.id = 1 \/ last'.rep[1].rc[1] # 0) =>
      last'.rep[1].id = 0]_vars
=============================================================================

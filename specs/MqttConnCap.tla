----------------------------- MODULE MqttConnCap -----------------------------
(* C17, MQTT half.  At no instant more than maxAllowedConnection clients are connected to an      *)
(* MQTTProxy, for any pattern of concurrent connects, disconnects and client-id takeovers;         *)
(* connections beyond the cap are refused with CONNACK "server unavailable"; capacity released by   *)
(* a closed connection becomes usable again (broker.go: checkConnectPermission, the locked          *)
(* section of handleConn, removeClient).                                                            *)
(*                                                                                              *)
(* CONTRACT (variables held, st): `held` maps a client id to the connection that occupies a slot.  *)
(*   Accept(c)   allowed iff c's id already holds a slot (takeover: the slot changes hands, the     *)
(*               count does not) or fewer than Cap slots are held                                   *)
(*   Refuse(c)   (server unavailable) allowed iff Cap slots are held                                *)
(*   Release(c)  some time after c's network connection ended: its slot, if it still has one         *)
(* IMPLEMENTATION-SHAPED: a connection attempt is two critical sections of Broker.Lock -             *)
(*   CheckEarly  (checkConnectPermission reads len(clients), unlocks)   and                           *)
(*   Register    (handleConn: takeover branch, second check, clients[id] = c; the CONNACK is written   *)
(*               after the section, to a client that may take its time to read it),                    *)
(* and removeClient at the end of the read loop's teardown.  The early check refuses a takeover       *)
(* at the cap, which the contract allows (Cap slots are held).                                         *)
EXTENDS Integers, FiniteSets, TLC

CONSTANTS Cap, Ids, ConnsC, IdOf,    \* IdOf: [ConnsC -> Ids], the client id a connection attempt uses
          LateRegister,             \* FALSE: the code - the decisive check and the registration are one critical section and the CONNACK is
                                    \* written afterwards; TRUE: check under the lock, CONNACK written outside it (for as long as the client
                                    \* takes to read it), registration only then (lead generation: must be refuted)
          RemoveKeyed,              \* FALSE: the code - removal checks that the registered connection is the one that ended; TRUE: the entry
                                    \* of the client id is deleted whoever holds it (lead generation: must be refuted - after a takeover the
                                    \* successor's slot is forgotten while it stays connected: `conn` counts the connected clients)
          StaleTakeover             \* FALSE: the code - Register looks the id up again under the lock; TRUE: "this is a takeover" is
                                    \* decided in CheckEarly (which then skips the cap check) and believed by Register although the
                                    \* Connect pipeline runs in between (lead generation: must be refuted)

VARIABLES held,    \* [subset of Ids -> ConnsC]
          st,      \* [ConnsC -> "new" | "early" | "earlyT" | "acking" | "up" | "refused" | "ending" | "gone"]
          obs      \* the step just taken

cvars == <<held, st, obs>>
cview == <<held, st>>

Holds(c) == IdOf[c] \in DOMAIN held /\ held[IdOf[c]] = c
N == Cardinality(DOMAIN held)
Without(f, k) == [x \in DOMAIN f \ {k} |-> f[x]]
With(f, k, v) == [x \in DOMAIN f \cup {k} |-> IF x = k THEN v ELSE f[x]]

CInit == held = <<>> /\ st = [c \in ConnsC |-> "new"] /\ obs = [a |-> "init"]

(* ---- contract actions ---- *)
Accept(c) ==
    /\ IdOf[c] \in DOMAIN held \/ N < Cap
    /\ held' = With(held, IdOf[c], c)
    /\ obs' = [a |-> "accept", c |-> c, n |-> N, takeover |-> IdOf[c] \in DOMAIN held]
Refuse(c) ==
    /\ N >= Cap
    /\ UNCHANGED held
    /\ obs' = [a |-> "refuse", c |-> c, n |-> N]
Release(c) ==
    /\ held' = IF Holds(c) THEN Without(held, IdOf[c]) ELSE held
    /\ obs' = [a |-> "release", c |-> c, n |-> N]

(* ---- implementation-shaped steps, each mapped to a contract action or to a stutter ---- *)
(* between CheckEarly and Register the Connect (authentication) pipeline runs, outside every lock and *)
(* for as long as it likes: any number of other connections may come and go meanwhile                  *)
CheckEarly(c) ==
    /\ st[c] = "new"
    /\ IF StaleTakeover /\ IdOf[c] \in DOMAIN held
       THEN UNCHANGED held /\ obs' = [a |-> "early", c |-> c, n |-> N] /\ st' = [st EXCEPT ![c] = "earlyT"]
       ELSE IF N >= Cap
       THEN Refuse(c) /\ st' = [st EXCEPT ![c] = "refused"]
       ELSE UNCHANGED held /\ obs' = [a |-> "early", c |-> c, n |-> N] /\ st' = [st EXCEPT ![c] = "early"]
Register(c) ==
    /\ st[c] = "early" /\ ~LateRegister
    /\ IF IdOf[c] \in DOMAIN held \/ N < Cap
       THEN /\ Accept(c)
            \* a takeover ends the superseded connection (go oldClient.close()): its teardown will come to Remove
            /\ st' = [x \in ConnsC |-> IF x = c THEN "up"
                                       ELSE IF IdOf[c] \in DOMAIN held /\ x = held[IdOf[c]] /\ st[x] = "up" THEN "ending" ELSE st[x]]
       ELSE Refuse(c) /\ st' = [st EXCEPT ![c] = "refused"]
(* (LateRegister only) the check alone, then - after the CONNACK has been written - the registration *)
CheckLocked(c) ==
    /\ st[c] = "early" /\ LateRegister
    /\ IF IdOf[c] \in DOMAIN held \/ N < Cap
       THEN UNCHANGED held /\ obs' = [a |-> "checked", c |-> c, n |-> N] /\ st' = [st EXCEPT ![c] = "acking"]
       ELSE Refuse(c) /\ st' = [st EXCEPT ![c] = "refused"]
RegisterLate(c) ==
    /\ st[c] = "acking" /\ st' = [st EXCEPT ![c] = "up"]
    /\ held' = With(held, IdOf[c], c)
    /\ obs' = [a |-> "accept", c |-> c, n |-> N, takeover |-> IdOf[c] \in DOMAIN held]
RegisterStale(c) ==    \* (StaleTakeover only) registered as the takeover it was when it was looked up
    /\ st[c] = "earlyT" /\ st' = [st EXCEPT ![c] = "up"]
    /\ held' = With(held, IdOf[c], c)
    /\ obs' = [a |-> "accept", c |-> c, n |-> N, takeover |-> IdOf[c] \in DOMAIN held]
EndConn(c) ==          \* the client (or the network) ends the connection - also one whose CONNACK has not been written yet (the
                       \* write then fails): the connection is registered from Register on, and whatever handleConn does about
                       \* the failed write must come to Remove, which gives back the slot only if c still has it
    /\ st[c] = "up" /\ st' = [st EXCEPT ![c] = "ending"]
    /\ UNCHANGED held /\ obs' = [a |-> "end", c |-> c, n |-> N]
RemoveById(c) ==       \* (RemoveKeyed only) clean-up keyed by the client id: deletes whatever connection is registered under c's id
    /\ RemoveKeyed /\ st[c] = "ending" /\ st' = [st EXCEPT ![c] = "gone"]
    /\ held' = IF IdOf[c] \in DOMAIN held THEN Without(held, IdOf[c]) ELSE held
    /\ obs' = [a |-> "release", c |-> c, n |-> N]
Remove(c) ==           \* removeClient at the end of the teardown
    /\ ~RemoveKeyed /\ st[c] = "ending" /\ st' = [st EXCEPT ![c] = "gone"]
    /\ Release(c)

CNext == \E c \in ConnsC : CheckEarly(c) \/ Register(c) \/ CheckLocked(c) \/ RegisterLate(c) \/ RegisterStale(c) \/ EndConn(c) \/ Remove(c) \/ RemoveById(c)
CSpec == CInit /\ [][CNext]_cvars

(* ---- the property ---- *)
CapHolds == N <= Cap                                              \* at every instant
(* the connected clients: accepted, not ended, and not superseded by a later accepted connection of the same id - every one of   *)
(* them occupies a slot (so that N, which the checks read, counts them all and CapHolds bounds them)                              *)
ConnectedWithinCap == Cardinality({c \in ConnsC : st[c] = "up"}) <= Cap
NoAcceptAboveCap == [][obs'.a = "accept" => (obs'.takeover \/ obs'.n < Cap)]_cvars
RefusedOnlyAtCap == [][obs'.a = "refuse" => obs'.n >= Cap]_cvars
TakeoverKeepsCount == [][(obs'.a = "accept" /\ obs'.takeover) => Cardinality(DOMAIN held') = Cardinality(DOMAIN held)]_cvars
(* capacity released by a closed connection is usable again: whenever a slot is free a new attempt is accepted *)
ReleaseReusable == \A c \in ConnsC : (st[c] = "new" /\ N < Cap) => ENABLED (CheckEarly(c) /\ st'[c] = "early")

(* ---- model-checking universes ---- *)
MCConns == {"k1", "k2", "k3", "k4"}
MCId2 == [c \in MCConns |-> IF c \in {"k1", "k3"} THEN "a" ELSE IF c = "k2" THEN "b" ELSE "c"]
MCConns5 == {"k1", "k2", "k3", "k4", "k5"}
MCId5 == [c \in MCConns5 |-> IF c \in {"k1", "k4"} THEN "a" ELSE IF c \in {"k2", "k5"} THEN "b" ELSE "c"]
=============================================================================

--------------------------- MODULE MqttConnCap_Gen ---------------------------
(* Sequential scenario generator for C17/MQTT: connection attempts, ends and takeovers one at a     *)
(* time (each completes before the next starts), with the outcome the contract determines.  A        *)
(* takeover while Cap slots are held is left to trace validation: the contract allows both outcomes.  *)
EXTENDS MqttConnCap, Json

CONSTANT MaxStepsC
VARIABLES out, k

GInit == CInit /\ k = 0 /\ out = ToJson([a |-> "init", cap |-> Cap])
GTry == \E c \in ConnsC :
          /\ st[c] = "new"
          /\ ~(IdOf[c] \in DOMAIN held /\ N >= Cap)
          /\ IF N < Cap THEN Accept(c) /\ st' = [st EXCEPT ![c] = "up"]
                        ELSE Refuse(c) /\ st' = [st EXCEPT ![c] = "refused"]
          /\ out' = ToJson([a |-> "try", c |-> c, id |-> IdOf[c], ok |-> N < Cap, n |-> Cardinality(DOMAIN held')])
GEnd == \E c \in ConnsC :
          /\ st[c] = "up" /\ st' = [st EXCEPT ![c] = "gone"]
          /\ Release(c)
          /\ out' = ToJson([a |-> "end", c |-> c, n |-> Cardinality(DOMAIN held')])
GNext == k < MaxStepsC /\ k' = k + 1 /\ (GTry \/ GEnd)
GSpec == GInit /\ [][GNext]_<<cvars, out, k>>

GenConns == {"k1", "k2", "k3", "k4", "k5", "k6", "k7", "k8", "k9"}
GenId == [c \in GenConns |-> IF c \in {"k1", "k5", "k8"} THEN "a" ELSE IF c \in {"k2", "k6"} THEN "b" ELSE IF c \in {"k3", "k7"} THEN "c"
                             ELSE IF c = "k4" THEN "d" ELSE "e"]
=============================================================================

--------------------------- MODULE MqttConnCap_Gen ---------------------------
(* Sequential scenario generator for C17/MQTT: connection attempts, ends and takeovers one at a     *)
(* time (each completes before the next starts), with the outcome the contract determines.  A        *)
(* takeover while Cap slots are held is left to trace validation: the contract allows both outcomes.  *)
EXTENDS MqttConnCap, Json, FiniteSets

CONSTANTS MaxStepsC,
          Abandon     \* (parked schedules only) "no" | "superseded" | "owner": may a slow CONNACK reader give up - close its connection
                      \* while the broker is still writing the CONNACK, so that this write FAILS?  "superseded": only a connection
                      \* whose id has certainly been taken over by a later connection since its attempt was decided; "owner": only
                      \* connections for which that is not certain (they may still own their id)
VARIABLES out, k,
          sst,    \* (parked schedules only) [ConnsC -> "new" | "started" | "acking" | "finished" | "ended" | "abandoned"]
          pslow,  \* (parked schedules only) the connections whose client is slow to read its CONNACK
          nrel,   \* (parked schedules only) the connections released (decided) and not ended since: an upper bound of the registered ones
          sup,    \* (parked schedules only) the acking connections whose id has certainly been taken over meanwhile
          eok     \* (parked schedules only) the connections that certainly passed the early check (made when the CONNECT arrives, i.e. at
                  \* start): fewer than Cap connections were released and not ended then

GInit == CInit /\ k = 0 /\ out = ToJson([a |-> "init", cap |-> Cap]) /\ sst = [c \in ConnsC |-> "new"] /\ pslow = {} /\ nrel = {} /\ sup = {} /\ eok = {}
GTry == \E c \in ConnsC :
          /\ st[c] = "new"
          /\ ~(IdOf[c] \in DOMAIN held /\ N >= Cap)
          /\ IF N < Cap THEN Accept(c) /\ st' = [st EXCEPT ![c] = "up"]
                        ELSE Refuse(c) /\ st' = [st EXCEPT ![c] = "refused"]
          /\ out' = ToJson([a |-> "try", c |-> c, id |-> IdOf[c], ok |-> N < Cap, n |-> Cardinality(DOMAIN held')])
GEnd == \E c \in ConnsC :
          /\ st[c] = "up" /\ st' = [st EXCEPT ![c] = "gone"]
          /\ Release(c)
          /\ out' = ToJson([a |-> "end", c |-> c, n |-> Cardinality(DOMAIN held')])
GNext == k < MaxStepsC /\ k' = k + 1 /\ (GTry \/ GEnd) /\ UNCHANGED <<sst, pslow, nrel, sup, eok>>
GSpec == GInit /\ [][GNext]_<<cvars, out, k, sst, pslow, nrel, sup, eok>>

(* ---- schedules with attempts parked between the early check and the registration ----            *)
(* The Connect (authentication) pipeline of the harness is a gate: start(c) sends c's CONNECT and       *)
(* returns when the attempt is parked in the pipeline (or was refused before it got there),               *)
(* release(c) opens the gate and returns with the CONNACK, end(c) ends the connection if it was            *)
(* accepted and returns when the broker has torn it down.  The outcome of an attempt is not predicted       *)
(* here (a takeover at the cap may be refused or accepted): the harness logs inv / ret / close / gone /      *)
(* sample events and MqttConnCap_Trace looks for a linearisation the contract allows.                        *)
(* A client can be slow to read its CONNACK (start with slow = TRUE: an unbuffered connection whose client     *)
(* does not read): release(c) then returns when the broker is blocked writing c's CONNACK - the attempt has    *)
(* been decided, its answer is pending - and take(c) lets the client read it.  Other attempts are started,       *)
(* released and ended while the CONNACK is pending.                                                               *)
(* abandon(c) (Abandon # "no"): the slow reader gives up instead - it closes its connection, and the broker's write    *)
(* of the CONNACK fails.  The broker registered c before it wrote the CONNACK: whatever it does about the failure,        *)
(* the slot goes back (contract: Release) if c still has it, and NOTHING changes if c's id was taken over by a later        *)
(* connection while the CONNACK was pending.  The generator keeps the two cases apart (constant Abandon): d certainly       *)
(* took c's id over if fewer than Cap connections had been released and not ended when d STARTED (d passed the early check,     *)
(* which is made when its CONNECT arrives, whatever the others did) and d was released while c was acking (the registration      *)
(* finds c's id registered: a takeover, no second cap check).                                                                    *)
PInit == GInit
Busy == Cardinality({x \in ConnsC : sst[x] \in {"started", "acking"}})
Acking == {x \in ConnsC : sst[x] = "acking"}
PStart(c)   == /\ sst[c] = "new" /\ Busy < 3
               /\ sst' = [sst EXCEPT ![c] = "started"]
               \* (abandon families: while a slow reader's CONNACK is pending, the attempts that start use its client id - takeovers)
               /\ ((Abandon = "superseded" /\ Acking # {}) => (\E x \in Acking : IdOf[x] = IdOf[c]))
               /\ \E sl \in BOOLEAN : /\ ((sl /\ Abandon # "no") => (\A x \in pslow : sst[x] \in {"abandoned", "ended"}))    \* (one slow reader at a time)
                                       /\ pslow' = (IF sl THEN pslow \cup {c} ELSE pslow)
                                       /\ out' = ToJson([a |-> "start", c |-> c, id |-> IdOf[c], slow |-> sl])
               /\ eok' = IF Cardinality(nrel) < Cap THEN eok \cup {c} ELSE eok
               /\ UNCHANGED <<nrel, sup>>
PRelease(c) == /\ sst[c] = "started" /\ sst' = [sst EXCEPT ![c] = IF c \in pslow THEN "acking" ELSE "finished"]
               /\ out' = ToJson([a |-> "release", c |-> c]) /\ UNCHANGED pslow
               /\ nrel' = nrel \cup {c} /\ UNCHANGED eok
               /\ sup' = IF c \in eok THEN sup \cup {x \in ConnsC : sst[x] = "acking" /\ IdOf[x] = IdOf[c]} ELSE sup
PTake(c)    == sst[c] = "acking" /\ sst' = [sst EXCEPT ![c] = "finished"] /\ out' = ToJson([a |-> "take", c |-> c]) /\ UNCHANGED <<pslow, nrel, sup, eok>>
PEnd(c)     == /\ sst[c] = "finished" /\ sst' = [sst EXCEPT ![c] = "ended"] /\ out' = ToJson([a |-> "end", c |-> c]) /\ UNCHANGED <<pslow, sup, eok>>
               /\ nrel' = nrel \ {c}
PAbandon(c) == /\ Abandon # "no" /\ sst[c] = "acking"
               /\ (Abandon = "superseded") <=> (c \in sup)
               /\ sst' = [sst EXCEPT ![c] = "abandoned"] /\ out' = ToJson([a |-> "abandon", c |-> c, sup |-> c \in sup])
               /\ nrel' = nrel \ {c} /\ UNCHANGED <<pslow, sup, eok>>
(* abandon families: a slow reader never reads its CONNACK - it gives up as soon as the family's condition holds *)
Forced == {c \in Acking : Abandon # "no" /\ ((Abandon = "superseded") <=> (c \in sup))}
PNext == /\ k < MaxStepsC /\ k' = k + 1 /\ UNCHANGED cvars
         /\ IF Forced # {} THEN \E c \in Forced : PAbandon(c)
            ELSE \E c \in ConnsC : PStart(c) \/ PRelease(c) \/ (Abandon = "no" /\ PTake(c)) \/ PEnd(c)
PSpec == PInit /\ [][PNext]_<<cvars, out, k, sst, pslow, nrel, sup, eok>>
ParkConns == {"k1", "k2", "k3", "k4", "k5", "k6"}
ParkId == [c \in ParkConns |-> IF c \in {"k1", "k3", "k5"} THEN "a" ELSE IF c \in {"k2", "k6"} THEN "b" ELSE "c"]

GenConns == {"k1", "k2", "k3", "k4", "k5", "k6", "k7", "k8", "k9"}
GenId == [c \in GenConns |-> IF c \in {"k1", "k5", "k8"} THEN "a" ELSE IF c \in {"k2", "k6"} THEN "b" ELSE IF c \in {"k3", "k7"} THEN "c"
                             ELSE IF c = "k4" THEN "d" ELSE "e"]
=============================================================================

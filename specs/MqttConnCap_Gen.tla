--------------------------- MODULE MqttConnCap_Gen ---------------------------
(* Sequential scenario generator for C17/MQTT: connection attempts, ends and takeovers one at a     *)
(* time (each completes before the next starts), with the outcome the contract determines.  A        *)
(* takeover while Cap slots are held is left to trace validation: the contract allows both outcomes.  *)
EXTENDS MqttConnCap, Json, FiniteSets

CONSTANT MaxStepsC
VARIABLES out, k,
          sst,    \* (parked schedules only) [ConnsC -> "new" | "started" | "acking" | "finished" | "ended"]
          pslow   \* (parked schedules only) the connections whose client is slow to read its CONNACK

GInit == CInit /\ k = 0 /\ out = ToJson([a |-> "init", cap |-> Cap]) /\ sst = [c \in ConnsC |-> "new"] /\ pslow = {}
GTry == \E c \in ConnsC :
          /\ st[c] = "new"
          /\ ~(IdOf[c] \in DOMAIN held /\ N >= Cap)
          /\ IF N < Cap THEN Accept(c) /\ st' = [st EXCEPT ![c] = "up"]
                        ELSE Refuse(c) /\ st' = [st EXCEPT ![c] = "refused"]
          /\ out' = ToJson([a |-> "try", c |-> c, id |-> IdOf[c], ok |-> N < Cap, n |-> Cardinality(DOMAIN held')])
GEnd == \E c \in ConnsC :
          /\ st[c] = "up" /\ st' = [st EXCEPT ![c] = "gone"]
          /\ Release(c)
          /\ out' = ToJson([a |-> "end", c |-> c, n |-> Cardinality(DOMAIN held')])
GNext == k < MaxStepsC /\ k' = k + 1 /\ (GTry \/ GEnd) /\ UNCHANGED <<sst, pslow>>
GSpec == GInit /\ [][GNext]_<<cvars, out, k, sst, pslow>>

(* ---- schedules with attempts parked between the early check and the registration ----            *)
(* The Connect (authentication) pipeline of the harness is a gate: start(c) sends c's CONNECT and       *)
(* returns when the attempt is parked in the pipeline (or was refused before it got there),               *)
(* release(c) opens the gate and returns with the CONNACK, end(c) ends the connection if it was            *)
(* accepted and returns when the broker has torn it down.  The outcome of an attempt is not predicted       *)
(* here (a takeover at the cap may be refused or accepted): the harness logs inv / ret / close / gone /      *)
(* sample events and MqttConnCap_Trace looks for a linearisation the contract allows.                        *)
(* A client can be slow to read its CONNACK (start with slow = TRUE: an unbuffered connection whose client     *)
(* does not read): release(c) then returns when the broker is blocked writing c's CONNACK - the attempt has    *)
(* been decided, its answer is pending - and take(c) lets the client read it.  Other attempts are started,       *)
(* released and ended while the CONNACK is pending.                                                               *)
PInit == GInit
Busy == Cardinality({x \in ConnsC : sst[x] \in {"started", "acking"}})
PStart(c)   == /\ sst[c] = "new" /\ Busy < 3
               /\ sst' = [sst EXCEPT ![c] = "started"]
               /\ \E sl \in BOOLEAN : /\ pslow' = (IF sl THEN pslow \cup {c} ELSE pslow)
                                       /\ out' = ToJson([a |-> "start", c |-> c, id |-> IdOf[c], slow |-> sl])
PRelease(c) == /\ sst[c] = "started" /\ sst' = [sst EXCEPT ![c] = IF c \in pslow THEN "acking" ELSE "finished"]
               /\ out' = ToJson([a |-> "release", c |-> c]) /\ UNCHANGED pslow
PTake(c)    == sst[c] = "acking" /\ sst' = [sst EXCEPT ![c] = "finished"] /\ out' = ToJson([a |-> "take", c |-> c]) /\ UNCHANGED pslow
PEnd(c)     == sst[c] = "finished" /\ sst' = [sst EXCEPT ![c] = "ended"] /\ out' = ToJson([a |-> "end", c |-> c]) /\ UNCHANGED pslow
PNext == /\ k < MaxStepsC /\ k' = k + 1 /\ UNCHANGED cvars
         /\ \E c \in ConnsC : PStart(c) \/ PRelease(c) \/ PTake(c) \/ PEnd(c)
PSpec == PInit /\ [][PNext]_<<cvars, out, k, sst, pslow>>
ParkConns == {"k1", "k2", "k3", "k4", "k5", "k6"}
ParkId == [c \in ParkConns |-> IF c \in {"k1", "k3", "k5"} THEN "a" ELSE IF c \in {"k2", "k6"} THEN "b" ELSE "c"]

GenConns == {"k1", "k2", "k3", "k4", "k5", "k6", "k7", "k8", "k9"}
GenId == [c \in GenConns |-> IF c \in {"k1", "k5", "k8"} THEN "a" ELSE IF c \in {"k2", "k6"} THEN "b" ELSE IF c \in {"k3", "k7"} THEN "c"
                             ELSE IF c = "k4" THEN "d" ELSE "e"]
=============================================================================

-------------------------- MODULE MqttConnCap_Trace --------------------------
(* Concurrent trace validation for C17/MQTT.  Goroutines of the harness connect raw MQTT clients to  *)
(* a real Broker with maxAllowedConnection = cap, end them, and take ids over, concurrently; events   *)
(* carry a global sequence number taken under the harness' writer lock:                                *)
(*   reset {cap}                                                                                      *)
(*   inv {c,id}        logged before the CONNECT is sent                                               *)
(*   ret {c,code}      logged after the CONNACK is read (0 accepted, 3 server unavailable)             *)
(*   close {c}         logged before the harness ends the connection (half-close / DISCONNECT)         *)
(*   gone {c}          logged after the broker closed the socket: its teardown is complete             *)
(*   sample {n}        len(Broker.clients) read under Broker.Lock by a sampling goroutine              *)
(*   abandon {c}       logged before a client that has not read its CONNACK yet closes its connection  *)
(*                     (the broker's write of the CONNACK then fails); followed by gone {c} when        *)
(*                     Broker.handleConn has returned.  The attempt took effect before (the broker       *)
(*                     registers a connection before it writes the CONNACK): an accepted one gives its     *)
(*                     slot back between abandon and gone - if it still has it.                             *)
(* TLC searches for a linearisation: every attempt takes effect (contract action Accept or Refuse)     *)
(* at a silent step between its inv and its ret, every release between close and gone.                  *)
EXTENDS Integers, FiniteSets, Sequences, Json, TLC, IOUtils

TLog == ndJsonDeserialize(IOEnv.VERIF_TRACE)

VARIABLES l, cap, held, idof, ph
(* ph[c]: "pending" | "acc" | "ref" | "up" | "closing" | "released" | "done" ; connections are the keys of ph *)
tvars == <<l, cap, held, idof, ph>>

IsEvent(e) == l <= Len(TLog) /\ TLog[l].ev = e /\ l' = l + 1
E == TLog[l]
NH == Cardinality(DOMAIN held)
Without(f, k) == [x \in DOMAIN f \ {k} |-> f[x]]
With(f, k, v) == [x \in DOMAIN f \cup {k} |-> IF x = k THEN v ELSE f[x]]

TReset == IsEvent("reset") /\ cap' = E.cap /\ held' = <<>> /\ idof' = <<>> /\ ph' = <<>>
TInv == /\ IsEvent("inv") /\ E.c \notin DOMAIN ph
        /\ ph' = With(ph, E.c, "pending") /\ idof' = With(idof, E.c, E.id) /\ UNCHANGED <<cap, held>>
(* contract: Accept *)
LinAccept(c) == /\ ph[c] = "pending"
                /\ idof[c] \in DOMAIN held \/ NH < cap
                /\ held' = With(held, idof[c], c) /\ ph' = [ph EXCEPT ![c] = "acc"] /\ UNCHANGED <<l, cap, idof>>
(* contract: Refuse *)
LinRefuse(c) == /\ ph[c] = "pending" /\ NH >= cap
                /\ ph' = [ph EXCEPT ![c] = "ref"] /\ UNCHANGED <<l, cap, held, idof>>
TRet == /\ IsEvent("ret") /\ E.c \in DOMAIN ph
        /\ \/ E.code = 0 /\ ph[E.c] = "acc" /\ ph' = [ph EXCEPT ![E.c] = "up"]
           \/ E.code = 3 /\ ph[E.c] = "ref" /\ ph' = [ph EXCEPT ![E.c] = "done"]      \* refused = server unavailable
        /\ UNCHANGED <<cap, held, idof>>
TClose == /\ IsEvent("close") /\ E.c \in DOMAIN ph /\ ph[E.c] = "up"
          /\ ph' = [ph EXCEPT ![E.c] = "closing"] /\ UNCHANGED <<cap, held, idof>>
(* contract: Release *)
LinRelease(c) == /\ ph[c] = "closing"
                 /\ held' = IF idof[c] \in DOMAIN held /\ held[idof[c]] = c THEN Without(held, idof[c]) ELSE held
                 /\ ph' = [ph EXCEPT ![c] = "released"] /\ UNCHANGED <<l, cap, idof>>
TAbandon == /\ IsEvent("abandon") /\ E.c \in DOMAIN ph /\ ph[E.c] \in {"acc", "ref"}
            /\ ph' = [ph EXCEPT ![E.c] = IF ph[E.c] = "acc" THEN "closing" ELSE "released"] /\ UNCHANGED <<cap, held, idof>>
TGone == /\ IsEvent("gone") /\ E.c \in DOMAIN ph /\ ph[E.c] = "released"
         /\ ph' = [ph EXCEPT ![E.c] = "done"] /\ UNCHANGED <<cap, held, idof>>
(* the broker's own count never exceeds the cap, and is the number of slots held at some linearisation *)
TSample == IsEvent("sample") /\ E.n <= cap /\ E.n = NH /\ UNCHANGED <<cap, held, idof, ph>>

TNext == TReset \/ TInv \/ TRet \/ TClose \/ TAbandon \/ TGone \/ TSample
         \/ \E c \in DOMAIN ph : LinAccept(c) \/ LinRefuse(c) \/ LinRelease(c)
TSpec == l = 1 /\ cap = 0 /\ held = <<>> /\ idof = <<>> /\ ph = <<>> /\ [][TNext]_tvars

CapHolds == NH <= cap \/ cap = 0

ASSUME TLCSet(1, 0)
HWM == TLCSet(1, IF l - 1 > TLCGet(1) THEN l - 1 ELSE TLCGet(1))
Accepted == /\ PrintT(<<"VERIF_HWM", TLCGet(1), Len(TLog)>>)
            /\ TLCGet(1) = Len(TLog)
=============================================================================

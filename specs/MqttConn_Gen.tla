----------------------------- MODULE MqttConn_Gen -----------------------------
(* X07 - model-checking wrapper and client-script generator of MqttConn.                            *)
(*   GSpec    : MqttConn's Next, `out` = the step just taken as JSON (exhaustive checking; VIEW gview *)
(*              hides `out`, `last` and the generator's bookkeeping - everything said about `last` is  *)
(*              an action property, which TLC evaluates on every transition, seen state or not).       *)
(*   GSimSpec : the same steps chosen with weights (TLC -simulate), so that the rare but interesting   *)
(*              schedules - three silent ticks in a row and then the expiry, a takeover followed by a   *)
(*              packet on the zombie - are generated often.  A script is what the harness executes      *)
(*              against a real Broker: "pkt" = send the packet, "tick" = stay silent for half a          *)
(*              keep-alive period, "expire" = stay silent until the broker ends the connection,          *)
(*              "drop" = half-close, "takeover" = a second connection with the same client id.           *)
EXTENDS MqttConn, Json, TLC

CONSTANTS MaxSteps, MaxTicksTotal

VARIABLES out,
          k,       \* steps taken
          nt,      \* ticks taken
          plan     \* forced continuation: [ticks |-> silent ticks still to come, then |-> "none" | "expire" | "ping" | "ping2"]

gvars == <<vars, out, k, nt, plan>>
gview == s

Emit == out' = ToJson([a |-> last'.a, p |-> last'.p, st |-> s'.st, nw |-> Len(s'.wills), cause |-> s'.cause, pre |-> last'.pre])
NoPlan == [ticks |-> 0, then |-> "none"]

GInit == Init /\ out = ToJson([a |-> "init"]) /\ k = 0 /\ nt = 0 /\ plan = NoPlan
GNext == Next /\ Emit /\ UNCHANGED <<k, nt, plan>>
GSpec == GInit /\ [][GNext]_gvars

(* ---- weighted generation ----------------------------------------------------------------------- *)
OkConnects == {p \in ConnectPkts : p.v = "ok"}
BadConnects == {p \in ConnectPkts : p.v # "ok" /\ (p.v = "noid" => p.id = 0)}
NonConnectFirst == {p \in Packets : p.t \in {"ping", "disc", "pub", "sub", "pingresp"}}
OfType(T) == {p \in Packets : p.t \in T}

CanTick == Live(s) /\ s.idle < MaxTick /\ ~CanExpire(s) /\ nt < MaxTicksTotal

SimStep(n) ==
    IF s.st = "new" THEN
         CASE n <= 76 -> (\E p \in OkConnects : Recv(p)) /\ plan' = NoPlan
           [] n <= 86 -> (\E p \in BadConnects : Recv(p)) /\ plan' = NoPlan
           [] n <= 96 -> (\E p \in NonConnectFirst : Recv(p)) /\ plan' = NoPlan
           [] OTHER   -> Drop /\ plan' = NoPlan
    ELSE IF plan.ticks > 0 /\ CanTick THEN Tick /\ plan' = [plan EXCEPT !.ticks = @ - 1]
    ELSE IF plan.then \in {"ping", "ping2"} /\ ~CanExpire(s) THEN
         (\E p \in OfType({"ping"}) : Recv(p)) /\ plan' = IF plan.then = "ping2" THEN [ticks |-> 2, then |-> "ping"] ELSE NoPlan
    ELSE IF CanExpire(s) THEN
         CASE n <= 75 \/ plan.then = "expire" -> Expire /\ plan' = NoPlan
           [] n <= 88 \/ s.st # "up" -> Drop /\ plan' = NoPlan
           [] OTHER -> Takeover /\ plan' = NoPlan
    ELSE CASE n <= 12 /\ CanTick /\ s.ka > 0 /\ nt + (GraceTicks - s.idle) <= MaxTicksTotal ->
                    Tick /\ plan' = [ticks |-> GraceTicks - s.idle - 1, then |-> "expire"]        \* silent until the timer fires
           [] n <= 18 /\ CanTick /\ s.ka > 0 /\ s.idle = 0 /\ nt + 4 <= MaxTicksTotal ->
                    Tick /\ plan' = [ticks |-> 1, then |-> "ping2"]      \* silent for K, PINGREQ, silent for K, PINGREQ: beyond 1.5 x K after the CONNECT
           [] n <= 18 /\ CanTick /\ s.ka = 0 /\ s.idle = 0 /\ nt + 4 <= MaxTicksTotal ->
                    Tick /\ plan' = [ticks |-> 3, then |-> "ping"]       \* no keep-alive: silent for four ticks, still served
           [] n <= 26 /\ CanTick -> \E m \in 0..1 : Tick /\ plan' = [ticks |-> m, then |-> "none"]  \* silent for a while, then goes on
           [] n <= 36 -> (\E p \in OfType({"ping"}) : Recv(p)) /\ plan' = NoPlan
           [] n <= 54 -> (\E p \in OfType({"sub"}) : Recv(p)) /\ plan' = NoPlan
           [] n <= 61 -> (\E p \in OfType({"unsub"}) : Recv(p)) /\ plan' = NoPlan
           [] n <= 69 -> (\E p \in OfType({"pub"}) : Recv(p)) /\ plan' = NoPlan
           [] n <= 72 -> (\E p \in OfType({"puback"}) : Recv(p)) /\ plan' = NoPlan
           [] n <= 75 -> (\E p \in OfType({"connect"}) : Recv(p)) /\ plan' = NoPlan          \* a second CONNECT
           [] n <= 79 -> (\E p \in OfType(BrokerOnly) : Recv(p)) /\ plan' = NoPlan
           [] n <= 84 -> (\E p \in OfType({"disc"}) : Recv(p)) /\ plan' = NoPlan
           [] n <= 90 -> Drop /\ plan' = NoPlan
           [] n <= 97 /\ s.st = "up" -> Takeover /\ plan' = NoPlan
           [] OTHER -> (\E p \in OfType({"ping"}) : Recv(p)) /\ plan' = NoPlan

GSimNext == /\ k < MaxSteps /\ s.st # "closed"
            /\ SimStep(RandomElement(1..100))
            /\ Emit /\ k' = k + 1 /\ nt' = IF last'.a = "tick" THEN nt + 1 ELSE nt
GSimSpec == GInit /\ [][GSimNext]_gvars

(* ---- vacuity: the antecedents of the contract are reachable (one run, -workers 1; ReachNote is an ------------- *)
(* ACTION_CONSTRAINT that is always TRUE - TLC evaluates it on every transition, VIEW or not - and notes the probes  *)
(* it sees in TLC registers, AllReached is the POSTCONDITION)                                                        *)
Probes(s1, l1) == << s1.cause = "expire" /\ s1.wills # <<>>,                      \* keep-alive expiry with a will
             s1.cause = "expire" /\ s1.ka = 2,
             s1.cause = "disc" /\ s1.will.w # 0,                          \* DISCONNECT of a connection with will flag
             s1.cause = "drop" /\ s1.wills # <<>>,
             s1.cause = "error" /\ s1.wills # <<>>,
             s1.cause = "zombie" /\ s1.wills # <<>>,                      \* a taken-over connection ends
             s1.cause = "disc" /\ l1.pre = "zombie" /\ s1.will.w # 0,
             s1.cause = "refused", s1.cause = "nonconnect",
             Live(s1) /\ s1.ka = 0 /\ s1.idle = MaxTick,                   \* no keep-alive: silent for as long as the clock goes
             Live(s1) /\ s1.ka > 0 /\ s1.idle = GraceTicks - 1,
             l1.a = "pkt" /\ l1.p.t = "sub" /\ Len(l1.p.fs) = 2 /\ l1.rep # <<>>,
             l1.a = "pkt" /\ l1.p.t = "sub" /\ l1.rep = <<>> /\ l1.pre = "up",
             l1.a = "pkt" /\ l1.p.t = "connect" /\ l1.pre = "up",      \* second CONNECT
             l1.a = "pkt" /\ l1.p.t = "pub" /\ l1.p.q = 1 /\ l1.pre = "up",
             l1.a = "pkt" /\ l1.p.t \in BrokerOnly /\ l1.pre = "up" >>
NProbes == 16
ASSUME \A i \in 1..NProbes : TLCSet(10 + i, FALSE)
ReachNote == \A i \in 1..NProbes : Probes(s', last')[i] => TLCSet(10 + i, TRUE)
AllReached == \A i \in 1..NProbes : TLCGet(10 + i) \/ (PrintT(<<"probe never reached", i>>) /\ FALSE)
PSpec == GInit /\ [][Next /\ UNCHANGED <<out, k, nt, plan>>]_gvars
=============================================================================

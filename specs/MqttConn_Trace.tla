---------------------------- MODULE MqttConn_Trace ----------------------------
(* X07 - trace validation of MqttConn against a real Broker.  The harness executes a TLC-generated   *)
(* client script over a raw TCP connection (paho `packets` codec only) and logs, per connection:      *)
(*   reset                                                                                           *)
(*   step {p, rep, closed, ib, ic, wills, pubs}                                                      *)
(*        packet p was written together with a PINGREQ (one write; p = PINGREQ: alone); rep = what     *)
(*        the broker sent before the PINGRESP of that barrier, or before it closed the connection       *)
(*        (closed = TRUE: end of stream / reset seen by the client, i.e. the teardown is complete);     *)
(*        ib / ic = whole ticks (half keep-alive periods) between the moment the client started to      *)
(*        write the last packet the broker is known to have handled (it was answered) and the moment    *)
(*        it started to write p / saw the connection closed: the broker re-armed its deadline not       *)
(*        earlier than that, so a connection ended by the keep-alive timer shows ic >= GraceTicks       *)
(*        however slow the machine is;                                                                  *)
(*        wills = the will publications the Publish pipeline has been handed so far, pubs = the number   *)
(*        of client PUBLISH packets it has been handed                                                   *)
(*   expire {ic, wills, pubs}     the client stayed silent and the broker closed the connection (the      *)
(*                                keep-alive timer, or a zombie whose read loop was between two packets)  *)
(*   drop {wills, pubs}           the client half-closed and saw the broker close                         *)
(*   takeover                     a second connection with the same client id was accepted and the        *)
(*                                broker has closed the first one's Client from inside                    *)
(* A step is explained either by the broker handling the packet (MqttConn!HandleV; the two documented   *)
(* deviations from MQTT 3.1.1 - SUBACK codes, session-present flag - are accepted in the code's and in    *)
(* the standard's variant), or by the keep-alive timer having fired first.  "Still alive after           *)
(* GraceTicks + slack" is rejected as well; the driver treats that class as a finding only when it        *)
(* reproduces.                                                                                            *)
EXTENDS MqttConn, Json, TLC, IOUtils

CONSTANTS SlackSec      \* an expiry may be observed this many seconds late

TLog == ndJsonDeserialize(IOEnv.VERIF_TRACE)
VARIABLE l
tvars == <<s, last, l>>

IsEvent(e) == l <= Len(TLog) /\ TLog[l].ev = e /\ l' = l + 1
E == TLog[l]

At(s0, n) == [s0 EXCEPT !.idle = n, !.armed = n]
SlackTicks(ka) == (2 * SlackSec) \div ka
Late(s0, n) == Live(s0) /\ s0.ka > 0 /\ n >= GraceTicks + SlackTicks(s0.ka)
Seen(s1) == (s1.st = "closed" => E.wills = s1.wills) /\ (s1.st # "closed" => E.wills = <<>>) /\ E.pubs = s1.pubs

TReset == IsEvent("reset") /\ s' = S0 /\ last' = [a |-> "init", p |-> NoPkt, rep |-> <<>>, pre |-> "new"]

Handled(g, r) ==
    LET s0 == At(s, E.ib)
        h == HandleV(s0, E.p, g, r)
        up == UpHandle(s0, E.p, g, r) IN
    /\ ~Late(s, E.ib)
    /\ E.rep = h.rep \/ (s.st = "zombie" /\ E.rep = up.rep)      \* a zombie's writer may not have gone yet
    /\ E.closed = (h.s.st = "closed")
    /\ Seen(h.s)
    /\ s' = IF h.s.st = "closed" THEN h.s ELSE At(h.s, 0)
    /\ last' = [a |-> "pkt", p |-> E.p, rep |-> E.rep, pre |-> s.st]

Expired(n) == /\ CanExpire(At(s, n))
              /\ s' = End(At(s, n), "expire") /\ Seen(s')
              /\ last' = [a |-> "expire", p |-> NoPkt, rep |-> <<>>, pre |-> s.st]

TStep == /\ IsEvent("step") /\ s.st # "closed"
         /\ \/ \E g \in {"header", "capped"}, r \in {"clean", "mqtt"} : Handled(g, r)
            \/ E.closed /\ E.rep = <<>> /\ Expired(E.ic)
TExpire == /\ IsEvent("expire")
           /\ \/ Expired(E.ic)
              \/ /\ s.st = "zombie" /\ s' = End(s, "zombie") /\ Seen(s')         \* ZombieEnds
                 /\ last' = [a |-> "zend", p |-> NoPkt, rep |-> <<>>, pre |-> s.st]
TDrop == /\ IsEvent("drop") /\ s.st # "closed"
         /\ s' = End(s, "drop") /\ Seen(s') /\ last' = [a |-> "drop", p |-> NoPkt, rep |-> <<>>, pre |-> s.st]
TTakeover == /\ IsEvent("takeover") /\ s.st = "up"
             /\ s' = [s EXCEPT !.st = "zombie"] /\ last' = [a |-> "takeover", p |-> NoPkt, rep |-> <<>>, pre |-> s.st]

TNext == TReset \/ TStep \/ TExpire \/ TDrop \/ TTakeover
TSpec == s = S0 /\ last = [a |-> "init", p |-> NoPkt, rep |-> <<>>, pre |-> "new"] /\ l = 1 /\ [][TNext]_tvars

ASSUME TLCSet(1, 0)
HWM == TLCSet(1, IF l - 1 > TLCGet(1) THEN l - 1 ELSE TLCGet(1))
Accepted == /\ PrintT(<<"VERIF_HWM", TLCGet(1), Len(TLog)>>)
            /\ TLCGet(1) = Len(TLog)
=============================================================================

----------------------------- MODULE MqttDelivery -----------------------------
(* C15.  Delivery of messages injected through the HTTP publish endpoint of easegress' MQTTProxy *)
(* to the subscribed clients, QoS1 retransmission, and QoS1 PUBLISH from clients               *)
(* (broker.go: httpTopicsPublishHandler / sendMsgToClient, session.go: publish / puback /        *)
(* doResend / backgroundResendPending, client.go: processPublish, writeLoop).                    *)
(*                                                                                              *)
(* Contract layer (what the property says):                                                      *)
(*   - a published message (t, q) is owed to every connected client that holds a matching        *)
(*     subscription with QoS >= q ("eligible"), whatever else is subscribed and in whatever      *)
(*     order the broker visits the subscribers; a QoS0 copy may be dropped only when that         *)
(*     client's outbound queue (capacity QCap) is full;                                          *)
(*   - nothing is delivered to a client without a matching subscription (C14); whether a client   *)
(*     whose matching subscriptions all have a lower QoS gets a copy is left open;                *)
(*   - an unacknowledged QoS1 message is retransmitted; once the acknowledgement has been          *)
(*     processed it is never queued again;                                                         *)
(*   - a QoS1 PUBLISH from a client reaches the backend pipeline and, unless the pipeline drops    *)
(*     it, is answered by a PUBACK with the same packet id.  Clients re-use a packet id as soon as  *)
(*     it has been acknowledged, and send an unacknowledged message again with the same id and      *)
(*     DUP=1: whatever the broker remembers about ids, the message a PUBLISH carries must reach the  *)
(*     pipeline (by this packet or by an earlier copy the pipeline accepted);                        *)
(*   - all of this independently of other clients that connect and disconnect meanwhile, and of        *)
(*     other SUBSCRIBED clients: a subscriber that has stopped reading (its queue full, the QoS1        *)
(*     sends to it blocked) does not keep messages it holds no matching subscription for from their     *)
(*     subscribers (module MqttFanout: what carries the fan-outs; trace event `indep`);                 *)
(*   - a subscription is owed its messages also after the session that holds it was resumed            *)
(*     (MqttTopics!Resume: connection ended or taken over, reconnect with cleanSession=false), each     *)
(*     filter with the QoS it was subscribed with.                                                       *)
(* Interpretation (recorded in the report): the code retransmits the *oldest* unacknowledged      *)
(* message of a session on every tick; the contract's fairness is on "some unacknowledged         *)
(* message", and conformance demands retransmission of the oldest one only.                        *)
(*                                                                                              *)
(* Implementation-shaped layer: the loop of sendMsgToClient over the answer of findSubscribers    *)
(* (one QoS per client, arbitrary visiting order).                                                *)
EXTENDS MqttTopics

CONSTANTS Populations,       \* set of subscription tables (sets of [c, f, q]) a scenario may start from
          PubTopics,         \* topic names messages are published on
          MaxPub,            \* bound on the number of published messages
          QCap,              \* capacity of a client's outbound queue (50 in the code)
          MaxResend,         \* bound on retransmissions (model checking only)
          MaxUp,             \* bound on PUBLISH packets from clients (model checking only)
          ReturnOnLowQoS,    \* TRUE: sendMsgToClient as pinned (`return` at a subscriber with lower QoS); FALSE: `continue`
          PickMaxQoS,        \* FALSE: findSubscribers reports any one of a client's matching QoS (pinned); TRUE: the maximum
          Bystanders,        \* ids of clients that hold no subscription and connect / disconnect at any time
          AckViaQueue,       \* TRUE: the PUBACK of a client's PUBLISH travels through that client's outbound queue like every other
                             \* packet the broker sends it (writePacket: the connection's read loop blocks while the queue is full -
                             \* a client that has stopped reading); FALSE: coarse grain - PUBLISH and PUBACK are one step (generator,
                             \* trace validation: the harness has read the PUBACK, or seen that there is none, before it goes on)
          DropAckOnFull      \* FALSE: the code; TRUE: the read loop gives up on a full queue after a while and the PUBACK is lost
                             \* (lead generation: must be refuted)

VARIABLES msgs,      \* sequence of published messages [t, q]; the index is the message id
          inq,       \* [Clients -> Seq(message id | -k)]  outbound queue (Client.writeCh); -k: the PUBACK of up[k]
          pend,      \* [Clients -> Seq(message id)]  QoS1 messages sent and not yet acknowledged, oldest first
          got,       \* [Clients -> Seq(message id)]  what the client has read from its socket, in order
          ackd,      \* [Clients -> SUBSET message id]  acknowledgements the broker has processed
          resends,   \* number of retransmissions so far
          up,        \* sequence of PUBLISH packets received from clients: [c, pid, q, t]
          piped,     \* indices of `up` handed to the backend (publish) pipeline
          upack,     \* sequence of PUBACKs received by publishing clients: [c, pid, k] (k: the PUBLISH, index of `up`, it answers)
          rl,        \* [Clients -> 0 | k]: k # 0 - the connection's read loop is blocked in writePacket with the PUBACK of up[k]
          infl,      \* [Clients -> [PidsUp -> message]]: client side - the unacknowledged QoS1 message that occupies a packet id (0: free)
          byst,      \* the bystanders connected at the moment
          step       \* observation of the step just taken

dvars == <<vars, msgs, inq, pend, got, ackd, resends, up, piped, upack, rl, infl, byst, step>>
dview == <<subs, msgs, inq, pend, got, ackd, resends, up, piped, upack, rl, infl, byst>>
PidsUp == 1..2

Routed(c, t)      == \E s \in subs : s.c = c /\ Matches(s.f, t)
Eligible(c, t, q) == \E s \in subs : s.c = c /\ Matches(s.f, t) /\ s.q >= q
Must(t, q) == {c \in Clients : Eligible(c, t, q)}
May(t, q)  == {c \in Clients : Routed(c, t)}

SeqSet(s) == {s[i] : i \in 1..Len(s)}
Max(S) == CHOOSE x \in S : \A y \in S : y <= x

DInit ==
    /\ subs \in Populations /\ n = 0 /\ last = [a |-> "init"]
    /\ msgs = <<>>
    /\ inq = [c \in Clients |-> <<>>] /\ pend = [c \in Clients |-> <<>>] /\ got = [c \in Clients |-> <<>>]
    /\ ackd = [c \in Clients |-> {}] /\ resends = 0
    /\ up = <<>> /\ piped = {} /\ upack = <<>> /\ infl = [c \in Clients |-> [p \in PidsUp |-> 0]] /\ byst = {}
    /\ rl = [c \in Clients |-> 0]
    /\ step = [a |-> "init"]

(* ---- HttpPublish: contract.  D = the set of clients that get a copy queued. ---- *)
Enqueue(D, m, q) ==
    /\ inq' = [c \in Clients |-> IF c \in D THEN Append(inq[c], m) ELSE inq[c]]
    /\ pend' = [c \in Clients |-> IF c \in D /\ q = 1 THEN Append(pend[c], m) ELSE pend[c]]

PublishTo(t, q, D) ==
    /\ Len(msgs) < MaxPub
    /\ msgs' = Append(msgs, [t |-> t, q |-> q])
    /\ Enqueue(D, Len(msgs) + 1, q)
    /\ step' = [a |-> "pub", t |-> t, q |-> q, m |-> Len(msgs) + 1, to |-> D]
    /\ UNCHANGED <<vars, got, ackd, resends, up, piped, upack, rl, infl, byst>>

(* the deliveries the contract allows for a publish *)
Allowed(t, q, D) ==
    /\ D \subseteq May(t, q)
    /\ \A c \in Must(t, q) : c \in D \/ (q = 0 /\ Len(inq[c]) >= QCap)       \* QoS0 drop only on a full queue
    /\ \A c \in D : Len(inq[c]) < QCap        \* a full queue takes no QoS0 copy; a QoS1 send blocks until there is room

HttpPublish == \E t \in PubTopics, q \in QoS : \E D \in SUBSET Clients : Allowed(t, q, D) /\ PublishTo(t, q, D)

(* ---- HttpPublish: implementation-shaped.  findSubscribers gives one QoS per routed client;   *)
(* the subscribers are visited in an arbitrary order (Go map iteration).                          *)
Picks(t) == IF PickMaxQoS THEN {[c \in DOMAIN Route(t) |-> Max(Route(t)[c])]}
            ELSE {p \in [DOMAIN Route(t) -> QoS] : \A c \in DOMAIN Route(t) : p[c] \in Route(t)[c]}
Orders(S) == {o \in [1..Cardinality(S) -> S] : \A i, j \in 1..Cardinality(S) : o[i] = o[j] => i = j}

RECURSIVE Visit(_, _, _, _)
Visit(o, pick, q, i) ==          \* the clients session.publish is called for
    IF i > Len(o) THEN {}
    ELSE IF pick[o[i]] < q THEN (IF ReturnOnLowQoS THEN {} ELSE Visit(o, pick, q, i + 1))
    ELSE {o[i]} \cup Visit(o, pick, q, i + 1)

ImplPublish ==
    \E t \in PubTopics, q \in QoS : \E pick \in Picks(t) : \E o \in Orders(DOMAIN Route(t)) :
        LET V == Visit(o, pick, q, 1)
            D == {c \in V : q = 1 \/ Len(inq[c]) < QCap}      \* session.publish: QoS0 is a non-blocking send
        IN /\ \A c \in V : q = 1 => Len(inq[c]) < QCap        \* (a blocking send completes only when there is room)
           /\ PublishTo(t, q, D)

(* ---- the rest of the machinery (same in both layers) ---- *)
(* writeLoop writes the head of the queue to the socket and the client reads it: a message, or the     *)
(* PUBACK of one of the client's own PUBLISH packets (its packet id is free again then)                   *)
Receive(c) ==
    /\ inq[c] # <<>>
    /\ inq' = [inq EXCEPT ![c] = Tail(@)]
    /\ LET h == Head(inq[c]) IN
       IF h > 0
       THEN /\ got' = [got EXCEPT ![c] = Append(@, h)]
            /\ step' = [a |-> "recv", c |-> c, m |-> h]
            /\ UNCHANGED <<upack, infl>>
       ELSE /\ upack' = Append(upack, [c |-> c, pid |-> up[-h].pid, k |-> -h])
            /\ infl' = IF infl[c][up[-h].pid] = up[-h].u THEN [infl EXCEPT ![c][up[-h].pid] = 0] ELSE infl
            /\ step' = [a |-> "recvack", c |-> c, k |-> -h]
            /\ UNCHANGED got
    /\ UNCHANGED <<vars, msgs, pend, ackd, resends, up, piped, rl, byst>>

(* the client's PUBACK is processed by the broker (session.puback) *)
Ack(c, m) ==
    /\ m \in SeqSet(got[c]) /\ m \in SeqSet(pend[c])
    /\ pend' = [pend EXCEPT ![c] = SelectSeq(@, LAMBDA x : x # m)]
    /\ ackd' = [ackd EXCEPT ![c] = @ \cup {m}]
    /\ step' = [a |-> "ack", c |-> c, m |-> m]
    /\ UNCHANGED <<vars, msgs, inq, got, resends, up, piped, upack, rl, infl, byst>>

(* resend tick of the session: an unacknowledged message is queued again.  The contract allows    *)
(* any unacknowledged message, the code picks the oldest one (OldestOnly).                          *)
Resend(c, m) ==
    /\ resends < MaxResend
    /\ m \in SeqSet(pend[c])
    /\ Len(inq[c]) < QCap
    /\ inq' = [inq EXCEPT ![c] = Append(@, m)]
    /\ resends' = resends + 1
    /\ step' = [a |-> "resend", c |-> c, m |-> m]
    /\ UNCHANGED <<vars, msgs, pend, got, ackd, up, piped, upack, rl, infl, byst>>
ResendOldest(c) == pend[c] # <<>> /\ Resend(c, Head(pend[c]))

(* a PUBLISH from client c (no publish limiter configured): one step of the connection's read loop  *)
(* - hand it to the pipeline, then, unless the pipeline drops it (v = "drop"), PUBACK with the same   *)
(* id for QoS1.  The client: a new QoS1 message takes a free packet id (DUP=0); a message that has     *)
(* not been acknowledged is sent again with its id and DUP=1 (re); an acknowledged id is free again.   *)
(* u is the message the packet carries (the index of its first transmission).                          *)
Verdicts == {"pass", "drop"}
ClientPublish(c, pid, q, t, re, v) ==
    /\ Len(up) < MaxUp
    /\ rl[c] = 0                                   \* (a read loop that is blocked reads no further packet)
    /\ re => (q = 1 /\ infl[c][pid] # 0)
    /\ (~re /\ q = 1) => infl[c][pid] = 0
    /\ LET k == Len(up) + 1
           u == IF re THEN infl[c][pid] ELSE k
           acked == q = 1 /\ v = "pass"
       IN /\ up' = Append(up, [c |-> c, pid |-> pid, q |-> q, t |-> t, u |-> u, dup |-> re, v |-> v])
          /\ piped' = piped \cup {k}
          /\ step' = [a |-> "cpub", c |-> c, pid |-> pid, q |-> q, t |-> t, u |-> u, dup |-> re, v |-> v]
          /\ IF AckViaQueue
             THEN \* processPublish: writePacket(puback) - queued if there is room, otherwise the read loop waits for room
                  /\ upack' = upack
                  /\ infl' = IF q = 0 THEN infl ELSE [infl EXCEPT ![c][pid] = u]
                  /\ IF acked /\ Len(inq[c]) < QCap THEN inq' = [inq EXCEPT ![c] = Append(@, -k)] /\ rl' = rl
                     ELSE IF acked THEN rl' = [rl EXCEPT ![c] = k] /\ inq' = inq
                     ELSE UNCHANGED <<inq, rl>>
             ELSE /\ upack' = IF acked THEN Append(upack, [c |-> c, pid |-> pid, k |-> k]) ELSE upack
                  /\ infl' = IF q = 0 THEN infl ELSE [infl EXCEPT ![c][pid] = IF acked THEN 0 ELSE u]
                  /\ UNCHANGED <<inq, rl>>
    /\ UNCHANGED <<vars, msgs, pend, got, ackd, resends, byst>>

(* the blocked read loop gets its PUBACK into the queue as soon as there is room *)
Unblock(c) ==
    /\ rl[c] # 0 /\ Len(inq[c]) < QCap
    /\ inq' = [inq EXCEPT ![c] = Append(@, -rl[c])] /\ rl' = [rl EXCEPT ![c] = 0]
    /\ step' = [a |-> "unblock", c |-> c]
    /\ UNCHANGED <<vars, msgs, pend, got, ackd, resends, up, piped, upack, infl, byst>>
(* (DropAckOnFull only) ... or gives up after a while: the PUBACK is dropped *)
GiveUp(c) ==
    /\ DropAckOnFull /\ rl[c] # 0 /\ rl' = [rl EXCEPT ![c] = 0]
    /\ step' = [a |-> "giveup", c |-> c]
    /\ UNCHANGED <<vars, msgs, inq, pend, got, ackd, resends, up, piped, upack, infl, byst>>

(* a client that holds no subscription connects or disconnects: nothing the property talks about changes *)
Bystander(x) ==
    /\ byst' = IF x \in byst THEN byst \ {x} ELSE byst \cup {x}
    /\ step' = [a |-> "bystander", x |-> x]
    /\ UNCHANGED <<vars, msgs, inq, pend, got, ackd, resends, up, piped, upack, rl, infl>>

Rest == \/ \E c \in Clients : \/ Receive(c) \/ (\E m \in 1..Len(msgs) : Ack(c, m)) \/ ResendOldest(c) \/ Unblock(c) \/ GiveUp(c)
                              \/ \E pid \in PidsUp, q \in QoS, t \in PubTopics, re \in BOOLEAN, v \in Verdicts : ClientPublish(c, pid, q, t, re, v)
        \/ \E x \in Bystanders : Bystander(x)

DNext  == HttpPublish \/ Rest          \* contract
INextD == ImplPublish \/ Rest          \* implementation-shaped
DSpec  == DInit /\ [][DNext]_dvars
ISpecD == DInit /\ [][INextD]_dvars
Fair   == \A c \in Clients : WF_dvars(Receive(c)) /\ WF_dvars(ResendOldest(c))
LSpecD == ISpecD /\ Fair

(* ------------------------------ the property's clauses ------------------------------ *)
DTypeOK == /\ \A c \in Clients : SeqSet(pend[c]) \cup SeqSet(got[c]) \cup ackd[c] \subseteq 1..Len(msgs)
           /\ \A c \in Clients : SeqSet(inq[c]) \subseteq 1..Len(msgs) \cup {-k : k \in 1..Len(up)}
           /\ \A c \in Clients : Len(inq[c]) <= QCap /\ rl[c] \in 0..Len(up)

(* Fanout: right after a publish every eligible client has the message queued (QoS0: unless its  *)
(* queue was full) - for every visiting order and every QoS the lookup may report                  *)
Fanout == [][step'.a = "pub" =>
               \A c \in Must(step'.t, step'.q) : c \in step'.to \/ (step'.q = 0 /\ Len(inq[c]) >= QCap)]_dvars
(* never to a client without a matching subscription *)
OnlyRouted == [][step'.a = "pub" => step'.to \subseteq May(step'.t, step'.q)]_dvars
(* a message whose acknowledgement has been processed is never queued again *)
NoResendAfterAck == [][\A c \in Clients : \A m \in ackd[c] :
                          Len(SelectSeq(inq'[c], LAMBDA x : x = m)) <= Len(SelectSeq(inq[c], LAMBDA x : x = m))]_dvars
(* what is pending was sent with QoS1 and is not acknowledged *)
PendingSound == \A c \in Clients : \A m \in SeqSet(pend[c]) : msgs[m].q = 1 /\ m \notin ackd[c]
(* every QoS1 copy sent is pending until acknowledged: nothing is forgotten *)
NothingForgotten == \A c \in Clients : \A m \in 1..Len(msgs) :
                        (msgs[m].q = 1 /\ (m \in SeqSet(inq[c]) \/ m \in SeqSet(got[c]))) => (m \in SeqSet(pend[c]) \/ m \in ackd[c])
(* every PUBLISH of a client went to the pipeline and every QoS1 one the pipeline did not drop was   *)
(* answered with its own packet id; no PUBACK without such a PUBLISH                                 *)
MustAck(i) == up[i].q = 1 /\ up[i].v = "pass"
AckOnItsWay(i) == -i \in SeqSet(inq[up[i].c]) \/ rl[up[i].c] = i      \* queued for the client, or the read loop is about to queue it
Acks(i) == {j \in 1..Len(upack) : upack[j].k = i}
PubAckSameId ==
    /\ \A i \in 1..Len(up) : i \in piped
    \* never lost, never twice: the PUBACK has been received, or is on its way
    /\ \A i \in 1..Len(up) : MustAck(i) => Cardinality(Acks(i)) + (IF AckOnItsWay(i) THEN 1 ELSE 0) = 1
    \* no PUBACK without such a PUBLISH, and it carries that PUBLISH's packet id
    /\ \A j \in 1..Len(upack) : LET i == upack[j].k IN i \in 1..Len(up) /\ MustAck(i) /\ upack[j].c = up[i].c /\ upack[j].pid = up[i].pid
    /\ \A c \in Clients : \A x \in SeqSet(inq[c]) : x < 0 => (MustAck(-x) /\ up[-x].c = c)
(* the contract's form of the first conjunct (a broker may recognise a retransmission): the message of every   *)
(* PUBLISH has been handed to the pipeline - if the pipeline lets this packet pass, by a call it let pass        *)
Handed(i) == \E j \in piped : up[j].c = up[i].c /\ up[j].u = up[i].u /\ (up[i].v = "pass" => up[j].v = "pass")
MessageReachesPipeline == \A i \in 1..Len(up) : Handed(i)
(* a client's packet id names at most one unacknowledged message *)
InflightSound == \A c \in Clients : \A p \in PidsUp : infl[c][p] # 0 =>
                     \E i \in 1..Len(up) : up[i].c = c /\ up[i].pid = p /\ up[i].u = infl[c][p] /\ up[i].q = 1
(* liveness (checked without MaxResend biting: see the cfg): the oldest unacknowledged message keeps arriving *)
Count(s, m) == Len(SelectSeq(s, LAMBDA x : x = m))
Redeliver == \A c \in Clients : \A m \in 1..MaxPub : \A k \in 1..2 :
                 (pend[c] # <<>> /\ Head(pend[c]) = m /\ Count(got[c], m) = k) ~> (Count(got[c], m) > k \/ m \in ackd[c] \/ resends >= MaxResend)

(* ---------------------------------- universes ---------------------------------- *)
FAH == <<LA, LH>>   FAB == <<LA, LB>>   FPB == <<LP, LB>>   FAP == <<LA, LP>>
TAB == <<LA, LB>>   TAC == <<LA, LC>>   TA == <<LA>>
(* literal filters / topics of the resume universe (one filter per topic, so that the QoS a subscription comes back with  *)
(* after a resume is not masked by another matching subscription of the same client) and of the stall universe              *)
FAC == <<LA, LC>>   FA == <<LA>>   FB == <<LB>>   FC == <<LC>>   FBA == <<LB, LA>>   FCA == <<LC, LA>>   FBC == <<LB, LC>>
TB == <<LB>>   TC == <<LC>>   TBA == <<LB, LA>>   TCA == <<LC, LA>>   TBC == <<LB, LC>>
(* all tables in which every client holds at most K of the filters F, each with QoS 0 or 1 *)
Tables(F, K) ==
    LET one(c) == {S \in SUBSET [c : {c}, f : F, q : QoS] : Cardinality(S) <= K /\ \A x, y \in S : x.f = y.f => x = y}
        RECURSIVE prod(_)
        prod(Cs) == IF Cs = {} THEN {{}} ELSE LET c == CHOOSE x \in Cs : TRUE IN {a \cup b : a \in one(c), b \in prod(Cs \ {c})}
    IN prod(Clients)
MCTopics == {TAB, TA}
PopsSmall == Tables({FAH, FAB}, 2)
PopsNone  == {{}}
PopsOne   == { {[c |-> "c1", f |-> FAB, q |-> 1]}, {[c |-> "c1", f |-> FAB, q |-> 0]} }     \* one subscriber, QoS 1 or 0
OneTopic  == {TAB}
PopsWide  == Tables({FAH, FAB, FPB, FAP}, 2)
=============================================================================

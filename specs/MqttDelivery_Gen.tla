--------------------------- MODULE MqttDelivery_Gen ---------------------------
(* Scenario generator for C15: populations are built by SUBSCRIBE / UNSUBSCRIBE steps (the        *)
(* contract actions of MqttTopics), messages are published over HTTP and by clients; `out` carries *)
(* for every publish the set of clients the contract says MUST get it (matching subscription with  *)
(* QoS >= q) and the set that MAY get it (any matching subscription).  Each client has an           *)
(* acknowledgement policy for the whole scenario.  `low` = clients holding a matching subscription    *)
(* with a QoS below the message's (signature detail for known findings only).                         *)
EXTENDS MqttDelivery, Json, SequencesExt

CONSTANTS GenFilters, MaxSteps
VARIABLES out, pol, k

Policies == {"prompt", "late", "never"}

GInit == /\ subs = {} /\ n = 0 /\ last = [a |-> "init"]
         /\ msgs = <<>> /\ inq = [c \in Clients |-> <<>>] /\ pend = [c \in Clients |-> <<>>] /\ got = [c \in Clients |-> <<>>]
         /\ ackd = [c \in Clients |-> {}] /\ resends = 0 /\ up = <<>> /\ piped = {} /\ upack = <<>> /\ step = [a |-> "init"]
         /\ pol \in [Clients -> Policies] /\ k = 0
         /\ out = ToJson([a |-> "init", pol |-> pol])

Frame == UNCHANGED <<msgs, inq, pend, got, ackd, resends, up, piped, upack, step, pol>>

GSub == \E c \in Clients, f \in GenFilters, q \in QoS :
           /\ Subscribe(c, <<f>>, <<q>>, {1})
           /\ out' = ToJson([a |-> "sub", c |-> c, f |-> f, q |-> q]) /\ Frame
GUnsub == \E c \in Clients, f \in GenFilters :
           /\ \E s \in subs : s.c = c /\ s.f = f
           /\ Unsubscribe(c, <<f>>)
           /\ out' = ToJson([a |-> "unsub", c |-> c, f |-> f]) /\ Frame
GPub == \E t \in PubTopics, q \in QoS :
           /\ subs # {}
           /\ out' = ToJson([a |-> "pub", t |-> t, q |-> q, must |-> SetToSeq(Must(t, q)), may |-> SetToSeq(May(t, q)),
                               low |-> SetToSeq({c \in Clients : \E s \in subs : s.c = c /\ Matches(s.f, t) /\ s.q < q})])
           /\ UNCHANGED vars /\ Frame
GCPub == \E c \in Clients, q \in QoS, t \in {TAB} :
           /\ out' = ToJson([a |-> "cpub", c |-> c, q |-> q, t |-> t])
           /\ UNCHANGED vars /\ Frame
GNext == k < MaxSteps /\ k' = k + 1 /\ (GSub \/ GUnsub \/ GPub \/ GPub \/ GCPub)
GSpec == GInit /\ [][GNext]_<<dvars, out, pol, k>>

GenFiltersWide == {FAH, FAB, FPB, FAP}
GenTopics == {TAB, TAC, TA}
=============================================================================

--------------------------- MODULE MqttDelivery_Gen ---------------------------
(* Scenario generator for C15: populations are built by SUBSCRIBE / UNSUBSCRIBE steps (the        *)
(* contract actions of MqttTopics), messages are published over HTTP and by clients; `out` carries *)
(* for every publish the set of clients the contract says MUST get it (matching subscription with  *)
(* QoS >= q) and the set that MAY get it (any matching subscription).  Each client has an           *)
(* acknowledgement policy for the whole scenario.  `low` = clients holding a matching subscription    *)
(* with a QoS below the message's (signature detail for known findings only).                         *)
(* Further input dimensions:                                                                           *)
(*   age[c]   the number of messages c's session has been sent before the scenario begins (the          *)
(*            session's 16-bit packet id counter starts there: a long-lived session wraps);              *)
(*   churn    on a publish step: bystanders (clients without subscriptions) connect and disconnect        *)
(*            while the messages are published;                                                           *)
(*   cpubx    a single QoS1 PUBLISH of the client model of MqttDelivery!ClientPublish: packet ids          *)
(*            1..2 re-used once acknowledged, an unacknowledged message sent again with DUP=1, and the     *)
(*            verdict ("pass" / "drop") the backend pipeline gives on this packet;                          *)
(*   stall    a stalled reader: client c stops reading from its connection (the broker's writes to it        *)
(*            block), n > QCap messages that c must get are published meanwhile, so that c's outbound          *)
(*            queue in the broker is full; in that state c sends a QoS1 PUBLISH (the pipeline lets it pass);    *)
(*            ms milliseconds later c reads again.  QoS0 copies beyond the queue's capacity may be dropped       *)
(*            (the contract's waiver), every QoS1 copy must arrive, and so must the PUBACK of c's PUBLISH.        *)
(*            (With a QoS0 burst c acknowledges promptly, so that nothing but the burst is in its queue.)          *)
(*            While c is stalled (its queue full, the fan-outs of the burst blocked) a message is published for     *)
(*            ANOTHER client d on a topic c holds no matching subscription for (by |-> [c, t, q]; c = "" if there    *)
(*            is no such client): the property's independence clause - d must get it while c stays away.              *)
(*   resume   (WithResume) a client with a persistent session (cleanSession=false; Persistent of MqttTopics) ends      *)
(*            its connection - EOF, DISCONNECT - and connects again, or a second connection takes its id over, with      *)
(*            cleanSession=false: the session is resumed, every subscription is live again with its own QoS             *)
(*            (MqttTopics!Resume), and the publishes that follow are owed as before.  A resumed client acknowledges       *)
(*            promptly (the code does not persist unacknowledged messages; nothing is unacknowledged at the resume).       *)
(*            These scenarios use literal filters (one per topic): sessions of 4-8 filters of both QoS.                    *)
EXTENDS MqttDelivery, Json, SequencesExt

CONSTANTS GenFilters, MaxSteps,
          GenClients,   \* the clients that subscribe / unsubscribe (all clients are connected)
          Alternate,    \* TRUE: subscription changes and publishes alternate strictly (so that every change of a
                        \* subscription - in particular a re-subscription with another QoS - is preceded and followed by a publish)
          WithCPub,     \* FALSE: no client publishes (narrow universes used to make re-subscriptions with another QoS frequent)
          UpOnly,       \* TRUE: nothing but single client PUBLISH packets (cpubx): conversations in which packet ids are re-used,
                        \* packets dropped by the pipeline and retransmitted with DUP=1 are frequent
          Ages,         \* the values age[c] is drawn from
          WithStall,    \* TRUE: stalled-reader steps are generated
          WithResume,   \* TRUE: resume scenarios - SubSteps subscribe steps, then resumes (every 5th step) and QoS1 publishes
          SubSteps,
          StallMs       \* the durations (ms) a stalled reader stays away after its PUBLISH
VARIABLES out, pol, k, age

(* prompt: PUBACK on receipt; late: only after a retransmission was seen; never; holdfirst: prompt for   *)
(* everything except the first QoS1 message received, which is never acknowledged (acks out of order)     *)
Policies == {"prompt", "late", "never", "holdfirst"}

GInit == /\ subs = {} /\ n = 0 /\ last = [a |-> "init"]
         /\ msgs = <<>> /\ inq = [c \in Clients |-> <<>>] /\ pend = [c \in Clients |-> <<>>] /\ got = [c \in Clients |-> <<>>]
         /\ ackd = [c \in Clients |-> {}] /\ resends = 0 /\ up = <<>> /\ piped = {} /\ upack = <<>> /\ step = [a |-> "init"]
         /\ infl = [c \in Clients |-> [p \in PidsUp |-> 0]] /\ byst = {} /\ rl = [c \in Clients |-> 0]
         /\ pol \in [Clients -> Policies] /\ k = 0 /\ age \in [Clients -> Ages]
         /\ WithResume => \A c \in Persistent : pol[c] = "prompt"
         /\ out = ToJson([a |-> "init", pol |-> pol, age |-> age, pers |-> SetToSeq(Persistent)])

Frame == UNCHANGED <<msgs, inq, pend, got, ackd, resends, up, piped, upack, rl, infl, byst, step, pol, age>>

GSub == \E c \in GenClients, f \in GenFilters, q \in QoS :
           /\ Subscribe(c, <<f>>, <<q>>, {1})
           /\ out' = ToJson([a |-> "sub", c |-> c, f |-> f, q |-> q]) /\ Frame
GUnsub == \E c \in GenClients, f \in GenFilters :
           /\ \E s \in subs : s.c = c /\ s.f = f
           /\ Unsubscribe(c, <<f>>, {1})
           /\ out' = ToJson([a |-> "unsub", c |-> c, f |-> f]) /\ Frame
GPub == \E t \in PubTopics, q \in QoS, churn \in BOOLEAN :
           /\ subs # {}
           /\ out' = ToJson([a |-> "pub", t |-> t, q |-> q, churn |-> churn, must |-> SetToSeq(Must(t, q)), may |-> SetToSeq(May(t, q)),
                               low |-> SetToSeq({c \in Clients : \E s \in subs : s.c = c /\ Matches(s.f, t) /\ s.q < q})])
           /\ UNCHANGED vars /\ Frame
GCPub == \E c \in Clients, q \in QoS, t \in {TAB}, b \in {1, 4} :      \* b: PUBLISH packets sent back to back
           /\ WithCPub
           /\ out' = ToJson([a |-> "cpub", c |-> c, q |-> q, t |-> t, burst |-> b])
           /\ UNCHANGED vars /\ Frame
GCPubX == \E c \in Clients, pid \in PidsUp, re \in BOOLEAN, v \in Verdicts :
           /\ WithCPub
           /\ ClientPublish(c, pid, 1, TAB, re, v)
           /\ out' = ToJson([a |-> "cpubx", c |-> c, pid |-> pid, q |-> 1, t |-> TAB, u |-> step'.u, dup |-> re, v |-> v])
           /\ UNCHANGED <<pol, age>>
(* the bystanders of a stall of c: a client d # c, a topic c holds no matching subscription for, a QoS d is eligible at *)
Indep(c) == {b \in [c : Clients \ {c}, t : PubTopics, q : QoS] : b.c \in Must(b.t, b.q) /\ c \notin May(b.t, b.q)}
NoBy == [c |-> "", t |-> <<>>, q |-> 0]
StallCands == {c \in Clients : \E t \in PubTopics, q \in QoS : c \in Must(t, q) /\ (q = 0 => pol[c] = "prompt")}
GStall == \E c \in Clients, t \in PubTopics, q \in QoS, d \in StallMs :
           /\ WithStall
           /\ c \in Must(t, q)
           /\ q = 0 => pol[c] = "prompt"
           \* (prefer the stalls that have a bystander, and a QoS1 burst - the fan-outs of a QoS0 burst never wait - for those)
           /\ (\E x \in StallCands : Indep(x) # {}) => Indep(c) # {}
           /\ (Indep(c) # {} /\ \E t2 \in PubTopics : c \in Must(t2, 1)) => q = 1
           /\ \E by \in (IF Indep(c) = {} THEN {NoBy} ELSE Indep(c)) :
                out' = ToJson([a |-> "stall", c |-> c, t |-> t, q |-> q, ms |-> d, n |-> QCap + 10, by |-> by,
                               must |-> SetToSeq(Must(t, q)), may |-> SetToSeq(May(t, q)),
                               bymust |-> SetToSeq(IF by.c = "" THEN {} ELSE Must(by.t, by.q))])
           /\ UNCHANGED vars /\ Frame
OwnSubs(c) == {s \in subs : s.c = c}
GResume == \E c \in GenClients, how \in {"eof", "disc", "takeover"} :
           /\ WithResume /\ pol[c] = "prompt" /\ OwnSubs(c) # {}
           /\ Resume(c)
           /\ out' = ToJson([a |-> "resume", c |-> c, how |-> how, nsub |-> Cardinality(OwnSubs(c)),
                               mixed |-> Cardinality({s.q : s \in OwnSubs(c)}) > 1]) /\ Frame
ResumePossible == \E c \in GenClients : c \in Persistent /\ pol[c] = "prompt" /\ OwnSubs(c) # {}
(* resume scenarios: publishes somebody must get *)
GPubR == \E t \in PubTopics, q \in QoS :
           /\ Must(t, q) # {}
           /\ out' = ToJson([a |-> "pub", t |-> t, q |-> q, churn |-> FALSE, must |-> SetToSeq(Must(t, q)), may |-> SetToSeq(May(t, q)),
                               low |-> SetToSeq({c \in Clients : \E s \in subs : s.c = c /\ Matches(s.f, t) /\ s.q < q})])
           /\ UNCHANGED vars /\ Frame
StallPossible == \E c \in Clients, t \in PubTopics, q \in QoS : c \in Must(t, q) /\ (q = 0 => pol[c] = "prompt")
GNext == /\ k < MaxSteps /\ k' = k + 1
         /\ IF UpOnly THEN GCPubX
            ELSE IF WithResume THEN (IF k < SubSteps THEN GSub
                                     ELSE IF (k - SubSteps) % 5 = 0 /\ ResumePossible THEN GResume ELSE GPubR)
            ELSE IF Alternate THEN (IF k % 2 = 0 THEN GSub \/ GUnsub
                                    ELSE IF WithStall /\ StallPossible THEN GStall ELSE GPub)
                              ELSE (GSub \/ GUnsub \/ GPub \/ GCPub \/ GCPubX \/ GStall)
GSpec == GInit /\ [][GNext]_<<dvars, out, pol, k, age>>

GenFiltersWide == {FAH, FAB, FPB, FAP}
GenTopics == {TAB, TAC, TA}
GenFiltersNarrow == {FAB}
GenTopicsNarrow == {TAB}
(* stall universe: two disjoint filter / topic pairs, so that a stalled subscriber of one has a bystander on the other *)
GenFiltersStall == {FAB, FAC}
GenTopicsStall == {TAB, TAC}
(* resume universe: literal filters, one per topic *)
GenFiltersResume == {FAB, FAC, FA, FB, FC, FBA, FCA, FBC}
GenTopicsResume == {TAB, TAC, TA, TB, TC, TBA, TCA, TBC}
=============================================================================

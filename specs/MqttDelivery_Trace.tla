-------------------------- MODULE MqttDelivery_Trace --------------------------
(* Trace validation for C15.  The harness runs scenarios on a real Broker (loopback TCP, raw MQTT  *)
(* clients) and logs, with a global sequence number:                                               *)
(*   reset                                   new broker, no subscriptions                           *)
(*   sub {c,f,q} / unsub {c,f}               acknowledged SUBSCRIBE / UNSUBSCRIBE (broker quiescent) *)
(*   pub {m,t,q}                             logged just before the HTTP publish handler is called  *)
(*   recv {c,m,q,pid}                        client c read a PUBLISH carrying message m             *)
(*   ack {c,m}                               c sent PUBACK for m and then completed a PINGREQ/       *)
(*                                           PINGRESP round trip: the broker has processed the ack, *)
(*                                           and everything it had queued before is already read    *)
(*   cpub {k,c,pid,q,t,u,dup,v}              the k-th PUBLISH sent by a client: message u (its payload), DUP *)
(*                                           flag, and the verdict the backend pipeline will give on it  *)
(*   pipe {c,pid,t,u,dup,v}                  a call seen by the recording backend pipeline and its verdict *)
(*   cpuback {c,pid,k}                       the PUBACK read in answer to the k-th PUBLISH                 *)
(*   byst {x,up}                             a client without subscriptions connected / disconnected (no    *)
(*                                           effect on anything the contract says)                           *)
(*   abort                                   the scenario was cut short after a certified violation (a        *)
(*                                           broker that does not deliver any more cannot be driven on)       *)
(*   miss {c,m}                              (after the barriers) c has not received m - accepted only *)
(*                                           if the contract owed it: a certified Fanout violation     *)
(*   stuck {c,m,n0}                          the deadline passed without a retransmission of c's oldest *)
(*                                           unacknowledged message m (n0 receptions when the harness    *)
(*                                           began to wait) - accepted only if the log agrees             *)
(*   resume {c}                              c's connection ended (or was taken over) and c is connected again with      *)
(*                                           cleanSession=false: its session is resumed - every subscription as it was    *)
(*                                           (nothing was unacknowledged; packet ids start afresh on the new connection)  *)
(*   indep {c}                               while c is stalled (not reading, its outbound queue full): the harness has    *)
(*                                           waited for every delivery owed to OTHER clients for messages c holds no        *)
(*                                           matching subscription for (deadline >= 20s, and no fan-out goroutine left      *)
(*                                           that is not blocked) - independence clause: they must have arrived, or a       *)
(*                                           `miss` has been certified                                                      *)
(*   settle                                  the harness has drained all deliveries (goroutine and   *)
(*                                           ping barriers) and has waited (generous deadline) for    *)
(*                                           the retransmission of every session's oldest             *)
(*                                           unacknowledged message                                   *)
(* The state is the contract's (subs, msgs, got, ackd, up, piped, upack); obligations are the       *)
(* contract's Must / May sets evaluated at publish time.                                             *)
EXTENDS MqttDelivery, Json, TLC, IOUtils

TLog == ndJsonDeserialize(IOEnv.VERIF_TRACE)

VARIABLES l,
          owed,      \* <<c, m>>: the contract obliges delivery of m to c
          mayget,    \* <<c, m>>: c had a matching subscription when m was published
          waived,    \* <<c, m>>: QoS0 copy that may have met a full queue
          pidm,      \* <<c, pid, m>> seen so far (a packet id names one message per connection)
          viol,      \* certified violations: <<"miss" | "stuck", c, m>>
          upacked    \* the client PUBLISH packets (indices of `up`) answered by a PUBACK

tvars == <<dvars, l, owed, mayget, waived, pidm, viol, upacked>>

IsEvent(e) == l <= Len(TLog) /\ TLog[l].ev = e /\ l' = l + 1
E == TLog[l]

Fresh == /\ subs' = {} /\ n' = 0 /\ last' = [a |-> "init"]
         /\ msgs' = <<>> /\ inq' = [c \in Clients |-> <<>>] /\ pend' = [c \in Clients |-> <<>>] /\ got' = [c \in Clients |-> <<>>]
         /\ ackd' = [c \in Clients |-> {}] /\ resends' = 0 /\ up' = <<>> /\ piped' = {} /\ upack' = <<>> /\ step' = [a |-> "init"]
         /\ infl' = [c \in Clients |-> [p \in PidsUp |-> 0]] /\ byst' = {} /\ rl' = [c \in Clients |-> 0]
         /\ owed' = {} /\ mayget' = {} /\ waived' = {} /\ pidm' = {} /\ viol' = {} /\ upacked' = {}

Keep == UNCHANGED <<inq, pend, resends, step, infl, rl>>

TReset == IsEvent("reset") /\ Fresh

TSub == /\ IsEvent("sub") /\ Subscribe(E.c, <<E.f>>, <<E.q>>, {1}) /\ last'.ok
        /\ Keep /\ UNCHANGED <<msgs, got, ackd, up, piped, upack, byst, owed, mayget, waived, pidm, viol, upacked>>
TUnsub == /\ IsEvent("unsub") /\ Unsubscribe(E.c, <<E.f>>, {1})
          /\ Keep /\ UNCHANGED <<msgs, got, ackd, up, piped, upack, byst, owed, mayget, waived, pidm, viol, upacked>>

(* number of copies owed to c that c has not read yet: a lower bound of its queue length *)
Outstanding(c) == Cardinality({x \in owed : x[1] = c /\ x[2] \notin SeqSet(got[c])})

TPub == /\ IsEvent("pub") /\ E.m = Len(msgs) + 1
        /\ msgs' = Append(msgs, [t |-> E.t, q |-> E.q])
        /\ owed' = owed \cup {<<c, E.m>> : c \in Must(E.t, E.q)}
        /\ mayget' = mayget \cup {<<c, E.m>> : c \in May(E.t, E.q)}
        /\ waived' = waived \cup {<<c, E.m>> : c \in {x \in Must(E.t, E.q) : E.q = 0 /\ Outstanding(x) >= QCap}}
        /\ Keep /\ UNCHANGED <<vars, got, ackd, up, piped, upack, byst, pidm, viol, upacked>>

TRecv == /\ IsEvent("recv")
         /\ E.m \in 1..Len(msgs)
         /\ <<E.c, E.m>> \in mayget                                   \* only to holders of a matching subscription
         /\ <<E.c, E.m>> \in owed => E.q = msgs[E.m].q                 \* an eligible subscriber gets it at the published QoS
         /\ E.m \notin ackd[E.c]                                       \* never again once the ack has been processed
         /\ E.q = 1 => /\ \A x \in pidm : (x[1] = E.c /\ x[2] = E.pid) => x[3] = E.m
                       /\ \A x \in pidm : (x[1] = E.c /\ x[3] = E.m) => x[2] = E.pid
         /\ pidm' = IF E.q = 1 THEN pidm \cup {<<E.c, E.pid, E.m>>} ELSE pidm
         /\ got' = [got EXCEPT ![E.c] = Append(@, E.m)]
         /\ Keep /\ UNCHANGED <<vars, msgs, ackd, up, piped, upack, byst, owed, mayget, waived, viol, upacked>>

TAck == /\ IsEvent("ack") /\ E.m \in SeqSet(got[E.c])
        /\ ackd' = [ackd EXCEPT ![E.c] = @ \cup {E.m}]
        /\ Keep /\ UNCHANGED <<vars, msgs, got, up, piped, upack, byst, owed, mayget, waived, pidm, viol, upacked>>

TCPub == /\ IsEvent("cpub") /\ E.k = Len(up) + 1
         /\ E.dup => \E i \in 1..Len(up) : up[i].c = E.c /\ up[i].pid = E.pid /\ up[i].u = E.u       \* DUP=1: sent before with this id
         /\ up' = Append(up, [c |-> E.c, pid |-> E.pid, q |-> E.q, t |-> E.t, u |-> E.u, dup |-> E.dup, v |-> E.v])
         /\ Keep /\ UNCHANGED <<vars, msgs, got, ackd, piped, upack, byst, owed, mayget, waived, pidm, viol, upacked>>
(* a pipeline call is the call for one PUBLISH packet of that client that has not been accounted for *)
TPipe == /\ IsEvent("pipe")
         /\ \E i \in 1..Len(up) : /\ i \notin piped /\ up[i].c = E.c /\ up[i].t = E.t /\ up[i].u = E.u /\ up[i].dup = E.dup /\ up[i].v = E.v
                                  /\ (up[i].q = 1 => up[i].pid = E.pid)
                                  /\ \A j \in 1..(i - 1) : (j \notin piped /\ up[j].c = E.c /\ up[j].u = E.u /\ up[j].dup = E.dup /\ up[j].v = E.v) => FALSE
                                  /\ piped' = piped \cup {i}
         /\ Keep /\ UNCHANGED <<vars, msgs, got, ackd, up, upack, byst, owed, mayget, waived, pidm, viol, upacked>>
(* one PUBACK per PUBLISH at most, with the same id *)
TCPuback == /\ IsEvent("cpuback")
            /\ E.k \in 1..Len(up) /\ E.k \notin upacked
            /\ up[E.k].c = E.c /\ up[E.k].q = 1 /\ up[E.k].pid = E.pid
            /\ upacked' = upacked \cup {E.k}
            /\ upack' = Append(upack, [c |-> E.c, pid |-> E.pid, k |-> E.k])
            /\ Keep /\ UNCHANGED <<vars, msgs, got, ackd, up, piped, byst, owed, mayget, waived, pidm, viol>>
TByst == /\ IsEvent("byst") /\ byst' = IF E.up THEN byst \cup {E.x} ELSE byst \ {E.x}
         /\ Keep /\ UNCHANGED <<vars, msgs, got, ackd, up, piped, upack, owed, mayget, waived, pidm, viol, upacked>>

(* the oldest message c has received with QoS1 and not acknowledged *)
Unacked(c) == SelectSeq(got[c], LAMBDA m : msgs[m].q = 1 /\ <<c, m>> \in owed /\ m \notin ackd[c])

TMiss == /\ IsEvent("miss")
         /\ <<E.c, E.m>> \in owed \ waived /\ E.m \notin SeqSet(got[E.c])
         /\ viol' = viol \cup {<<"miss", E.c, E.m>>}
         /\ UNCHANGED <<dvars, owed, mayget, waived, pidm, upacked>>
TStuck == /\ IsEvent("stuck")
          /\ Unacked(E.c) # <<>> /\ Head(Unacked(E.c)) = E.m
          /\ Count(got[E.c], E.m) = E.n0          \* no reception since the harness started to wait (E.n0 receptions then)
          /\ viol' = viol \cup {<<"stuck", E.c, E.m>>}
          /\ UNCHANGED <<dvars, owed, mayget, waived, pidm, upacked>>

(* (IF instead of a disjunction: TLC expands a disjunction under a quantifier of an action into branches - one per   *)
(* owed copy that was reported missing AND arrived later - and validation time doubles with each of them)             *)
Arrived(x) == IF x[2] \in SeqSet(got[x[1]]) THEN TRUE ELSE <<"miss", x[1], x[2]>> \in viol
TSettle == /\ IsEvent("settle")
           /\ \A x \in owed \ waived : Arrived(x)                                                          \* Fanout
           /\ \A c \in Clients : Unacked(c) # <<>> =>                                   \* retransmitted until acknowledged
                  (IF Count(got[c], Head(Unacked(c))) >= 2 THEN TRUE ELSE <<"stuck", c, Head(Unacked(c))>> \in viol)
           /\ MessageReachesPipeline                                                  \* client PUBLISH -> backend pipeline
           /\ \A i \in 1..Len(up) : MustAck(i) => i \in upacked                      \* ... and PUBACK with the same id
           /\ UNCHANGED <<dvars, owed, mayget, waived, pidm, viol, upacked>>

(* independence: what is owed to the other clients for messages the stalled client E.c is not routed is delivered while it stays away *)
TIndep == /\ IsEvent("indep")
          /\ \A x \in owed \ waived : (x[1] # E.c /\ <<E.c, x[2]>> \notin mayget) => Arrived(x)
          /\ UNCHANGED <<dvars, owed, mayget, waived, pidm, viol, upacked>>
(* a persistent session resumed on a new connection: the subscriptions are what they were *)
TResume == /\ IsEvent("resume") /\ Resume(E.c)
           /\ pidm' = {x \in pidm : x[1] # E.c}
           /\ Keep /\ UNCHANGED <<msgs, got, ackd, up, piped, upack, byst, owed, mayget, waived, viol, upacked>>

(* a scenario may end early only after a violation the contract has certified *)
TAbort == IsEvent("abort") /\ viol # {} /\ UNCHANGED <<dvars, owed, mayget, waived, pidm, viol, upacked>>

TNext == TMiss \/ TStuck \/ TIndep \/ TResume \/ TReset \/ TSub \/ TUnsub \/ TPub \/ TRecv \/ TAck \/ TCPub \/ TPipe \/ TCPuback \/ TByst \/ TSettle \/ TAbort
TInit == /\ l = 1 /\ owed = {} /\ mayget = {} /\ waived = {} /\ pidm = {} /\ viol = {} /\ upacked = {}
         /\ infl = [c \in Clients |-> [p \in PidsUp |-> 0]] /\ byst = {} /\ rl = [c \in Clients |-> 0]
         /\ subs = {} /\ n = 0 /\ last = [a |-> "init"]
         /\ msgs = <<>> /\ inq = [c \in Clients |-> <<>>] /\ pend = [c \in Clients |-> <<>>] /\ got = [c \in Clients |-> <<>>]
         /\ ackd = [c \in Clients |-> {}] /\ resends = 0 /\ up = <<>> /\ piped = {} /\ upack = <<>> /\ step = [a |-> "init"]
TSpec == TInit /\ [][TNext]_tvars

ASSUME TLCSet(1, 0)
HWM == TLCSet(1, IF l - 1 > TLCGet(1) THEN l - 1 ELSE TLCGet(1))
Accepted == /\ PrintT(<<"VERIF_HWM", TLCGet(1), Len(TLog)>>)
            /\ TLCGet(1) = Len(TLog)
=============================================================================

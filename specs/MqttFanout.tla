------------------------------ MODULE MqttFanout ------------------------------
(* C15, independence clause: "a message ... is delivered to every connected client that has a      *)
(* matching subscription with QoS at least q, INDEPENDENTLY OF WHICH OTHER CLIENTS ARE SUBSCRIBED".   *)
(* This module looks at what carries the fan-outs of the HTTP publish endpoint (broker.go:            *)
(* httpTopicsPublishHandler -> sendMsgToClient -> Session.publish -> Client.writePacket), with QoS1     *)
(* messages only: Session.publish of a QoS1 message BLOCKS while the subscriber's outbound queue        *)
(* (Client.writeCh, capacity QCap) is full - a subscriber that has stopped reading.                     *)
(*                                                                                                      *)
(*   Publish(D)   the handler accepts a message whose eligible subscribers are D: a job                 *)
(*   Take(j)      (Workers > 0 only) a free fan-out worker takes the oldest waiting job                  *)
(*   Pick(j)      the loop of sendMsgToClient moves on to a subscriber not served yet (any order)        *)
(*   Send(j)      Session.publish gets the copy into that subscriber's queue - needs room               *)
(*   Read(c)      the write loop of c hands the head of the queue to the client; never for c \in Stalled *)
(* Workers = 0 is the code: one goroutine per request - a job is carried from the moment it is accepted.  *)
(* Workers = k > 0 is a bounded pool serving a backlog (lead generation: must be refuted): k jobs that     *)
(* wait for a stalled subscriber occupy every worker and nothing else is fanned out any more.               *)
(*                                                                                                      *)
(* Contract (Independent): a message none of whose eligible subscribers is stalled reaches every one of   *)
(* them - under fairness of the broker's own steps and of the healthy clients only; nothing is assumed     *)
(* about the stalled ones.  (What the property says about a message that is ALSO owed to a stalled client    *)
(* is left open here: the code serves the subscribers of one message one after the other.)                   *)
EXTENDS Integers, Sequences, FiniteSets

CONSTANTS FClients,     \* client ids
          Stalled,      \* the clients that have stopped reading
          QCap,         \* capacity of an outbound queue
          MaxJobs,      \* bound on the number of published messages
          Targets,      \* the sets of eligible subscribers a message may have
          Workers       \* 0: a goroutine per message; k > 0: k workers and a backlog

VARIABLES jobs,    \* sequence of [to, left, at, st]: eligible subscribers, those not served yet, the one being served ("" none), "wait" | "run" | "done"
          qlen,    \* [FClients -> 0..QCap] length of the outbound queue
          had      \* [FClients -> SUBSET job index]: the copies that reached the client's queue

fvars == <<jobs, qlen, had>>

FInit == jobs = <<>> /\ qlen = [c \in FClients |-> 0] /\ had = [c \in FClients |-> {}]

Running == {j \in 1..Len(jobs) : jobs[j].st = "run"}
Waiting == {j \in 1..Len(jobs) : jobs[j].st = "wait"}

Publish(D) ==
    /\ Len(jobs) < MaxJobs /\ D # {}
    /\ jobs' = Append(jobs, [to |-> D, left |-> D, at |-> "", st |-> IF Workers = 0 THEN "run" ELSE "wait"])
    /\ UNCHANGED <<qlen, had>>
Take(j) ==
    /\ Workers > 0 /\ j \in Waiting /\ \A i \in Waiting : i >= j
    /\ Cardinality(Running) < Workers
    /\ jobs' = [jobs EXCEPT ![j].st = "run"]
    /\ UNCHANGED <<qlen, had>>
Pick(j) ==
    /\ j \in Running /\ jobs[j].at = ""
    /\ IF jobs[j].left = {} THEN jobs' = [jobs EXCEPT ![j].st = "done"]
       ELSE \E c \in jobs[j].left : jobs' = [jobs EXCEPT ![j].at = c]
    /\ UNCHANGED <<qlen, had>>
Send(j) ==
    /\ j \in Running /\ jobs[j].at # ""
    /\ LET c == jobs[j].at IN
         /\ qlen[c] < QCap                                      \* writePacket: blocks while the queue is full
         /\ qlen' = [qlen EXCEPT ![c] = @ + 1]
         /\ had' = [had EXCEPT ![c] = @ \cup {j}]
         /\ jobs' = [jobs EXCEPT ![j].at = "", ![j].left = @ \ {c}]
Read(c) ==
    /\ c \notin Stalled /\ qlen[c] > 0
    /\ qlen' = [qlen EXCEPT ![c] = @ - 1]
    /\ UNCHANGED <<jobs, had>>

Broker == \E j \in 1..Len(jobs) : Take(j) \/ Pick(j) \/ Send(j)
FNext == (\E D \in Targets : Publish(D)) \/ Broker \/ \E c \in FClients : Read(c)
FSpec == FInit /\ [][FNext]_fvars /\ (\A j \in 1..MaxJobs : WF_fvars(Take(j) \/ Pick(j) \/ Send(j))) /\ \A c \in FClients \ Stalled : WF_fvars(Read(c))

FTypeOK == /\ \A c \in FClients : qlen[c] \in 0..QCap
           /\ \A j \in 1..Len(jobs) : jobs[j].left \subseteq jobs[j].to /\ (jobs[j].at = "" \/ jobs[j].at \in jobs[j].left)
(* only to eligible subscribers, and once *)
OnlyEligible == \A c \in FClients : \A j \in had[c] : c \in jobs[j].to /\ c \notin jobs[j].left
(* the independence clause *)
Independent == \A j \in 1..MaxJobs : \A c \in FClients :
                   (j <= Len(jobs) /\ c \in jobs[j].to /\ jobs[j].to \cap Stalled = {}) ~> (j \in had[c])
T1 == {{"s"}, {"h"}}
=============================================================================

----------------------------- MODULE MqttSession -----------------------------
(* C16.  Sessions of one MQTT client id across reconnect and client-id takeover in easegress'     *)
(* MQTTProxy (broker.go: handleConn / setSession / deleteSession / watchDelete / removeClient,    *)
(* client.go: readLoop's deferred teardown / closeAndDelSession, session_manager.go, storage.go).  *)
(*                                                                                              *)
(* CONTRACT LAYER (variables k...): what the property says, per client id.                        *)
(*   kcur    the connection that currently owns the id ("none" if offline)                       *)
(*   kex, kclean, ksubs   the id's session: exists / cleanSession flag / subscribed filters        *)
(*   kst[c]  "idle" | "up" | "superseded" | "ended" | "kicked"                                   *)
(* Connect(c, clean): a connection that is up is superseded (takeover); the session is resumed    *)
(* iff ~clean, a session exists and that session is not a clean one; otherwise a fresh, empty      *)
(* one replaces it.  Drop(c): the network connection of c ends.  If c owns the id the id goes       *)
(* offline and a clean session is discarded; if c has been superseded NOTHING changes - whenever    *)
(* the broker gets round to tearing c down.  AdminDelete: the session is deleted and the owner is    *)
(* disconnected.  A message on a topic is delivered to kcur iff kcur # "none" and a filter of       *)
(* ksubs matches.  A subscription is a filter WITH ITS QoS (records [f, q], one per filter): a       *)
(* resumed session gives every filter back with the QoS it was subscribed with, and a QoS1 message    *)
(* is delivered on the filters subscribed with QoS1 (on a QoS0 filter it may or may not be, as in      *)
(* C15).  AdminDelete concerns the session of ONE client id: the owner of that id is disconnected,      *)
(* and no other client is (the trace specification looks at a second client whose id is what a          *)
(* path-like treatment of the store key would make of the deleted one - its last segment).              *)
(*                                                                                              *)
(* IMPLEMENTATION-SHAPED LAYER: one action per critical section of the code.                      *)
(*   ConnectLocked   handleConn's section under Broker.Lock: takeover branch (go old.close()),     *)
(*                   clients[cid] = c, setSession                                                    *)
(*   Resub           after CONNACK: session topics -> trie                                           *)
(*   Subscribe       processSubscribe (trie, session, store)                                          *)
(*   NetDrop         the read loop of c returns (socket closed / EOF / DISCONNECT / a packet read     *)
(*                   after c.done was closed)                                                          *)
(*   T1..T4          the deferred teardown: delLocal(cid); delDB(cid) if the connection's session is   *)
(*                   clean; unsubscribe(session topics, cid) + c.close(); removeClient(cid)              *)
(*   WatchDelete     a delete notification of the store reaches deleteSession(cid)                      *)
(*   AdminDelete     httpDeleteSessionHandler: store.delete                                              *)
(* With TeardownById = TRUE this is the pinned tree (everything keyed by client id); with FALSE     *)
(* the repaired code: the teardown's session part is one section under Broker.Lock that acts only    *)
(* if the connection is still the registered one (or none is), setSession removes the discarded     *)
(* session's filters from the trie, and the resumed session's filters are put back into the trie     *)
(* inside handleConn's locked section (fixes/mqtt-takeover-teardown.diff).                            *)
(* Session persistence (Session.store -> goroutine -> SessionManager.doStore -> store.put): with       *)
(* AsyncStore = FALSE it is immediate (the harness waits until the store holds what the session holds    *)
(* before it lets a connection end); with AsyncStore = TRUE every store request is queued (stq) and        *)
(* written by DoStore at any later time - a store that falls behind: the connection may end and be torn     *)
(* down while its requests wait.  (A client connects when the store has caught up.)                          *)
EXTENDS Integers, Sequences, FiniteSets, TLC

CONSTANTS Conns,          \* connection names in the order they may connect, e.g. <<"O", "N", "M">>
          FiltersS,       \* filters a connection may subscribe
          QoSS,           \* the QoS values a filter may be subscribed with
          ResubShuffles,  \* FALSE: the code - a resumed session's filters go back into the trie each with its own QoS; TRUE: the QoS
                          \* values are handed out in any order (lead generation: must be refuted)
          TeardownById,   \* see above
          MaxAdmin,       \* bound on admin deletes
          AsyncStore,     \* see above
          StoreFifo,      \* TRUE: queued store requests take effect in the order they were made (repaired code: requests are
                          \* numbered and doStore drops outdated ones); FALSE: the pinned tree - every request is handed over
                          \* by a goroutine of its own and any queued request may be written next (lead generation)
          SkipGone,       \* FALSE: the code - doStore writes every request; TRUE: doStore drops a request when no session of
                          \* the id is in the session map any more (lead generation: must be refuted - the request of an
                          \* acknowledged SUBSCRIBE that is still queued when the connection is torn down would be lost)
          StaleGuard      \* FALSE: the code - deleteSession acts on every delete notification; TRUE: a notification is ignored
                          \* when the store holds a session of the id again (lead generation: must be refuted - the
                          \* still connected client's own SUBSCRIBE re-stores the session before the notification arrives)

ConnSet == {Conns[i] : i \in 1..Len(Conns)}
Idx(c) == CHOOSE i \in 1..Len(Conns) : Conns[i] = c

VARIABLES kcur, kex, kclean, ksubs, kst, kdel,                         \* contract
          pc, cl, cur, closed, smap, sess, nsid, csess, db, trie, watchQ, closeReq, admins, stq,   \* implementation
          ev                                                              \* the step just taken

kvars == <<kcur, kex, kclean, ksubs, kst, kdel>>
ivars == <<pc, cl, cur, closed, smap, sess, nsid, csess, db, trie, watchQ, closeReq, admins, stq>>
svars == <<kvars, ivars, ev>>
sview == <<kvars, ivars>>

NoDb == [ex |-> FALSE, clean |-> FALSE, topics |-> {}]

(* sets of subscriptions [f, q] with at most one entry per filter *)
Fs(S)         == {x.f : x \in S}
Put(S, f, q)  == {x \in S : x.f # f} \cup {[f |-> f, q |-> q]}
Minus(S, T)   == {x \in S : x.f \notin Fs(T)}               \* unsubscribe the filters of T
Over(S, T)    == Minus(S, T) \cup T                          \* subscribe T (again)
(* what a re-subscription of T puts into the trie: T itself, or (ResubShuffles) T's filters with T's QoS values in any order *)
Resubs(T) == IF ~ResubShuffles THEN {T}
             ELSE {U \in SUBSET [f : Fs(T), q : QoSS] : Fs(U) = Fs(T) /\ Cardinality(U) = Cardinality(T)
                                                       /\ \A v \in QoSS : Cardinality({x \in U : x.q = v}) = Cardinality({x \in T : x.q = v})}

SInit ==
    /\ kcur = "none" /\ kex = FALSE /\ kclean = FALSE /\ ksubs = {} /\ kst = [c \in ConnSet |-> "idle"] /\ kdel = FALSE
    /\ pc = [c \in ConnSet |-> "idle"] /\ cl = [c \in ConnSet |-> FALSE] /\ cur = "none"
    /\ closed = [c \in ConnSet |-> FALSE] /\ smap = 0 /\ sess = <<>> /\ nsid = 1 /\ csess = [c \in ConnSet |-> 0]
    /\ db = NoDb /\ trie = {} /\ watchQ = 0 /\ closeReq = {} /\ admins = 0 /\ stq = <<>>
    /\ ev = [a |-> "init"]

(* ------------------------------- contract actions ------------------------------- *)
Resumable == kex /\ ~kclean
(* r: does the connection resume the stored session?  Determined by the flags, except after an     *)
(* admin delete, where the property only demands the disconnection: whether the deleted session     *)
(* can still be resumed by a cleanSession=false connect is left open.                                *)
KConnect(c, clean, r) ==
    /\ kst[c] = "idle"
    /\ IF kdel /\ ~clean /\ Resumable THEN r \in BOOLEAN ELSE r = (~clean /\ Resumable)
    /\ kst' = [x \in ConnSet |-> IF x = c THEN "up" ELSE IF x = kcur THEN "superseded" ELSE kst[x]]
    /\ kcur' = c /\ kex' = TRUE /\ kdel' = FALSE
    /\ kclean' = IF r THEN kclean ELSE clean
    /\ ksubs' = IF r THEN ksubs ELSE {}
KSubscribe(c, f, q) == kcur = c /\ ksubs' = Put(ksubs, f, q) /\ UNCHANGED <<kcur, kex, kclean, kst, kdel>>
KDrop(c) ==
    /\ kst[c] \in {"up", "superseded", "kicked"}
    /\ kst' = [kst EXCEPT ![c] = "ended"]
    /\ IF kcur = c
       THEN /\ kcur' = "none"
            /\ IF kclean THEN kex' = FALSE /\ ksubs' = {} ELSE UNCHANGED <<kex, ksubs>>
            /\ UNCHANGED <<kclean, kdel>>
       ELSE UNCHANGED <<kcur, kex, kclean, ksubs, kdel>>    \* a superseded connection's end changes nothing
KAdminDelete ==
    /\ kst' = [x \in ConnSet |-> IF x = kcur THEN "kicked" ELSE kst[x]]
    /\ kcur' = "none" /\ kdel' = TRUE /\ UNCHANGED <<kex, kclean, ksubs>>

(* ----------------------------- implementation actions ----------------------------- *)
Topics(sid) == IF sid = 0 THEN {} ELSE sess[sid].topics

(* Session.store: the encoded session (clean flag, topics) goes to the store - at once, or through the queue *)
Store(clean, topics) ==
    IF AsyncStore THEN stq' = Append(stq, [clean |-> clean, topics |-> topics]) /\ db' = db
    ELSE db' = [ex |-> TRUE, clean |-> clean, topics |-> topics] /\ stq' = stq
(* SessionManager.doStore takes the next request *)
DoStore ==
    \E i \in 1..Len(stq) :
        /\ StoreFifo => i = 1
        /\ stq' = SubSeq(stq, 1, i - 1) \o SubSeq(stq, i + 1, Len(stq))
        /\ db' = IF SkipGone /\ smap = 0 THEN db ELSE [ex |-> TRUE, clean |-> stq[i].clean, topics |-> stq[i].topics]
        /\ ev' = [a |-> "dostore"]
        /\ UNCHANGED <<kvars, pc, cl, cur, closed, smap, sess, nsid, csess, trie, watchQ, closeReq, admins>>

ConnectLocked(c, clean) ==
    /\ pc[c] = "idle"
    /\ \A i \in 1..(Idx(c) - 1) : pc[Conns[i]] # "idle"              \* connections appear in order
    /\ stq = <<>>      \* assumption: ... and when the store has caught up
    /\ watchQ = 0      \* assumption: a client connects when no delete notification of the store is in flight (a
                       \* notification that overtakes a *re*connect is outside the property; the ones a superseded
                       \* connection's teardown produces after this point are what the property is about)
    /\ cl' = [cl EXCEPT ![c] = clean]
    /\ closeReq' = IF cur # "none" THEN closeReq \cup {cur} ELSE closeReq   \* go oldClient.close()
    /\ cur' = c
    /\ LET local == smap # 0
           load  == ~local /\ db.ex                                   \* sessMgr.get: local map, else the store
           prev  == IF local THEN smap ELSE IF load THEN nsid ELSE 0
           s1    == IF load THEN sess @@ (nsid :> [clean |-> db.clean, topics |-> db.topics, done |-> FALSE]) ELSE sess
           n1    == IF load THEN nsid + 1 ELSE nsid
           reuse == ~clean /\ prev # 0 /\ ~s1[prev].clean
       IN /\ KConnect(c, clean, IF kdel /\ ~clean /\ Resumable THEN reuse ELSE ~clean /\ Resumable)
          /\ IF reuse
             THEN /\ csess' = [csess EXCEPT ![c] = prev] /\ smap' = prev /\ sess' = s1 /\ nsid' = n1
                  /\ Store(s1[prev].clean, s1[prev].topics)                                      \* updateEGName -> store
                  /\ \E tt \in Resubs(s1[prev].topics) :
                        trie' = IF TeardownById THEN trie ELSE Over(trie, tt)   \* repaired: re-subscription inside the section
             ELSE /\ sess' = (IF prev # 0 THEN [s1 EXCEPT ![prev].done = TRUE] ELSE s1)
                             @@ (n1 :> [clean |-> clean, topics |-> {}, done |-> FALSE])
                  /\ csess' = [csess EXCEPT ![c] = n1] /\ smap' = n1 /\ nsid' = n1 + 1
                  /\ Store(clean, {})                                                  \* updateEGName -> store
                  /\ trie' = IF TeardownById \/ prev = 0 THEN trie ELSE Minus(trie, s1[prev].topics)   \* repaired: discard = unsubscribe
    /\ pc' = [pc EXCEPT ![c] = IF TeardownById THEN "acked" ELSE "ready"]
    /\ ev' = [a |-> "connect", c |-> c, clean |-> clean]
    /\ UNCHANGED <<closed, watchQ, admins>>

CloseAsync(c) ==
    /\ c \in closeReq /\ closeReq' = closeReq \ {c} /\ closed' = [closed EXCEPT ![c] = TRUE]
    /\ ev' = [a |-> "closeasync", c |-> c]
    /\ UNCHANGED <<kvars, pc, cl, cur, smap, sess, nsid, csess, db, trie, watchQ, admins, stq>>

Resub(c) ==
    /\ pc[c] = "acked" /\ pc' = [pc EXCEPT ![c] = "ready"]
    /\ \E tt \in Resubs(Topics(csess[c])) : trie' = Over(trie, tt)
    /\ ev' = [a |-> "resub", c |-> c]
    /\ UNCHANGED <<kvars, cl, cur, closed, smap, sess, nsid, csess, db, watchQ, closeReq, admins, stq>>

(* only the owner of the id subscribes (the harness never sends on a superseded connection) *)
Subscribe(c, f, q) ==
    /\ pc[c] = "ready" /\ kcur = c
    /\ Len(stq) < 2                                    \* (bound of the model)
    /\ KSubscribe(c, f, q)
    /\ trie' = Put(trie, f, q)
    /\ sess' = [sess EXCEPT ![csess[c]].topics = Put(@, f, q)]
    /\ Store(sess[csess[c]].clean, Put(sess[csess[c]].topics, f, q))
    /\ ev' = [a |-> "sub", c |-> c, f |-> f, q |-> q]
    /\ UNCHANGED <<pc, cl, cur, closed, smap, nsid, csess, watchQ, closeReq, admins>>

(* the owner of a session that has just been deleted through the admin endpoint is still connected    *)
(* until the store's delete notification has been handled: a SUBSCRIBE it sends meanwhile is processed   *)
(* as usual - and Session.store writes the session into the store again                                   *)
KickedSubscribe(c, f, q) ==
    /\ pc[c] = "ready" /\ kst[c] = "kicked" /\ cur = c /\ ~closed[c]
    /\ Len(stq) < 2
    /\ ksubs' = Put(ksubs, f, q) /\ UNCHANGED <<kcur, kex, kclean, kst, kdel>>     \* (should the deleted session be resumed after all, it holds f)
    /\ trie' = Put(trie, f, q)
    /\ sess' = [sess EXCEPT ![csess[c]].topics = Put(@, f, q)]
    /\ Store(sess[csess[c]].clean, Put(sess[csess[c]].topics, f, q))
    /\ ev' = [a |-> "ksub", c |-> c, f |-> f, q |-> q]
    /\ UNCHANGED <<pc, cl, cur, closed, smap, nsid, csess, watchQ, closeReq, admins>>

NetDrop(c) ==
    /\ pc[c] = "ready"
    /\ KDrop(c)
    /\ pc' = [pc EXCEPT ![c] = "T1"]
    /\ ev' = [a |-> "drop", c |-> c]
    /\ UNCHANGED <<cl, cur, closed, smap, sess, nsid, csess, db, trie, watchQ, closeReq, admins, stq>>

(* ---- pinned tree: four separate steps, all keyed by the client id ---- *)
T1(c) == /\ TeardownById /\ pc[c] = "T1" /\ pc' = [pc EXCEPT ![c] = "T2"]
         /\ IF smap # 0 THEN sess' = [sess EXCEPT ![smap].done = TRUE] /\ smap' = 0 ELSE UNCHANGED <<sess, smap>>
         /\ ev' = [a |-> "t1", c |-> c]
         /\ UNCHANGED <<kvars, cl, cur, closed, nsid, csess, db, trie, watchQ, closeReq, admins, stq>>
T2(c) == /\ TeardownById /\ pc[c] = "T2" /\ pc' = [pc EXCEPT ![c] = "T3"]
         /\ IF sess[csess[c]].clean THEN db' = NoDb /\ watchQ' = watchQ + 1 ELSE UNCHANGED <<db, watchQ>>
         /\ ev' = [a |-> "t2", c |-> c]
         /\ UNCHANGED <<kvars, cl, cur, closed, smap, sess, nsid, csess, trie, closeReq, admins, stq>>
T3(c) == /\ TeardownById /\ pc[c] = "T3" /\ pc' = [pc EXCEPT ![c] = "T4"]
         /\ trie' = Minus(trie, Topics(csess[c])) /\ closed' = [closed EXCEPT ![c] = TRUE]
         /\ ev' = [a |-> "t3", c |-> c]
         /\ UNCHANGED <<kvars, cl, cur, smap, sess, nsid, csess, db, watchQ, closeReq, admins, stq>>
T4(c) == /\ pc[c] = "T4" /\ pc' = [pc EXCEPT ![c] = "gone"]
         /\ cur' = IF cur # "none" /\ closed[cur] THEN "none" ELSE cur
         /\ ev' = [a |-> "t4", c |-> c]
         /\ UNCHANGED <<kvars, cl, closed, smap, sess, nsid, csess, db, trie, watchQ, closeReq, admins, stq>>

(* ---- repaired code: the session part of the teardown is one section under Broker.Lock, and    *)
(* acts only if c is still the registered connection, or nobody is registered and the session in    *)
(* the session map is the one c uses                                                                *)
TFix(c) ==
    /\ ~TeardownById /\ pc[c] = "T1" /\ pc' = [pc EXCEPT ![c] = "T4"]
    /\ closed' = [closed EXCEPT ![c] = TRUE]
    /\ IF cur = c \/ (cur = "none" /\ smap = csess[c])      \* still registered, or nobody is and the live session is its own
       THEN /\ IF smap # 0 THEN sess' = [sess EXCEPT ![smap].done = TRUE] /\ smap' = 0 ELSE UNCHANGED <<sess, smap>>
            /\ IF sess[csess[c]].clean THEN db' = NoDb /\ watchQ' = watchQ + 1 ELSE UNCHANGED <<db, watchQ>>
            /\ trie' = Minus(trie, Topics(csess[c]))
       ELSE UNCHANGED <<sess, smap, db, watchQ, trie>>
    /\ ev' = [a |-> "tfix", c |-> c]
    /\ UNCHANGED <<kvars, cl, cur, nsid, csess, closeReq, admins, stq>>

(* deleteSession(cid): closes and unregisters whatever is registered *)
WatchDelete ==
    /\ watchQ > 0 /\ watchQ' = watchQ - 1
    /\ IF StaleGuard /\ db.ex
       THEN UNCHANGED <<closed, cur>>
       ELSE /\ closed' = IF cur # "none" THEN [closed EXCEPT ![cur] = TRUE] ELSE closed
            /\ cur' = "none"
    /\ ev' = [a |-> "watch"]
    /\ UNCHANGED <<kvars, pc, cl, smap, sess, nsid, csess, db, trie, closeReq, admins, stq>>

AdminDelete ==
    /\ admins < MaxAdmin /\ admins' = admins + 1
    /\ kex /\ ~kdel                                    \* there is a session to delete
    /\ KAdminDelete
    /\ db' = NoDb /\ watchQ' = watchQ + 1
    /\ ev' = [a |-> "admin"]
    /\ UNCHANGED <<pc, cl, cur, closed, smap, sess, nsid, csess, trie, closeReq, stq>>

SNext == \/ \E c \in ConnSet : \/ \E clean \in BOOLEAN : ConnectLocked(c, clean)
                               \/ CloseAsync(c) \/ Resub(c) \/ \E f \in FiltersS, q \in QoSS : Subscribe(c, f, q) \/ KickedSubscribe(c, f, q)
                               \/ NetDrop(c) \/ T1(c) \/ T2(c) \/ T3(c) \/ T4(c) \/ TFix(c)
         \/ WatchDelete \/ AdminDelete \/ DoStore
SSpec == SInit /\ [][SNext]_svars

(* ------------------------- the property's clauses ------------------------- *)
STypeOK == /\ kcur \in ConnSet \cup {"none"} /\ cur \in ConnSet \cup {"none"}
           /\ ksubs \subseteq [f : FiltersS, q : QoSS] /\ trie \subseteq [f : FiltersS, q : QoSS]
           /\ Cardinality(Fs(ksubs)) = Cardinality(ksubs) /\ Cardinality(Fs(trie)) = Cardinality(trie)
           /\ (kcur # "none" => kst[kcur] = "up")

(* contract theorems *)
ResumeOrDiscard ==
    [][\A c \in ConnSet : (ev'.a = "connect" /\ ev'.c = c) =>
          IF kdel THEN TRUE
          ELSE IF ~ev'.clean /\ kex /\ ~kclean THEN ksubs' = ksubs     \* resumed: previous subscriptions are back
          ELSE ksubs' = {}]_svars                                      \* clean or nothing to resume: discarded
SupersededEndChangesNothing ==
    [][\A c \in ConnSet : (ev'.a = "drop" /\ ev'.c = c /\ kcur # c) => <<kcur', kex', kclean', ksubs'>> = <<kcur, kex, kclean, ksubs>>]_svars
AdminDeleteDisconnects == [][ev'.a = "admin" => kcur' = "none" /\ (kcur # "none" => kst'[kcur] = "kicked")]_svars

(* conformance of the implementation-shaped layer *)
Busy(c) == pc[c] \in {"acked", "T1", "T2", "T3", "T4"}
Quiescent == (\A c \in ConnSet : ~Busy(c)) /\ watchQ = 0 /\ closeReq = {} /\ stq = <<>>

(* from its registration on, and whatever the older connections' teardowns do, the owner of the  *)
(* id stays registered, keeps the live session, and its subscriptions stay routed                   *)
SuccessorIntact ==
    (kcur # "none" /\ pc[kcur] \in {"acked", "ready"}) =>
        /\ cur = kcur /\ ~closed[kcur]                                           \* Registered
        /\ smap = csess[kcur] /\ ~sess[csess[kcur]].done                          \* SessionLive
        /\ (pc[kcur] = "ready" => Topics(csess[kcur]) \subseteq trie)              \* Routed (each filter with its QoS)
Registered  == (kcur # "none" /\ pc[kcur] \in {"acked", "ready"}) => (cur = kcur /\ ~closed[kcur])
SessionLive == (kcur # "none" /\ pc[kcur] \in {"acked", "ready"}) => (smap = csess[kcur] /\ ~sess[csess[kcur]].done)
Routed      == (kcur # "none" /\ pc[kcur] = "ready") => Topics(csess[kcur]) \subseteq trie
(* at rest the broker routes exactly the owner's subscriptions (resumed ones included, discarded ones excluded), *)
(* each with the QoS it was subscribed with                                                                      *)
Conforms ==
    (Quiescent /\ kcur # "none") => (trie = ksubs /\ Topics(csess[kcur]) = ksubs)
(* after an admin delete has been processed the kicked connection is not registered *)
Kicked == (Quiescent) => \A c \in ConnSet : kst[c] = "kicked" => (cur # c /\ closed[c])
Conns2 == <<"O", "N">>
Conns3 == <<"O", "N", "M">>
=============================================================================

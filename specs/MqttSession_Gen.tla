--------------------------- MODULE MqttSession_Gen ---------------------------
(* Schedule generator for C16: behaviours of the *contract* of MqttSession (connect / subscribe /  *)
(* network drop / admin delete for one client id), extended with the scheduling decisions the       *)
(* harness can take on the real broker:                                                              *)
(*   how a connection's read loop is made to notice its end: "eof" (socket half-closed), "disc"      *)
(*     (DISCONNECT packet), "poke" (a PINGREQ on a connection the broker has already superseded);    *)
(*   where its teardown is parked while the other connections go on: "will" - before the first       *)
(*     step (the will message's publish pipeline blocks), "del" - inside delDB, i.e. between          *)
(*     delLocal and unsubscribe (the harness' store blocks in delete; only a clean session deletes);  *)
(*     "disc" - after the session part of the teardown (session released, filters unsubscribed) and    *)
(*     before removeClient: Client.close() runs the Disconnect pipeline outside every lock and the      *)
(*     pipeline blocks (only the connection that owns the id: a superseded one was closed by the         *)
(*     takeover already);                                                                                *)
(*   when the store's delete notifications reach the broker ("watch");                                *)
(*   what happens between an admin delete and the delivery of its notification: nothing ("none"), or   *)
(*     the still connected owner sends a SUBSCRIBE and its session is stored again ("sub").              *)
(*   how fast the session store is: in Mode "slow" the store can fall behind - a put parks inside the     *)
(*     store (armed at a connect, whose first store request is the one that parks, or at a SUBSCRIBE),    *)
(*     at most one more store request (a SUBSCRIBE) queues up behind it, the connection ends and is torn    *)
(*     down meanwhile, and only then the store catches up ("flush"); the device reconnects afterwards.       *)
(*     (Requests queued behind a parked put are handed over by goroutines of their own and can overtake      *)
(*     each other: with one request queued the order is determined.  A connect while the store lags reads     *)
(*     a stale copy; that is outside the property's text and not generated.)                                   *)
(*   which client id the schedule is about (Mode "ids"): `shape` indexes the harness' table of client ids with characters that    *)
(*     are special to the store key / path handling ("plant/dev", "a/b/dev", "dev/", "/dev", "plant//dev", "../dev", ...); a        *)
(*     second client, whose id is the last path segment of that id, is connected all along and must not be affected by the           *)
(*     admin delete.                                                                                                                *)
(*   Mode "mixed": plain reconnect / takeover chains of cleanSession=false connections over six filters subscribed with QoS 0 and     *)
(*     1: sessions with several subscriptions of different QoS are resumed; after every step the harness probes every filter with a    *)
(*     QoS0 and a QoS1 message.                                                                                                       *)
(* `out` carries after every step what the contract says: the owner of the id and its               *)
(* subscriptions (and the connections an admin delete must have disconnected).                        *)
(* Before every connect the harness delivers all pending notifications (assumption of MqttSession).   *)
EXTENDS MqttSession, Json, SequencesExt

CONSTANTS MaxSteps,
          Mode        \* "burst": plain reconnect chains in which a connection also sends two SUBSCRIBE packets back to back (one
                      \* write: the broker's read loop handles the second before anything else runs) - what a device does
                      \* that re-subscribes its topics after a reconnect;
                      \* "slow": plain reconnect chains (no takeover, no gates, no admin delete) with a store that falls behind;
                      \* "all": everything; "resume": plain reconnect chains of cleanSession=false connections (no takeover,
                      \* no gates, no admin delete) - what a device that keeps its session does; "gap": the same chains, but
                      \* the device comes back while its previous connection's teardown is still parked in the Disconnect pipeline
VARIABLES out, parked, will, gclean, k, wleft,
          slow,       \* "off" | "parked0" (a put is parked inside the store) | "parked1" (... and one store request waits behind it)
          shape       \* which client id (index into the harness' table; 0 = "dev")

gvars == <<svars, out, parked, will, gclean, k, wleft, slow, shape>>
IdShapes == 1..9

(* subs: the filters; sq: the subscriptions (filter with QoS); q1: the filters subscribed with QoS1 *)
Emit(rec) == out' = ToJson([op |-> rec, exp |-> [cur |-> kcur', subs |-> SetToSeq(Fs(ksubs')), sq |-> SetToSeq(ksubs'),
                                                q1 |-> SetToSeq({x.f : x \in {y \in ksubs' : y.q = 1}}),
                                                kicked |-> SetToSeq({c \in ConnSet : kst'[c] = "kicked"})]])

GInit == /\ SInit /\ parked = [c \in ConnSet |-> "none"]
         /\ shape \in (IF Mode = "ids" THEN IdShapes ELSE {0})
         /\ out = ToJson([op |-> [a |-> "init", shape |-> shape]])
         /\ will = [c \in ConnSet |-> FALSE] /\ gclean = [c \in ConnSet |-> FALSE] /\ k = 0 /\ wleft = 2 /\ slow = "off"

Frozen == UNCHANGED <<ivars, ev>>

GConnect == \E c \in ConnSet, clean \in BOOLEAN, w \in BOOLEAN, sl \in BOOLEAN :
    /\ \A i \in 1..(Idx(c) - 1) : kst[Conns[i]] # "idle"
    /\ kdel => clean                                     \* after an admin delete only the clean case is determined
    /\ Mode \in {"resume", "gap", "burst"} => (~clean /\ ~w /\ kcur = "none")
    /\ Mode = "mixed" => (~clean /\ ~w)                  \* (reconnect after the end of the previous connection, or takeover)
    /\ Mode = "ids" => ~w
    /\ Mode = "slow" => (~w /\ kcur = "none")
    /\ slow = "off" /\ (sl => Mode = "slow")              \* the store has caught up when a client connects
    /\ KConnect(c, clean, ~clean /\ Resumable)
    /\ will' = [will EXCEPT ![c] = w] /\ gclean' = [gclean EXCEPT ![c] = clean]
    /\ slow' = IF sl THEN "parked0" ELSE "off"
    /\ Emit([a |-> "connect", c |-> c, clean |-> clean, will |-> w, slow |-> sl])
    /\ UNCHANGED <<parked, wleft, shape>>

GSub == \E c \in ConnSet, f \in FiltersS, q \in QoSS, sl \in BOOLEAN :
    /\ slow # "parked1"
    /\ sl => (Mode = "slow" /\ slow = "off")
    /\ slow' = IF sl THEN "parked0" ELSE IF slow = "parked0" THEN "parked1" ELSE slow
    /\ KSubscribe(c, f, q) /\ Emit([a |-> "sub", c |-> c, f |-> f, q |-> q, slow |-> sl]) /\ UNCHANGED <<parked, will, gclean, wleft, shape>>

(* two SUBSCRIBE packets, one filter each, written back to back *)
GSub2 == \E c \in ConnSet, f \in FiltersS, g \in FiltersS, q \in QoSS :
    /\ Mode = "burst" /\ f # g /\ slow = "off" /\ kcur = c
    /\ ksubs' = Put(Put(ksubs, f, q), g, q) /\ UNCHANGED <<kcur, kex, kclean, kst, kdel>>
    /\ Emit([a |-> "sub2", c |-> c, f |-> f, g |-> g, q |-> q]) /\ UNCHANGED <<parked, will, gclean, wleft, slow, shape>>

(* the store catches up: the parked put returns and what queued up behind it is written *)
GFlush == /\ slow # "off" /\ slow' = "off"
          /\ UNCHANGED <<kvars, parked, will, gclean, wleft, shape>> /\ Emit([a |-> "flush"])

GDrop == \E c \in ConnSet, mode \in {"eof", "disc", "poke"}, gate \in {"none", "will", "del", "disc"} :
    /\ parked[c] = "none"
    /\ mode = "poke" => kst[c] = "superseded"
    /\ gate = "will" => (will[c] /\ mode # "disc")
    /\ gate = "del" => gclean[c]
    /\ gate = "disc" => kst[c] = "up"
    /\ gate # "none" => \A x \in ConnSet : parked[x] = "none"        \* one parked teardown at a time
    /\ Mode \in {"resume", "slow", "burst", "ids"} => (gate = "none" /\ mode # "poke")
    /\ Mode = "mixed" => gate = "none"
    /\ slow # "off" => gate = "none"
    /\ Mode = "gap" => (gate \in {"none", "disc"} /\ mode # "poke")
    /\ KDrop(c)
    /\ parked' = [parked EXCEPT ![c] = gate]
    /\ Emit([a |-> "drop", c |-> c, mode |-> mode, gate |-> gate])
    /\ UNCHANGED <<will, gclean, wleft, slow, shape>>

GResume == \E c \in ConnSet :
    /\ parked[c] # "none" /\ parked' = [parked EXCEPT ![c] = "none"]
    /\ UNCHANGED <<kvars, will, gclean, wleft, slow, shape>> /\ Emit([a |-> "resume", c |-> c])

GWatch == /\ wleft > 0 /\ wleft' = wleft - 1 /\ slow = "off" /\ UNCHANGED slow
          /\ \A c \in ConnSet : parked[c] # "del"      \* (a teardown parked inside delete has not produced its notification yet)
          /\ UNCHANGED <<kvars, parked, will, gclean, shape>> /\ Emit([a |-> "watch"])

GAdmin == /\ Mode \in {"all", "ids"} /\ UNCHANGED <<slow, shape>> /\ kcur # "none" /\ kex /\ ~kdel /\ \A c \in ConnSet : parked[c] = "none"
          /\ KAdminDelete
          /\ \E race \in {"none", "sub"}, f \in FiltersS, q \in QoSS : Emit([a |-> "admin", race |-> race, c |-> kcur, f |-> f, q |-> q])
          /\ UNCHANGED <<parked, will, gclean, wleft>>

GNext == /\ k < MaxSteps /\ k' = k + 1 /\ Frozen
         /\ (GConnect \/ GSub \/ GSub2 \/ GDrop \/ GResume \/ GWatch \/ GAdmin \/ GFlush)
GSpec == GInit /\ [][GNext]_gvars
=============================================================================

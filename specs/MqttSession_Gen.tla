--------------------------- MODULE MqttSession_Gen ---------------------------
(* Schedule generator for C16: behaviours of the *contract* of MqttSession (connect / subscribe /  *)
(* network drop / admin delete for one client id), extended with the scheduling decisions the       *)
(* harness can take on the real broker:                                                              *)
(*   how a connection's read loop is made to notice its end: "eof" (socket half-closed), "disc"      *)
(*     (DISCONNECT packet), "poke" (a PINGREQ on a connection the broker has already superseded);    *)
(*   where its teardown is parked while the other connections go on: "will" - before the first       *)
(*     step (the will message's publish pipeline blocks), "del" - inside delDB, i.e. between          *)
(*     delLocal and unsubscribe (the harness' store blocks in delete; only a clean session deletes);  *)
(*     "disc" - after the session part of the teardown (session released, filters unsubscribed) and    *)
(*     before removeClient: Client.close() runs the Disconnect pipeline outside every lock and the      *)
(*     pipeline blocks (only the connection that owns the id: a superseded one was closed by the         *)
(*     takeover already);                                                                                *)
(*   when the store's delete notifications reach the broker ("watch");                                *)
(*   what happens between an admin delete and the delivery of its notification: nothing ("none"), or   *)
(*     the still connected owner sends a SUBSCRIBE and its session is stored again ("sub").              *)
(* `out` carries after every step what the contract says: the owner of the id and its               *)
(* subscriptions (and the connections an admin delete must have disconnected).                        *)
(* Before every connect the harness delivers all pending notifications (assumption of MqttSession).   *)
EXTENDS MqttSession, Json, SequencesExt

CONSTANTS MaxSteps,
          Mode        \* "all": everything; "resume": plain reconnect chains of cleanSession=false connections (no takeover,
                      \* no gates, no admin delete) - what a device that keeps its session does; "gap": the same chains, but
                      \* the device comes back while its previous connection's teardown is still parked in the Disconnect pipeline
VARIABLES out, parked, will, gclean, k, wleft

gvars == <<svars, out, parked, will, gclean, k, wleft>>

Exp == [cur |-> kcur, subs |-> SetToSeq(ksubs), kicked |-> SetToSeq({c \in ConnSet : kst[c] = "kicked"})]
Emit(rec) == out' = ToJson([op |-> rec, exp |-> [cur |-> kcur', subs |-> SetToSeq(ksubs'),
                                                kicked |-> SetToSeq({c \in ConnSet : kst'[c] = "kicked"})]])

GInit == /\ SInit /\ out = ToJson([op |-> [a |-> "init"]]) /\ parked = [c \in ConnSet |-> "none"]
         /\ will = [c \in ConnSet |-> FALSE] /\ gclean = [c \in ConnSet |-> FALSE] /\ k = 0 /\ wleft = 2

Frozen == UNCHANGED <<ivars, ev>>

GConnect == \E c \in ConnSet, clean \in BOOLEAN, w \in BOOLEAN :
    /\ \A i \in 1..(Idx(c) - 1) : kst[Conns[i]] # "idle"
    /\ kdel => clean                                     \* after an admin delete only the clean case is determined
    /\ Mode \in {"resume", "gap"} => (~clean /\ ~w /\ kcur = "none")
    /\ KConnect(c, clean, ~clean /\ Resumable)
    /\ will' = [will EXCEPT ![c] = w] /\ gclean' = [gclean EXCEPT ![c] = clean]
    /\ Emit([a |-> "connect", c |-> c, clean |-> clean, will |-> w])
    /\ UNCHANGED <<parked, wleft>>

GSub == \E c \in ConnSet, f \in FiltersS :
    /\ KSubscribe(c, f) /\ Emit([a |-> "sub", c |-> c, f |-> f]) /\ UNCHANGED <<parked, will, gclean, wleft>>

GDrop == \E c \in ConnSet, mode \in {"eof", "disc", "poke"}, gate \in {"none", "will", "del", "disc"} :
    /\ parked[c] = "none"
    /\ mode = "poke" => kst[c] = "superseded"
    /\ gate = "will" => (will[c] /\ mode # "disc")
    /\ gate = "del" => gclean[c]
    /\ gate = "disc" => kst[c] = "up"
    /\ gate # "none" => \A x \in ConnSet : parked[x] = "none"        \* one parked teardown at a time
    /\ Mode = "resume" => (gate = "none" /\ mode # "poke")
    /\ Mode = "gap" => (gate \in {"none", "disc"} /\ mode # "poke")
    /\ KDrop(c)
    /\ parked' = [parked EXCEPT ![c] = gate]
    /\ Emit([a |-> "drop", c |-> c, mode |-> mode, gate |-> gate])
    /\ UNCHANGED <<will, gclean, wleft>>

GResume == \E c \in ConnSet :
    /\ parked[c] # "none" /\ parked' = [parked EXCEPT ![c] = "none"]
    /\ UNCHANGED <<kvars, will, gclean, wleft>> /\ Emit([a |-> "resume", c |-> c])

GWatch == /\ wleft > 0 /\ wleft' = wleft - 1
          /\ \A c \in ConnSet : parked[c] # "del"      \* (a teardown parked inside delete has not produced its notification yet)
          /\ UNCHANGED <<kvars, parked, will, gclean>> /\ Emit([a |-> "watch"])

GAdmin == /\ Mode = "all" /\ kcur # "none" /\ kex /\ ~kdel /\ \A c \in ConnSet : parked[c] = "none"
          /\ KAdminDelete
          /\ \E race \in {"none", "sub"}, f \in FiltersS : Emit([a |-> "admin", race |-> race, c |-> kcur, f |-> f])
          /\ UNCHANGED <<parked, will, gclean, wleft>>

GNext == /\ k < MaxSteps /\ k' = k + 1 /\ Frozen
         /\ (GConnect \/ GSub \/ GDrop \/ GResume \/ GWatch \/ GAdmin)
GSpec == GInit /\ [][GNext]_gvars
=============================================================================

-------------------------- MODULE MqttSession_Trace --------------------------
(* Trace validation for C16.  The harness executes schedules on a real Broker (loopback TCP, raw    *)
(* MQTT connections O, N, M of one client id) and logs the operations and, at every point where      *)
(* nothing it started is still running, an observation of the id's owner:                            *)
(*   connect {c,clean} / sub {c,f,q} / drop {c} / admin                                              *)
(*   obs {cur, reg, live, got, bad}     cur: the connection the harness holds to be the owner;       *)
(*       reg: the connection registered in Broker.clients ("none", "?" if unknown), live: the         *)
(*       session map holds an open session and it is the registered connection's; got: the filters    *)
(*       on whose topic a message published over HTTP with QoS0 was received by cur, got1: the same     *)
(*       with QoS1 (a filter subscribed with QoS1 delivers it; one subscribed with QoS0 may); stopics:    *)
(*       the filters the                                                                                  *)
(*       owner's session object holds; bad: the harness' own                                            *)
(*       list of discrepancies                                                                          *)
(*   kick {c, reg, eof}                 after an admin delete was processed: is c still registered,    *)
(*       and did the broker close c's connection when c next sent a packet; byok: the second client      *)
(*       (another client id: the last path segment of the deleted one) is still registered and answers    *)
(* An observation without discrepancies must be exactly what the contract of MqttSession says; an     *)
(* observation with discrepancies is accepted only if the contract indeed says otherwise (it is then   *)
(* a violation certified by the specification, reported by the driver).                                 *)
EXTENDS MqttSession, Json, TLC, IOUtils

TLog == ndJsonDeserialize(IOEnv.VERIF_TRACE)
VARIABLE l
tvars == <<svars, l>>
IsEvent(e) == l <= Len(TLog) /\ TLog[l].ev = e /\ l' = l + 1
E == TLog[l]
Frozen == UNCHANGED <<ivars, ev>>

TReset == /\ IsEvent("reset") /\ Frozen
          /\ kcur' = "none" /\ kex' = FALSE /\ kclean' = FALSE /\ ksubs' = {} /\ kst' = [c \in ConnSet |-> "idle"] /\ kdel' = FALSE
TConnect == IsEvent("connect") /\ Frozen /\ \E r \in BOOLEAN : KConnect(E.c, E.clean, r)
TSub     == IsEvent("sub") /\ Frozen /\ KSubscribe(E.c, E.f, E.q)
TDrop    == IsEvent("drop") /\ Frozen /\ KDrop(E.c)
TAdmin   == IsEvent("admin") /\ Frozen /\ KAdminDelete

ToSet(s) == {s[i] : i \in 1..Len(s)}
Q1 == {x.f : x \in {y \in ksubs : y.q = 1}}
ObsOK == /\ E.cur = kcur
         /\ kcur # "none" => /\ E.reg = kcur /\ E.live /\ ToSet(E.got) = Fs(ksubs) /\ ToSet(E.stopics) = Fs(ksubs)
                              /\ Q1 \subseteq ToSet(E.got1) /\ ToSet(E.got1) \subseteq Fs(ksubs)
TObs == /\ IsEvent("obs") /\ UNCHANGED svars
        /\ E.cur = kcur
        /\ (Len(E.bad) = 0) <=> ObsOK
KickOK == kst[E.c] = "kicked" => (~E.reg /\ E.eof /\ E.byok)       \* that client is disconnected, and no other
TKick == /\ IsEvent("kick") /\ UNCHANGED svars
         /\ kst[E.c] = "kicked"
         /\ (Len(E.bad) = 0) <=> KickOK

TNext == TReset \/ TConnect \/ TSub \/ TDrop \/ TAdmin \/ TObs \/ TKick
TSpec == l = 1 /\ SInit /\ [][TNext]_tvars

ASSUME TLCSet(1, 0)
HWM == TLCSet(1, IF l - 1 > TLCGet(1) THEN l - 1 ELSE TLCGet(1))
Accepted == /\ PrintT(<<"VERIF_HWM", TLCGet(1), Len(TLog)>>)
            /\ TLCGet(1) = Len(TLog)
=============================================================================

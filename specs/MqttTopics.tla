----------------------------- MODULE MqttTopics -----------------------------
(* C14.  Contract of MQTT topic routing in easegress' MQTTProxy                                 *)
(* (pkg/object/mqttproxy/topic.go + the subscribe/unsubscribe/teardown glue of client.go and    *)
(* session.go).                                                                                  *)
(*                                                                                              *)
(* A topic name or topic filter is a sequence of levels, a level is a sequence of one-character *)
(* strings (TLC strings are atomic; wildcard *placement* is a property of characters).           *)
(*   "a/+/b" = << <<"a">>, <<"+">>, <<"b">> >>      "a/" = << <<"a">>, <<>> >>      "" = << <<>> >> *)
(*                                                                                              *)
(* This module is the contract layer only: the state is the set of live subscriptions the       *)
(* property talks about, and routing is *defined* by MQTT 3.1.1 filter matching.  The trie that  *)
(* the code keeps is in MqttTopicsImpl, which TLC checks to refine this module.                  *)
EXTENDS Integers, Sequences, FiniteSets

CONSTANTS Clients,     \* client ids
          Filters,     \* universe of filter values offered to subscribe (well- and malformed)
          Pairs,       \* universe of two-filter SUBSCRIBE / UNSUBSCRIBE packets (sequences of length 2)
          Topics,      \* probe topic names
          MaxOps,      \* bound on the history length (model checking only)
          Persistent   \* the clients that connect with cleanSession=false: their connection can drop and be
                       \* re-established with the session (and so every subscription, with its QoS) resumed

QoS == {0, 1}

(* ------------------------------ MQTT 3.1.1, section 4.7 ------------------------------ *)
HasCh(l, ch) == \E i \in 1..Len(l) : l[i] = ch

(* '#' must be a whole level and the last one, '+' must be a whole level *)
ValidFilter(f) ==
    /\ Len(f) >= 1
    /\ \A i \in 1..Len(f) :
          /\ HasCh(f[i], "#") => (f[i] = <<"#">> /\ i = Len(f))
          /\ HasCh(f[i], "+") => f[i] = <<"+">>

(* f is a valid filter, t a topic name (no wildcards) *)
RECURSIVE Matches(_, _)
Matches(f, t) ==
    IF f = <<>> THEN t = <<>>
    ELSE IF Head(f) = <<"#">> THEN TRUE                 \* the rest, including nothing: "a/#" matches "a"
    ELSE IF t = <<>> THEN FALSE
    ELSE /\ (Head(f) = <<"+">> \/ Head(f) = Head(t))    \* '+' : exactly one level (possibly empty)
         /\ Matches(Tail(f), Tail(t))

(* ------------------------------------- state ------------------------------------- *)
VARIABLES subs,    \* live subscriptions: set of [c, f, q], at most one q per (c, f)
          n,       \* number of operations so far
          last     \* the step just taken (observation; not in the VIEW)

vars == <<subs, n, last>>
view == <<subs, n>>

FilterSeqs == {<<f>> : f \in Filters} \cup Pairs

Put(S, c, f, q) == {s \in S : ~(s.c = c /\ s.f = f)} \cup {[c |-> c, f |-> f, q |-> q]}

(* apply the filters of one SUBSCRIBE in order (a later duplicate overrides), those in `keep` only *)
RECURSIVE PutFrom(_, _, _, _, _, _)
PutFrom(S, c, fs, qs, keep, i) ==
    IF i > Len(fs) THEN S
    ELSE PutFrom(IF i \in keep THEN Put(S, c, fs[i], qs[i]) ELSE S, c, fs, qs, keep, i + 1)

ValidIdx(fs) == {i \in 1..Len(fs) : ValidFilter(fs[i])}

(* what a message on topic t is routed to: client |-> set of QoS values it may be given *)
Route(t) ==
    LET m(c) == {s \in subs : s.c = c /\ Matches(s.f, t)} IN
    [c \in {c \in Clients : m(c) # {}} |-> {s.q : s \in m(c)}]

Init == subs = {} /\ n = 0 /\ last = [a |-> "init"]

(* SUBSCRIBE by c.  All filters well-formed: every one becomes (or stays) a live subscription    *)
(* with the requested QoS.  Otherwise the call is rejected (ok = FALSE); the property only says  *)
(* that malformed filters are rejected, so which of the call's *well-formed* filters took effect  *)
(* is left open: any subset `keep` of them.                                                       *)
Subscribe(c, fs, qs, keep) ==
    /\ LET ok == ValidIdx(fs) = 1..Len(fs) IN
       /\ keep \subseteq ValidIdx(fs)
       /\ ok => keep = 1..Len(fs)
       /\ subs' = PutFrom(subs, c, fs, qs, keep, 1)
       /\ last' = [a |-> "sub", c |-> c, fs |-> fs, qs |-> qs, ok |-> ok]
    /\ n' = n + 1

(* UNSUBSCRIBE by c; filters never subscribed are no-ops.  All filters well-formed: none of them is   *)
(* live afterwards.  Otherwise the packet contains a malformed filter (ok = FALSE): the property only  *)
(* says that malformed filters are rejected, so which of the packet's *well-formed* filters were        *)
(* removed is left open - any subset `rem` of them - but whatever was decided is what every later         *)
(* lookup, on every topic, must show.                                                                      *)
Unsubscribe(c, fs, rem) ==
    /\ LET ok == ValidIdx(fs) = 1..Len(fs) IN
       /\ rem \subseteq ValidIdx(fs)
       /\ ok => rem = 1..Len(fs)
       /\ subs' = {s \in subs : ~(s.c = c /\ \E i \in rem : fs[i] = s.f)}
       /\ last' = [a |-> "unsub", c |-> c, fs |-> fs, ok |-> ok]
    /\ n' = n + 1

(* the client's session ends (a clean session with its connection; a persistent one when it is        *)
(* discarded): none of its subscriptions stays live                                                    *)
Disconnect(c) ==
    /\ subs' = {s \in subs : s.c # c}
    /\ last' = [a |-> "disc", c |-> c]
    /\ n' = n + 1

(* client-id takeover: a new connection with cleanSession=true takes c's id over and the old        *)
(* connection ends - the old session is discarded, the new one has no subscriptions                  *)
Takeover(c) ==
    /\ subs' = {s \in subs : s.c # c}
    /\ last' = [a |-> "takeover", c |-> c]
    /\ n' = n + 1

(* the network connection of a client with a persistent session (cleanSession=false) ends and the     *)
(* client connects again with cleanSession=false: the session is resumed - every subscription is live   *)
(* again as it was, filter by filter with the QoS it was made with.  (What is routed while the client    *)
(* is away is not looked at: the step is the whole drop + reconnect.)                                    *)
Resume(c) ==
    /\ c \in Persistent
    /\ UNCHANGED subs
    /\ last' = [a |-> "resume", c |-> c]
    /\ n' = n + 1

Next ==
    /\ n < MaxOps
    /\ \E c \in Clients :
       \/ \E fs \in FilterSeqs : \E qs \in [1..Len(fs) -> QoS] : \E keep \in SUBSET (1..Len(fs)) :
              Subscribe(c, fs, qs, keep)
       \/ \E fs \in FilterSeqs : \E rem \in SUBSET (1..Len(fs)) : Unsubscribe(c, fs, rem)
       \/ Disconnect(c)
       \/ Takeover(c)
       \/ Resume(c)

Spec == Init /\ [][Next]_vars


(* ------------------------- the property's clauses, as theorems ------------------------- *)
TypeOK == /\ \A s \in subs : s.c \in Clients /\ s.q \in QoS /\ ValidFilter(s.f)     \* malformed filters never live
          /\ \A s1, s2 \in subs : (s1.c = s2.c /\ s1.f = s2.f) => s1 = s2

(* exactly the holders of a matching live subscription, with one of their own QoS values *)
RouteExact ==
    \A t \in Topics :
        /\ DOMAIN Route(t) = {c \in Clients : \E s \in subs : s.c = c /\ Matches(s.f, t)}
        /\ \A c \in DOMAIN Route(t) : Route(t)[c] # {} /\ \A q \in Route(t)[c] : \E s \in subs : s.c = c /\ s.q = q /\ Matches(s.f, t)

(* removing the last subscriber leaves no residue *)
NoResidue == subs = {} => \A t \in Topics : DOMAIN Route(t) = {}

(* a step of client c never changes what other clients are routed *)
Others == [][\A c \in Clients : last'.c # c =>
                 {s \in subs' : s.c = c} = {s \in subs : s.c = c}]_vars

(* a resumed session has every subscription it had, each with its own QoS *)
ResumeKeeps == [][last'.a = "resume" => subs' = subs]_vars

(* ---------------------------- the curated universe of DESIGN 5/C14 ---------------------------- *)
LA == <<"a">>   LB == <<"b">>   LC == <<"c">>   LE == <<>>   LP == <<"+">>   LH == <<"#">>

GoodFilters == { <<LH>>, <<LP>>, <<LA>>, <<LA, LH>>, <<LA, LP>>, <<LP, LP>>, <<LP, LH>>, <<LA, LB>>,
                 <<LA, LE, LB>>, <<LE, LE>>, <<LE, LH>>, <<LA, LP, LB>> }
BadFilters  == { << <<"a", "+">> >>,             \* "a+"
                 <<LA, LH, LB>>,                 \* "a/#/b"
                 << <<"#", "a">> >>,             \* "#a"
                 <<LA, <<"b", "#">> >> }         \* "a/b#"
CuratedFilters == GoodFilters \cup BadFilters
CuratedPairs == { << <<LA, LH>>, <<LA, LB>> >>,  << <<LP>>, <<LA>> >>,  << <<LA, LB>>, <<LA, LB>> >>,
                  << <<LA>>, << <<"a", "+">> >> >>,          \* well-formed first, then malformed
                  << <<LA, LH, LB>>, <<LP, LP>> >> }         \* malformed first
SmallPairs == { << <<LA>>, << <<"a", "+">> >> >>,  << << <<"a", "+">> >>, <<LA, LB>> >> }     \* malformed last / first
SmallFilters == { <<LA>>, <<LA, LB>>, <<LA, LH>>, <<LP>>, <<LA, LP>>, <<LH>>, << <<"a", "+">> >> }
CuratedTopics == { <<LA>>, <<LA, LE>>, <<LA, LB>>, <<LA, LB, LC>>, <<LB>>, <<LE, LE>>, <<LE, LE, LE>>,
                   <<LA, LE, LB>>, <<LE, LA>>, <<LB, LA>> }
(* the zero-length string "" (a single empty level) is neither a topic name nor a filter in MQTT      *)
(* (MQTT-4.7.3-1) and is outside the universes                                                        *)
=============================================================================

--------------------------- MODULE MqttTopicsImpl ---------------------------
(* C14, implementation-shaped layer: the trie of TopicManager (topic.go) next to the contract    *)
(* state of MqttTopics, driven by the same operations.  TLC checks that what findSubscribers     *)
(* computes on the trie is what the contract's Route defines, for every history, and that        *)
(* pruning keeps the trie empty exactly when there are no subscriptions.                          *)
(*                                                                                              *)
(*   nodes  set of paths (sequences of levels) of the existing nodes below the root             *)
(*   ents   client entries: [p |-> path of the node, c |-> client, q |-> qos]                   *)
(*                                                                                              *)
(* One action per locked section of TopicManager (subscribe / unsubscribe hold mgr.Lock for the  *)
(* whole packet).  session.go's bookkeeping (`sess`: the filters teardown will unsubscribe, and   *)
(* the filter -> QoS table a resumed session is re-subscribed from) is modelled too, because      *)
(* Disconnect removes exactly what the session remembers and Resume puts back exactly that.        *)
EXTENDS MqttTopics

CONSTANT PartialInsert,  \* TRUE: the pinned tree (subscribe stops at the first malformed filter, earlier
                         \* ones stay in the trie); FALSE: all filters are validated before any is inserted
         PartialRemove,  \* TRUE: the pinned tree (TopicManager.unsubscribe stops at the first malformed filter: the filters
                         \* behind it stay in the trie, while Session.unsubscribe forgets every filter of the packet);
                         \* FALSE: every well-formed filter of the packet leaves the trie
         ResumePairwise  \* TRUE: a resumed session's filters are subscribed again each with its own QoS (the code);
                         \* FALSE: the QoS values are handed out in some other order (lead generation: must be refuted)

VARIABLES nodes, ents, sess     \* sess: [Clients -> set of [f, q]], one q per f  (Session.info.Topics: filter -> QoS)

ivars == <<vars, nodes, ents, sess>>
iview == <<subs, n, nodes, ents, sess>>

Prefixes(f) == {SubSeq(f, 1, k) : k \in 1..Len(f)}
Front(p) == SubSeq(p, 1, Len(p) - 1)
Children(N, p) == {x \in N : Len(x) = Len(p) + 1 /\ SubSeq(x, 1, Len(p)) = p}

(* splitTopic: the code's validity test, character by character over the whole string:           *)
(* a level longer than one character must not contain a wildcard; '#' must be the very last      *)
(* character of the filter.                                                                       *)
ImplValid(f) ==
    /\ \A i \in 1..Len(f) : Len(f[i]) > 1 => ~(HasCh(f[i], "+") \/ HasCh(f[i], "#"))
    /\ \A i \in 1..Len(f) : \A k \in 1..Len(f[i]) : f[i][k] = "#" => (i = Len(f) /\ k = Len(f[i]))

(* insert *)
Ins(N, E, c, f, q) ==
    [nodes |-> N \cup Prefixes(f),
     ents  |-> {e \in E : ~(e.p = f /\ e.c = c)} \cup {[p |-> f, c |-> c, q |-> q]}]

(* remove: no-op when the path does not exist; otherwise delete the entry and prune upwards      *)
RECURSIVE Prune(_, _, _)
Prune(N, E, p) ==
    IF p = <<>> THEN N
    ELSE IF {e \in E : e.p = p} = {} /\ Children(N, p) = {} THEN Prune(N \ {p}, E, Front(p))
    ELSE N
Rem(N, E, c, f) ==
    IF f \notin N THEN [nodes |-> N, ents |-> E]
    ELSE LET E1 == {e \in E : ~(e.p = f /\ e.c = c)} IN [nodes |-> Prune(N, E1, f), ents |-> E1]

RECURSIVE InsFrom(_, _, _, _, _, _)
InsFrom(T, c, fs, qs, upto, i) ==
    IF i > upto THEN T ELSE InsFrom(Ins(T.nodes, T.ents, c, fs[i], qs[i]), c, fs, qs, upto, i + 1)
RECURSIVE RemAll(_, _, _)
RemAll(T, c, F) ==
    IF F = {} THEN T ELSE LET f == CHOOSE x \in F : TRUE IN RemAll(Rem(T.nodes, T.ents, c, f), c, F \ {f})

(* findSubscribers: level-by-level frontier.  The answer map is filled by overwriting, so a      *)
(* client with several matching entries ends up with one of their QoS values (map order).         *)
Cl(E, P) == {<<e.c, e.q>> : e \in {x \in E : x.p \in P}}
RECURSIVE Walk(_, _, _, _, _)
Walk(N, E, front, rest, acc) ==
    LET kids(l) == {Append(p, l) : p \in front} \cap N IN
    IF rest = <<>> THEN acc \cup Cl(E, front) \cup Cl(E, kids(<<"#">>))
    ELSE LET nxt  == kids(<<"+">>) \cup kids(Head(rest))
             acc1 == acc \cup Cl(E, kids(<<"#">>))
         IN IF nxt = {} THEN acc1 ELSE Walk(N, E, nxt, Tail(rest), acc1)
Found(t) == Walk(nodes \cup {<<>>}, ents, {<<>>}, t, {})
ImplRoute(t) == [c \in {x[1] : x \in Found(t)} |-> {x[2] : x \in {y \in Found(t) : y[1] = c}}]

SessFilters(c) == {s.f : s \in sess[c]}
(* Session.subscribe: the map entry of every filter of the packet is overwritten in packet order *)
SessPut(S, fs, qs) ==
    LET lastq(f) == qs[CHOOSE i \in 1..Len(fs) : fs[i] = f /\ \A j \in (i + 1)..Len(fs) : fs[j] # f]
        F == {fs[i] : i \in 1..Len(fs)}
    IN {s \in S : s.f \notin F} \cup {[f |-> f, q |-> lastq(f)] : f \in F}
RECURSIVE InsSet(_, _, _)
InsSet(T, c, S) ==
    IF S = {} THEN T ELSE LET s == CHOOSE x \in S : TRUE IN InsSet(Ins(T.nodes, T.ents, c, s.f, s.q), c, S \ {s})

IInit == Init /\ nodes = {} /\ ents = {} /\ sess = [c \in Clients |-> {}]

(* processSubscribe: TopicManager.subscribe inserts filter by filter and returns at the first    *)
(* malformed one (the earlier ones stay inserted); only on success the session records them.     *)
FirstBad(fs) == IF \E i \in 1..Len(fs) : ~ImplValid(fs[i])
                THEN CHOOSE i \in 1..Len(fs) : ~ImplValid(fs[i]) /\ \A j \in 1..(i - 1) : ImplValid(fs[j])
                ELSE Len(fs) + 1
ISubscribe(c, fs, qs) ==
    LET upto == IF PartialInsert THEN FirstBad(fs) - 1 ELSE IF FirstBad(fs) > Len(fs) THEN Len(fs) ELSE 0
        T == InsFrom([nodes |-> nodes, ents |-> ents], c, fs, qs, upto, 1)
    IN /\ Subscribe(c, fs, qs, 1..upto)
       /\ nodes' = T.nodes /\ ents' = T.ents
       /\ sess' = IF upto = Len(fs) THEN [sess EXCEPT ![c] = SessPut(@, fs, qs)] ELSE sess     \* Session.subscribe: Topics[f] = q, in order

(* processUnsubscribe: TopicManager.unsubscribe removes filter by filter; Session.unsubscribe forgets   *)
(* every filter of the packet, whatever TopicManager.unsubscribe returned                                 *)
IUnsubscribe(c, fs) ==
    LET upto == IF PartialRemove THEN FirstBad(fs) - 1 ELSE Len(fs)
        R == {i \in 1..upto : ImplValid(fs[i])}
        T == RemAll([nodes |-> nodes, ents |-> ents], c, {fs[i] : i \in R})
    IN /\ Unsubscribe(c, fs, R)
       /\ nodes' = T.nodes /\ ents' = T.ents
       /\ sess' = [sess EXCEPT ![c] = {s \in @ : \A i \in 1..Len(fs) : fs[i] # s.f}]

(* closeAndDelSession: unsubscribe what the session remembers *)
IDisconnect(c) ==
    LET T == RemAll([nodes |-> nodes, ents |-> ents], c, SessFilters(c))
    IN /\ Disconnect(c)
       /\ nodes' = T.nodes /\ ents' = T.ents
       /\ sess' = [sess EXCEPT ![c] = {}]

(* takeover by a cleanSession=true connection followed by the end of the old connection: in the   *)
(* trie this is the old connection's teardown                                                       *)
ITakeover(c) ==
    LET T == RemAll([nodes |-> nodes, ents |-> ents], c, SessFilters(c))
    IN /\ Takeover(c)
       /\ nodes' = T.nodes /\ ents' = T.ents
       /\ sess' = [sess EXCEPT ![c] = {}]

(* a persistent session's connection ends (closeAndDelSession: the session's filters leave the trie; *)
(* the stored session stays) and the client connects again with cleanSession=false (handleConn:       *)
(* the session is loaded and allSubscribes() - filters and their QoS, pairwise - is subscribed again)  *)
Shuffles(S) == IF ResumePairwise THEN {S}
               ELSE {{[f |-> s.f, q |-> g[s].q] : s \in S} : g \in {h \in [S -> S] : \A x, y \in S : h[x] = h[y] => x = y}}
IResume(c) ==
    \E S \in Shuffles(sess[c]) :
        LET T0 == RemAll([nodes |-> nodes, ents |-> ents], c, SessFilters(c))
            T  == InsSet(T0, c, S)
        IN /\ Resume(c)
           /\ nodes' = T.nodes /\ ents' = T.ents
           /\ UNCHANGED sess

INext ==
    /\ n < MaxOps
    /\ \E c \in Clients :
       \/ \E fs \in FilterSeqs : \E qs \in [1..Len(fs) -> QoS] : ISubscribe(c, fs, qs)
       \/ \E fs \in FilterSeqs : IUnsubscribe(c, fs)
       \/ IDisconnect(c)
       \/ ITakeover(c)
       \/ IResume(c)

ISpec == IInit /\ [][INext]_ivars

(* ----------------------------------- refinement ----------------------------------- *)
SameValidity == \A f \in Filters : ImplValid(f) = ValidFilter(f)
Refines == \A t \in Topics : ImplRoute(t) = Route(t)
(* what the trie holds is what the contract calls live *)
EntsAreSubs == {[c |-> e.c, f |-> e.p, q |-> e.q] : e \in ents} = subs
(* what the sessions remember is what the contract calls live (repaired code: a rejected SUBSCRIBE records nothing) *)
SessAreSubs == PartialInsert \/ PartialRemove \/ \A c \in Clients : {[c |-> c, f |-> s.f, q |-> s.q] : s \in sess[c]} = {s \in subs : s.c = c}
TrieEmptyIffNoSubs == (subs = {}) <=> (nodes = {} /\ ents = {})
NoDeadNodes == \A p \in nodes : (\E e \in ents : e.p = p) \/ Children(nodes, p) # {}
=============================================================================

--------------------------- MODULE MqttTopics_Gen ---------------------------
(* Behaviour generator for C14: the contract of MqttTopics plus `out`, the JSON description of   *)
(* the step just taken and of what the contract routes every probe topic to afterwards.          *)
(* Rejected SUBSCRIBE packets, and UNSUBSCRIBE packets with a malformed filter, are generated    *)
(* with a single filter only (deterministic outcome); multi-filter packets that mix well-formed   *)
(* and malformed filters are exercised by trace validation, where TLC resolves the contract's      *)
(* freedom.  The clients of Persistent use cleanSession=false: their connection can drop  *)
(* and come back with the session resumed (Resume), after which every probe is looked up again.      *)
EXTENDS MqttTopics, Json, SequencesExt

VARIABLES out,   \* JSON of the step just taken + predicted routing ("-" while the step is being chosen)
          ph,    \* "op": choose the next operation; "emit": describe it (two phases keep -simulate cheap:
                 \* the expensive ToJson is evaluated for the chosen successor only)
          kind   \* the kind of the next operation, drawn in the emit phase: -simulate picks uniformly among the
                 \* successor states, and there are ~50 SUBSCRIBE successors for one disconnect / takeover / resume

RouteRec(t) == [t |-> t, r |-> SetToSeq({[c |-> c, qs |-> SetToSeq(Route(t)[c])] : c \in DOMAIN Route(t)})]
RouteAll == SetToSeq({RouteRec(t) : t \in Topics})

Kinds == 1..8       \* 1-4 subscribe, 5-6 unsubscribe, 7 end of a session (disconnect / clean takeover), 8 resume
GInit == Init /\ out = ToJson([a |-> "init", pers |-> SetToSeq(Persistent)]) /\ ph = "op" /\ kind \in Kinds
GOp   == /\ ph = "op" /\ ph' = "emit" /\ out' = "-" /\ UNCHANGED kind
         /\ n < MaxOps
         /\ \E c \in Clients :
              \/ /\ kind \in 1..4 \/ (kind = 8 /\ Persistent = {})
                 /\ \E fs \in FilterSeqs : \E qs \in [1..Len(fs) -> QoS] :
                     /\ (Len(fs) > 1 => ValidIdx(fs) = 1..Len(fs))
                     /\ Subscribe(c, fs, qs, IF ValidIdx(fs) = 1..Len(fs) THEN 1..Len(fs) ELSE {})
              \/ /\ kind \in 5..6
                 /\ \E fs \in FilterSeqs :
                     /\ (Len(fs) > 1 => ValidIdx(fs) = 1..Len(fs))
                     /\ Unsubscribe(c, fs, IF ValidIdx(fs) = 1..Len(fs) THEN 1..Len(fs) ELSE {})
              \/ kind = 7 /\ Disconnect(c)
              \/ kind = 7 /\ Takeover(c)
              \/ kind = 8 /\ Resume(c)
GEmit == /\ ph = "emit" /\ ph' = "op" /\ UNCHANGED vars /\ kind' \in Kinds
         /\ out' = ToJson([op |-> last, route |-> RouteAll])
GNext == GOp \/ GEmit
GSpec == GInit /\ [][GNext]_<<vars, out, ph, kind>>
=============================================================================

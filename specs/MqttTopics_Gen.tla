--------------------------- MODULE MqttTopics_Gen ---------------------------
(* Behaviour generator for C14: the contract of MqttTopics plus `out`, the JSON description of   *)
(* the step just taken and of what the contract routes every probe topic to afterwards.          *)
(* Rejected SUBSCRIBE packets are generated with a single filter only (deterministic outcome);   *)
(* rejected multi-filter packets are exercised by trace validation, where TLC resolves the        *)
(* contract's freedom.                                                                            *)
EXTENDS MqttTopics, Json, SequencesExt

VARIABLES out,   \* JSON of the step just taken + predicted routing ("-" while the step is being chosen)
          ph     \* "op": choose the next operation; "emit": describe it (two phases keep -simulate cheap:
                 \* the expensive ToJson is evaluated for the chosen successor only)

RouteRec(t) == [t |-> t, r |-> SetToSeq({[c |-> c, qs |-> SetToSeq(Route(t)[c])] : c \in DOMAIN Route(t)})]
RouteAll == SetToSeq({RouteRec(t) : t \in Topics})

GInit == Init /\ out = ToJson([a |-> "init"]) /\ ph = "op"
GOp   == /\ ph = "op" /\ ph' = "emit" /\ out' = "-"
         /\ n < MaxOps
         /\ \E c \in Clients :
              \/ \E fs \in FilterSeqs : \E qs \in [1..Len(fs) -> QoS] :
                     /\ (Len(fs) > 1 => ValidIdx(fs) = 1..Len(fs))
                     /\ Subscribe(c, fs, qs, IF ValidIdx(fs) = 1..Len(fs) THEN 1..Len(fs) ELSE {})
              \/ \E fs \in FilterSeqs : Unsubscribe(c, fs)
              \/ Disconnect(c)
              \/ Takeover(c)
GEmit == /\ ph = "emit" /\ ph' = "op" /\ UNCHANGED vars
         /\ out' = ToJson([op |-> last, route |-> RouteAll])
GNext == GOp \/ GEmit
GSpec == GInit /\ [][GNext]_<<vars, out, ph>>
=============================================================================

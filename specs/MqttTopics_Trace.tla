-------------------------- MODULE MqttTopics_Trace --------------------------
(* Trace validation for C14.  The harness drives the real TopicManager (directly, or through a   *)
(* real Broker with raw MQTT clients) with seeded random histories and logs                      *)
(*   {"ev":"reset","pers":[..]}   new system; pers: the clients that use cleanSession=false           *)
(*   {"ev":"sub","c":..,"fs":[filter..],"qs":[..],"ok":bool}     SUBSCRIBE and whether it was     *)
(*                                                               accepted (SUBACK / nil error)   *)
(*   {"ev":"unsub","c":..,"fs":[..]}   UNSUBSCRIBE (well-formed and malformed filters, mixed)        *)
(*   {"ev":"disc","c":..}                                                                         *)
(*   {"ev":"takeover","c":..}     a cleanSession=true connection took c's id over and the old      *)
(*                                connection has ended (its teardown is complete)                   *)
(*   {"ev":"resume","c":..}       the connection of c's persistent session (cleanSession=false) ended  *)
(*                                and c connected again with cleanSession=false                         *)
(*   {"ev":"probe","t":topic,"r":[{"c":..,"q":..}..]}            findSubscribers(t)              *)
(* Every event must be a step of the contract; a probe is accepted iff its client set is exactly *)
(* the contract's and every QoS is one of that client's own matching subscriptions' QoS.          *)
EXTENDS MqttTopics, Json, TLC, IOUtils

TLog == ndJsonDeserialize(IOEnv.VERIF_TRACE)

VARIABLE l
tvars == <<vars, l>>

IsEvent(e) == l <= Len(TLog) /\ TLog[l].ev = e /\ l' = l + 1

TReset == /\ IsEvent("reset") /\ subs' = {} /\ n' = 0 /\ last' = [a |-> "init"]
          /\ {TLog[l].pers[i] : i \in 1..Len(TLog[l].pers)} = Persistent

TSub == /\ IsEvent("sub")
        /\ \E keep \in SUBSET (1..Len(TLog[l].fs)) : Subscribe(TLog[l].c, TLog[l].fs, TLog[l].qs, keep)
        /\ last'.ok = TLog[l].ok

TUnsub == /\ IsEvent("unsub")
          /\ \E rem \in SUBSET (1..Len(TLog[l].fs)) : Unsubscribe(TLog[l].c, TLog[l].fs, rem)

TDisc == IsEvent("disc") /\ Disconnect(TLog[l].c)

TTakeover == IsEvent("takeover") /\ Takeover(TLog[l].c)

TResume == IsEvent("resume") /\ Resume(TLog[l].c)

TProbe ==
    /\ IsEvent("probe")
    /\ LET r == TLog[l].r
           R == Route(TLog[l].t)
       IN /\ {r[i].c : i \in 1..Len(r)} = DOMAIN R
          /\ \A i \in 1..Len(r) : r[i].q \in R[r[i].c]
          /\ \A i, j \in 1..Len(r) : r[i].c = r[j].c => i = j
    /\ UNCHANGED vars

TNext == TReset \/ TSub \/ TUnsub \/ TDisc \/ TTakeover \/ TResume \/ TProbe
TInit == l = 1 /\ Init
TSpec == TInit /\ [][TNext]_tvars

ASSUME TLCSet(1, 0)
HWM == TLCSet(1, IF l - 1 > TLCGet(1) THEN l - 1 ELSE TLCGet(1))
Accepted == /\ PrintT(<<"VERIF_HWM", TLCGet(1), Len(TLog)>>)
            /\ TLCGet(1) = Len(TLog)
=============================================================================

------------------------------- MODULE MqttWatch -------------------------------
(* X07, fourth part - the session-delete watcher of the MQTT proxy (Broker.watchDelete,              *)
(* Broker.deleteSession, Broker.reconnectWatcher in pkg/object/mqttproxy/broker.go).                  *)
(*                                                                                                  *)
(* Every connected client has a session in the cluster store (key = prefix + client id).  Deleting   *)
(* a stored session (admin API DELETE /mqttproxy/{name}/sessions, on any member) is how a client is   *)
(* thrown out: the broker watches the session prefix for deletions and closes the client whose         *)
(* session disappeared.  The watch can be lost (etcd cancels it: compaction, lost connection - the     *)
(* channel is closed); notifications of deletions made meanwhile are lost with it, so when the watch    *)
(* is back the broker reconciles: it lists the stored sessions and closes every connected client that   *)
(* has none ("check event during reconnect").                                                           *)
(*                                                                                                  *)
(* What a user relies on: a client is disconnected by this mechanism only if its session was deleted  *)
(* (a watch that comes back over an unchanged store disconnects nobody), and once the watch is up       *)
(* again no client is connected whose session was deleted during the gap.                               *)
(*                                                                                                  *)
(* KeyRule is the design choice of the reconciliation: the listing is keyed by full store keys;          *)
(* "full" looks a client up by its store key, "bare" by the client id alone (never found: every          *)
(* client counts as deleted).  Reconcile = FALSE: the watch comes back without reconciliation.            *)
EXTENDS Integers, FiniteSets

CONSTANTS Clients, KeyRule, Reconcile

VARIABLES conn,      \* clients whose connection is open and served
          store,     \* client ids with a stored session
          watch,     \* "up" | "down"
          ever,      \* clients that have connected (every id connects once)
          left,      \* clients that ended their connection themselves
          deleted    \* client ids whose session has been deleted
wvars == <<conn, store, watch, ever, left, deleted>>

WInit == conn = {} /\ store = {} /\ watch = "up" /\ ever = {} /\ left = {} /\ deleted = {}

(* CONNECT with cleanSession = false: registered, and the session is written to the store *)
WConnect(c) == /\ c \notin ever
               /\ conn' = conn \cup {c} /\ store' = store \cup {c} /\ ever' = ever \cup {c}
               /\ UNCHANGED <<watch, left, deleted>>
(* DISCONNECT: the session of a cleanSession = false client stays in the store *)
WLeave(c) == /\ c \in conn
             /\ conn' = conn \ {c} /\ left' = left \cup {c} /\ UNCHANGED <<store, watch, ever, deleted>>
(* admin delete; the notification reaches the broker only while it watches (deleteSession closes the client) *)
WDelete(c) == /\ c \in store
              /\ store' = store \ {c} /\ deleted' = deleted \cup {c}
              /\ conn' = IF watch = "up" THEN conn \ {c} ELSE conn
              /\ UNCHANGED <<watch, ever, left>>
WLose == watch = "up" /\ watch' = "down" /\ UNCHANGED <<conn, store, ever, left, deleted>>
(* reconnectWatcher: new watch, then reconciliation with the listing of the stored sessions *)
Found(c) == IF KeyRule = "full" THEN c \in store ELSE FALSE
WRewatch == /\ watch = "down" /\ watch' = "up"
            /\ conn' = IF Reconcile THEN {c \in conn : Found(c)} ELSE conn
            /\ UNCHANGED <<store, ever, left, deleted>>

WNext == (\E c \in Clients : WConnect(c) \/ WLeave(c) \/ WDelete(c)) \/ WLose \/ WRewatch
WSpec == WInit /\ [][WNext]_wvars

WTypeOK == conn \subseteq ever /\ ever \subseteq Clients /\ store \subseteq ever /\ watch \in {"up", "down"}
(* only a deleted session ends a connection from the broker's side *)
OnlyDeletedAreClosed == (ever \ (conn \cup left)) \subseteq deleted
(* while the broker watches, no client is connected without a stored session *)
NoSessionNoConnection == watch = "up" => conn \subseteq store
(* a watch that comes back closes exactly the clients whose session was deleted during the gap *)
RewatchClosesOnlyDeleted == [][watch = "down" /\ watch' = "up" => conn' = conn \cap store]_wvars
=============================================================================

----------------------------- MODULE MqttWatch_Gen -----------------------------
(* X07 - model-checking wrapper and script generator of MqttWatch.  Gap = FALSE: the watch is never   *)
(* lost (admin deletes and their notifications only); Gap = TRUE: scripts lose the watch once or       *)
(* twice, with deletions, connects and disconnects before, during and after the gap.                    *)
EXTENDS MqttWatch, Json, SequencesExt, TLC

CONSTANTS MaxSteps, Gap,
          Focus      \* TRUE: the watch is lost only while somebody is connected, and comes back only after the session of a
                     \* connected client has been deleted in the gap (the case the reconciliation exists for)
VARIABLES out, k,
          gd         \* a connected client's session was deleted in the current gap
gvars == <<wvars, out, k, gd>>
gview == wvars

Step(a, c) == out' = ToJson([a |-> a, c |-> c, conn |-> SetToSeq(conn'), store |-> SetToSeq(store'), watch |-> watch'])
GInit == WInit /\ out = ToJson([a |-> "init"]) /\ k = 0 /\ gd = FALSE
GNext == /\ k < MaxSteps /\ k' = k + 1
         /\ \/ \E c \in Clients : \/ WConnect(c) /\ Step("connect", c) /\ UNCHANGED gd
                                  \/ WLeave(c) /\ Step("leave", c) /\ UNCHANGED gd /\ (Focus /\ watch = "down" => gd)
                                  \/ WDelete(c) /\ Step("delete", c) /\ gd' = (gd \/ (watch = "down" /\ c \in conn))
            \/ Gap /\ WLose /\ Step("lose", 0) /\ gd' = FALSE /\ (Focus => conn # {})
            \/ WRewatch /\ Step("rewatch", 0) /\ UNCHANGED gd /\ (Focus => gd)
GSpec == GInit /\ [][GNext]_gvars
MCNext == (\E c \in Clients : WConnect(c) \/ WLeave(c) \/ WDelete(c)) \/ WLose \/ WRewatch
MCSpec == GInit /\ [][MCNext /\ UNCHANGED <<out, k, gd>>]_gvars

(* vacuity probes (see MqttConn_Gen) *)
WProbes == << watch = "down" /\ ~(conn \subseteq store),          \* a connected client's session was deleted in the gap
              watch = "down" /\ conn # {} /\ conn \subseteq store,  \* watch lost, store unchanged
              watch = "up" /\ deleted \cap ever # {} /\ conn # {},
              left # {} /\ left \cap store # {} >>
ASSUME \A i \in 1..4 : TLCSet(10 + i, FALSE)
WReachNote == \A i \in 1..4 : WProbes[i] => TLCSet(10 + i, TRUE)
WAllReached == \A i \in 1..4 : TLCGet(10 + i) \/ (PrintT(<<"probe never reached", i>>) /\ FALSE)
=============================================================================

---------------------------- MODULE MqttWatch_Trace ----------------------------
(* X07 - trace validation of MqttWatch: the harness drives a real Broker whose storage it controls     *)
(* (the watch channel can be closed, the re-watch held back), with raw MQTT clients, and logs after      *)
(* every step - each completed up to a barrier - which clients still answer:                            *)
(*   reset                                                                                             *)
(*   w {a: connect | leave | delete | lose | rewatch, c, alive}                                         *)
EXTENDS MqttWatch, Json, TLC, IOUtils, SequencesExt

TLog == ndJsonDeserialize(IOEnv.VERIF_TRACE)
VARIABLE l
tvars == <<wvars, l>>
IsEvent(e) == l <= Len(TLog) /\ TLog[l].ev = e /\ l' = l + 1
E == TLog[l]

TReset == IsEvent("reset") /\ conn' = {} /\ store' = {} /\ watch' = "up" /\ ever' = {} /\ left' = {} /\ deleted' = {}
TW == /\ IsEvent("w")
      /\ CASE E.a = "connect" -> WConnect(E.c)
           [] E.a = "leave"   -> WLeave(E.c)
           [] E.a = "delete"  -> WDelete(E.c)
           [] E.a = "lose"    -> WLose
           [] E.a = "rewatch" -> WRewatch
      /\ conn' = ToSet(E.alive)
TNext == TReset \/ TW
TSpec == WInit /\ l = 1 /\ [][TNext]_tvars

ASSUME TLCSet(1, 0)
HWM == TLCSet(1, IF l - 1 > TLCGet(1) THEN l - 1 ELSE TLCGet(1))
Accepted == /\ PrintT(<<"VERIF_HWM", TLCGet(1), Len(TLog)>>)
            /\ TLCGet(1) = Len(TLog)
=============================================================================

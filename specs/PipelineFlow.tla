---------------------------- MODULE PipelineFlow ----------------------------
(***************************************************************************************************)
(* C02 - Pipeline flow: filters run in flow order, forward-only jumpIf, END, GlobalFilter          *)
(* before/after flows, validation of flow specifications.                                          *)
(*                                                                                                 *)
(* Two layers (DESIGN 2.1):                                                                        *)
(*  CONTRACT (module PipelineFlow_Contract) - written from the text of the property only.          *)
(*  IMPLEMENTATION-SHAPED (this module) - pkg/object/pipeline/pipeline.go as it is written:        *)
(*      Spec.Validate with the backward loop and the validTargets counters of ValidateJumpIf, the  *)
(*      flow that reload() synthesises when none is given, HandleWithBeforeAfter, and the single   *)
(*      for loop of doHandle with its `next` variable - one action per loop iteration, the result  *)
(*      of each filter invocation chosen nondeterministically.                                     *)
(*                                                                                                 *)
(* TLC checks that the second refines the first (invariant Refines) for all configurations up to   *)
(* a bound and all result vectors.  The same state space is the test generator: every terminal     *)
(* state carries (configuration, result vector, the contract's prediction), see PipelineFlow_Gen.  *)
(***************************************************************************************************)
EXTENDS PipelineFlow_Contract, TLC

CONSTANTS
    DefSets,                 \* filter-definition lists the main pipeline may have
    DefSetsB(_), DefSetsA(_), \* main list -> filter-definition lists the before / after pipeline may have
    HasBSet, HasASet,        \* subsets of BOOLEAN: with / without a before (after) pipeline
    NodesB, NodesM, NodesA,  \* node variants of the before / main / after flow
    MaxB, MaxM, MaxA,        \* maximal flow lengths
    Results,                 \* what a filter invocation may return ("" = normal result)
    OnlyValid,               \* generator pruning: build only flows that stay valid under every reading
    EndAliasFixed            \* FALSE: doHandle as pinned; TRUE: with fixes/pipeline-end-alias.diff

VARIABLES
    ph,       \* "build" | "run" | "done"
    bseg,     \* flow under construction: "b", "m", "a"
    cfg,      \* [defs, db, da, hasB, hasA, b, m, a]: the configuration (three pipeline specs, each with its filter list)
    acc,      \* verdicts of Spec.Validate for the three specs
    seg,      \* HandleWithBeforeAfter: which doHandle call is running
    i,        \* doHandle: loop index
    next,     \* doHandle: local `next`
    result,   \* doHandle: local `result` / HandleWithBeforeAfter: `result`
    sawEnd,   \* doHandle / HandleWithBeforeAfter: `sawEnd`
    stats     \* filter invocations so far (what the scripted filters and the stats tag record)

vars == <<ph, bseg, cfg, acc, seg, i, next, result, sawEnd, stats>>

NodesOf(sg) == CASE sg = "b" -> NodesB [] sg = "m" -> NodesM [] sg = "a" -> NodesA
MaxOf(sg)   == CASE sg = "b" -> MaxB [] sg = "m" -> MaxM [] sg = "a" -> MaxA

(* ---- Spec.Validate -----------------------------------------------------------------------------*)
(* step 1: the loop over s.Filters with the `specs` map: reserved name, duplicated name *)
RECURSIVE ImplDefsOK(_, _, _)
ImplDefsOK(defs, d, seen) ==
    IF d > Len(defs) THEN TRUE
    ELSE IF defs[d].name = END THEN FALSE                 \* isBuiltInFilter(name)
    ELSE IF defs[d].name \in seen THEN FALSE              \* duplicated filter name
    ELSE ImplDefsOK(defs, d + 1, seen \cup {defs[d].name})

Cnt(vt, t) == IF t \in DOMAIN vt THEN vt[t] ELSE 0
Inc(vt, t) == IF t \in DOMAIN vt THEN [vt EXCEPT ![t] = @ + 1] ELSE vt @@ (t :> 1)

(* step 2: ValidateJumpIf - backward loop, validTargets counts the names of the later filter nodes; *)
(* END nodes are skipped altogether (their alias is not counted)                                    *)
RECURSIVE ImplVJ(_, _, _, _)
ImplVJ(defs, flow, k, vt) ==
    IF k = 0 THEN TRUE
    ELSE LET n == flow[k] IN
         IF n.filter = END THEN ImplVJ(defs, flow, k - 1, vt)
         ELSE IF n.filter \notin DefNames(defs) THEN FALSE                      \* filter not found
         ELSE /\ \A r \in JumpKeysOf(n) :
                    /\ r \in Kinds[KindOf(defs, n.filter)]                       \* result is not in results
                    /\ Cnt(vt, n.jump[r]) = 1                                    \* 0: not found, > 1: duplicated
              /\ ImplVJ(defs, flow, k - 1, Inc(vt, AliasOf(n)))

ImplValidate(defs, flow) ==
    /\ ImplDefsOK(defs, 1, {})
    /\ ImplVJ(defs, flow, Len(flow), (END :> 1))

(* ---- generator: configurations are built node by node, back to front --------------------------*)
KeepsValid(defs, flow) == \A rd \in Readings : ValidFlow(rd, defs, flow)

Init ==
    /\ ph = "build"
    /\ \E d \in DefSets, hb \in HasBSet, ha \in HasASet :
          \E sb \in (IF hb THEN DefSetsB(d) ELSE {<<>>}), sa \in (IF ha THEN DefSetsA(d) ELSE {<<>>}) :
             cfg = [defs |-> d, db |-> sb, da |-> sa, hasB |-> hb, hasA |-> ha, b |-> <<>>, m |-> <<>>, a |-> <<>>]
    /\ bseg = "a"
    /\ acc = [b |-> TRUE, m |-> TRUE, a |-> TRUE]
    /\ seg = "-" /\ i = 0 /\ next = "" /\ result = "" /\ sawEnd = FALSE /\ stats = <<>>

Frozen == UNCHANGED <<acc, seg, i, next, result, sawEnd, stats>>

(* flows are built after -> main -> before, each by prepending nodes (so that, with OnlyValid, the *)
(* jump targets of a new node can be checked against the nodes that follow it)                      *)
SegUsed(sg) == Used(cfg, sg)

AddNode ==
    /\ ph = "build" /\ SegUsed(bseg) /\ Len(cfg[bseg]) < MaxOf(bseg)
    /\ \E n \in NodesOf(bseg) :
          LET f == <<n>> \o cfg[bseg] IN
          /\ OnlyValid => KeepsValid(DefsOf(cfg, bseg), f)
          /\ cfg' = [cfg EXCEPT ![bseg] = f]
    /\ UNCHANGED <<ph, bseg>> /\ Frozen

NextSeg ==
    /\ ph = "build" /\ bseg # "b"
    /\ bseg' = IF bseg = "a" THEN "m" ELSE "b"
    /\ UNCHANGED <<ph, cfg>> /\ Frozen

FirstSeg(c) == IF c.hasB THEN "b" ELSE "m"

(* the three specs go through Spec.Validate; if all are accepted the pipelines are created and one  *)
(* request is handled                                                                               *)
Validate ==
    /\ ph = "build" /\ bseg = "b"
    /\ LET v == [sg \in {"b", "m", "a"} |-> ~SegUsed(sg) \/ ImplValidate(DefsOf(cfg, sg), cfg[sg])] IN
       /\ acc' = v
       /\ IF v["b"] /\ v["m"] /\ v["a"]
          THEN /\ ph' = "run" /\ seg' = FirstSeg(cfg) /\ i' = 1
          ELSE /\ ph' = "done" /\ seg' = "-" /\ i' = 0
    /\ UNCHANGED <<bseg, cfg, next, result, sawEnd, stats>>

(* ---- doHandle: one iteration of `for i := range flow` ------------------------------------------*)
CurFlow == EffFlow(DefsOf(cfg, seg), cfg[seg])            \* p.flow after reload()

Lookup(n, r) == IF JumpOf(n, r) = NoJump THEN "" ELSE n.jump[r]     \* node.JumpIf[result]

LoopIter ==
    /\ ph = "run" /\ ~sawEnd /\ i <= Len(CurFlow)
    /\ LET node == CurFlow[i]
           alias == AliasOf(node) IN
       IF next # "" /\ (next # alias \/ (EndAliasFixed /\ node.filter = END))
       THEN /\ i' = i + 1                                            \* continue
            /\ UNCHANGED <<next, result, sawEnd, stats>>
       ELSE IF node.filter = END
       THEN /\ sawEnd' = TRUE                                        \* break
            /\ UNCHANGED <<i, next, result, stats>>
       ELSE \E r \in Results :                                       \* ctx.UseNamespace; node.filter.Handle(ctx)
            /\ result' = r
            /\ stats' = Append(stats, [seg |-> seg, p |-> i, filter |-> node.filter, name |-> alias,
                                       ns |-> NsOf(node), res |-> r])
            /\ IF r = "" THEN /\ next' = "" /\ i' = i + 1 /\ UNCHANGED sawEnd
               ELSE /\ next' = Lookup(node, r)
                    /\ IF next' = "" \/ next' = END
                       THEN sawEnd' = TRUE /\ UNCHANGED i            \* break
                       ELSE i' = i + 1 /\ UNCHANGED sawEnd
    /\ UNCHANGED <<ph, bseg, cfg, acc, seg>>

(* doHandle returns; HandleWithBeforeAfter goes on with the next flow unless sawEnd *)
SegReturn ==
    /\ ph = "run" /\ (sawEnd \/ i > Len(CurFlow))
    /\ LET nxt == IF seg = "b" THEN "m" ELSE IF seg = "m" /\ cfg.hasA THEN "a" ELSE "-" IN
       IF ~sawEnd /\ nxt # "-"
       THEN /\ seg' = nxt /\ i' = 1 /\ next' = "" /\ result' = ""     \* fresh locals of the next doHandle call
            /\ UNCHANGED <<ph, sawEnd>>
       ELSE /\ ph' = "done" /\ UNCHANGED <<seg, i, next, result, sawEnd>>
    /\ UNCHANGED <<bseg, cfg, acc, stats>>

Next == AddNode \/ NextSeg \/ Validate \/ LoopIter \/ SegReturn

Spec == Init /\ [][Next]_vars

(***************************************************************************************************)
(* What the contract says about the configuration in `cfg`                                          *)
(***************************************************************************************************)
MustAccept(sg) == MustAcceptC(cfg, sg)
MustReject(sg) == MustRejectC(cfg, sg)
Verdict(sg)    == VerdictC(cfg, sg)
GoodReadings   == GoodReadingsC(cfg)
Script         == [k \in DOMAIN stats |-> stats[k].res]
Allowed        == AllowedC(cfg, Script)
Accepted == acc["b"] /\ acc["m"] /\ acc["a"]

(* refinement: the verdicts and the executed sequence are what the contract allows *)
Refines ==
    ph = "done" =>
        /\ \A sg \in {"b", "m", "a"} : SegUsed(sg) =>
              /\ MustAccept(sg) => acc[sg]       \* "for every valid pipeline ... filters run": it can be created
              /\ MustReject(sg) => ~acc[sg]
        /\ Accepted => [visits |-> stats, result |-> result] \in Allowed

(* the clauses of the property are theorems of the contract's Run *)
ContractClauses ==
    ph = "done" /\ Accepted => \A rd \in GoodReadings : Clauses(rd, SegsOf(cfg), Script)

TypeOK ==
    /\ ph \in {"build", "run", "done"} /\ bseg \in {"b", "m", "a"} /\ seg \in {"-", "b", "m", "a"}
    /\ i \in 0..(MaxB + MaxM + MaxA + 8) /\ sawEnd \in BOOLEAN /\ result \in Results
    /\ Len(stats) <= 3 * (MaxB + MaxM + MaxA + 8)
=============================================================================

------------------------ MODULE PipelineFlow_Contract ------------------------
(***************************************************************************************************)
(* C02 - Pipeline flow, CONTRACT layer: what the text of the property says, and nothing more.      *)
(* Pure operators (no variables): ValidSpec says which specifications must be rejected;            *)
(* Arrive / After / Enter / Step / Run say which filter invocations a valid configuration performs *)
(* for a given vector of filter results; Clause.. restate the clauses of the property without      *)
(* recursion (checked by TLC as theorems of Run, and on every run observed on the real code).      *)
(* Used by PipelineFlow (refinement), PipelineFlow_Gen (test generation), PipelineFlow_Trace.      *)
(***************************************************************************************************)
EXTENDS Integers, Sequences, FiniteSets

END       == "END"        \* pipeline.BuiltInFilterEnd
NoJump    == "-"          \* value of a jumpIf map for a result that is not mapped
DefaultNS == "DEFAULT"    \* context.DefaultNamespace

(* filter kinds of the test-only scripted filter: kind name -> declared results (filters.Kind.Results). *)
(* One, several and no declared results; KC declares two results that differ only in case.  Result  *)
(* names are compared as they are written: "R1", "r", "r11" and "" are not the result "r1".           *)
Kinds == [K12 |-> {"r1", "r2"}, K1 |-> {"r1"}, K123 |-> {"r1", "r2", "r3"}, K0 |-> {}, KC |-> {"R1", "r1"}]

(* A filter definition is [name, kind]; a flow node is [filter, alias, ns, jump] where jump is a   *)
(* function from result names to a target name or NoJump.                                          *)
IsEnd(n)      == n.filter = END
AliasOf(n)    == IF n.alias # "" THEN n.alias ELSE n.filter       \* FlowNode.filterAlias()
NsOf(n)       == IF n.ns = "" THEN DefaultNS ELSE n.ns
JumpKeysOf(n) == {r \in DOMAIN n.jump : n.jump[r] # NoJump}
JumpOf(n, r)  == IF r \in DOMAIN n.jump THEN n.jump[r] ELSE NoJump
DefNames(defs) == {defs[d].name : d \in DOMAIN defs}
KindOf(defs, f) == defs[CHOOSE d \in DOMAIN defs : defs[d].name = f].kind
PlainNode(f)  == [filter |-> f, alias |-> "", ns |-> "", jump |-> [r \in {"r1"} |-> NoJump]]

(* The flow a pipeline executes: the given one, or all filters in definition order (reload()).    *)
EffFlow(defs, flow) ==
    IF flow = <<>> THEN [d \in DOMAIN defs |-> PlainNode(defs[d].name)] ELSE flow

(***************************************************************************************************)
(* CONTRACT                                                                                        *)
(*                                                                                                 *)
(* "the node named by jumpIf": a filter node is named by its alias, or by its filter name if it    *)
(* has no alias.  The text does not say whether an END node that carries an alias can be named by   *)
(* a jump.  Both readings are admitted:                                                            *)
(*    "A": every node is named by its alias if it has one (an aliased END node is a jump target;   *)
(*         arriving there ends the pipeline);                                                      *)
(*    "B": END nodes are anonymous, they are never the target of a jump and a jump skips them.     *)
(* A specification must be accepted if it is valid under both, must be rejected if it is invalid   *)
(* under both, and an accepted one must run as some reading under which it is valid prescribes.    *)
(* The readings coincide on every flow without an aliased END node.  Domain restriction: no alias  *)
(* equals "END" (the text reserves filter *names* only).                                           *)
(***************************************************************************************************)
Readings == {"A", "B"}

Named(rd, n, t) == IF IsEnd(n) THEN rd = "A" /\ n.alias # "" /\ n.alias = t
                   ELSE AliasOf(n) = t

Later(rd, flow, p, t) == {q \in (p + 1)..Len(flow) : Named(rd, flow[q], t)}

(* filter names are unique and not reserved *)
ValidDefs(defs) ==
    /\ \A d \in DOMAIN defs : defs[d].name # END
    /\ \A d, e \in DOMAIN defs : d # e => defs[d].name # defs[e].name

(* every flow filter is defined, every mapped result is declared by the filter's kind, every jump  *)
(* target is END or the name of exactly one later node                                              *)
ValidFlow(rd, defs, flow) ==
    \A p \in DOMAIN flow :
        LET n == flow[p] IN
        ~IsEnd(n) =>
            /\ n.filter \in DefNames(defs)
            /\ \A r \in JumpKeysOf(n) :
                  /\ r \in Kinds[KindOf(defs, n.filter)]
                  /\ \/ n.jump[r] = END
                     \/ Cardinality(Later(rd, flow, p, n.jump[r])) = 1

ValidSpec(rd, defs, flow) == ValidDefs(defs) /\ ValidFlow(rd, defs, flow)

(* Control positions inside one flow: q >= 1 "filter node q runs next", 0 "ran off the end of the   *)
(* flow" (the next flow, if any, starts), -1 "the pipeline has ended" (END: nothing runs any more). *)
Arrive(flow, p) == IF p > Len(flow) THEN 0 ELSE IF IsEnd(flow[p]) THEN -1 ELSE p

(* after filter node p returned r *)
After(rd, flow, p, r) ==
    IF r = "" THEN Arrive(flow, p + 1)                                   \* flow order
    ELSE LET t == JumpOf(flow[p], r) IN
         IF t = NoJump \/ t = END THEN -1                                 \* unmapped or mapped to END
         ELSE Arrive(flow, CHOOSE q \in Later(rd, flow, p, t) : TRUE)     \* exactly the node named t

(* Before / main / after: `segs` is the sequence of the flows that are present, each [seg, flow].  *)
(* A cursor [s, p] says that node p of segs[s] runs next; Done says that nothing runs any more.    *)
Done == [s |-> 0, p |-> 0]

RECURSIVE Enter(_, _)
Enter(segs, s) ==
    IF s > Len(segs) THEN Done
    ELSE LET a == Arrive(segs[s].flow, 1) IN
         IF a = -1 THEN Done                     \* an END anywhere stops all three
         ELSE IF a = 0 THEN Enter(segs, s + 1)
         ELSE [s |-> s, p |-> a]

Step(rd, segs, cur, r) ==
    LET a == After(rd, segs[cur.s].flow, cur.p, r) IN
    IF a = -1 THEN Done
    ELSE IF a = 0 THEN Enter(segs, cur.s + 1)
    ELSE [s |-> cur.s, p |-> a]

Res(script, k) == IF k <= Len(script) THEN script[k] ELSE ""

Visit(segs, cur, r) ==
    LET n == segs[cur.s].flow[cur.p] IN
    [seg |-> segs[cur.s].seg, p |-> cur.p, filter |-> n.filter, name |-> AliasOf(n), ns |-> NsOf(n), res |-> r]

(* the reference sequence of filter invocations: the k-th invocation returns script[k] *)
RECURSIVE RunFrom(_, _, _, _, _)
RunFrom(rd, segs, cur, script, acc) ==
    IF cur = Done THEN acc
    ELSE LET r == Res(script, Len(acc) + 1) IN
         RunFrom(rd, segs, Step(rd, segs, cur, r), script, Append(acc, Visit(segs, cur, r)))

Run(rd, segs, script) == RunFrom(rd, segs, Enter(segs, 1), script, <<>>)

LastRes(visits) == IF visits = <<>> THEN "" ELSE visits[Len(visits)].res

Outcome(visits) == [visits |-> visits, result |-> LastRes(visits)]

(* ---- a configuration: [defs, db, da, hasB, hasA, b, m, a] - main pipeline spec (filter definitions *)
(* `defs`, flow `m`), optional before / after pipeline specs of a GlobalFilter (filter definitions   *)
(* `db` / `da`, flows `b` / `a`).  The three are pipeline specifications of their own: each has its  *)
(* own filter list - possibly empty (a flow made of END nodes needs no filter), possibly declaring   *)
(* a name of the main pipeline with another kind - and is valid or not on its own.                   *)
Used(c, sg)  == CASE sg = "b" -> c.hasB [] sg = "m" -> TRUE [] sg = "a" -> c.hasA
DefsOf(c, sg) == CASE sg = "b" -> c.db [] sg = "m" -> c.defs [] sg = "a" -> c.da
Present(c)   == (IF c.hasB THEN <<"b">> ELSE <<>>) \o <<"m">> \o (IF c.hasA THEN <<"a">> ELSE <<>>)
SegsOf(c)    == [k \in DOMAIN Present(c) |->
                    [seg |-> Present(c)[k], flow |-> EffFlow(DefsOf(c, Present(c)[k]), c[Present(c)[k]])]]
SegValidC(rd, c, sg) == ValidSpec(rd, DefsOf(c, sg), c[sg])
MustAcceptC(c, sg)   == \A rd \in Readings : SegValidC(rd, c, sg)
MustRejectC(c, sg)   == \A rd \in Readings : ~SegValidC(rd, c, sg)
VerdictC(c, sg)      == IF ~Used(c, sg) THEN "none" ELSE IF MustAcceptC(c, sg) THEN "acc"
                        ELSE IF MustRejectC(c, sg) THEN "rej" ELSE "any"
GoodReadingsC(c)     == {rd \in Readings : \A sg \in {"b", "m", "a"} : Used(c, sg) => SegValidC(rd, c, sg)}
AllowedC(c, script)  == {Outcome(Run(rd, SegsOf(c), script)) : rd \in GoodReadingsC(c)}

(* ---- the clauses of the property, restated without recursion; theorems of Run (checked by TLC) --*)
SegRank(s) == CASE s = "b" -> 1 [] s = "m" -> 2 [] s = "a" -> 3
FlowOf(segs, sg) == segs[CHOOSE s \in DOMAIN segs : segs[s].seg = sg].flow

(* filters run in flow order: before < main < after, node indices strictly increase (forward only) *)
ClauseForward(segs, v) ==
    \A k \in 1..(Len(v) - 1) :
        \/ SegRank(v[k].seg) < SegRank(v[k + 1].seg)
        \/ v[k].seg = v[k + 1].seg /\ v[k].p < v[k + 1].p

(* each in its configured namespace, under its name *)
ClauseNamespace(segs, v) ==
    \A k \in DOMAIN v :
        LET n == FlowOf(segs, v[k].seg)[v[k].p] IN
        ~IsEnd(n) /\ v[k].ns = NsOf(n) /\ v[k].name = AliasOf(n) /\ v[k].filter = n.filter

(* a non-empty result that is mapped to a node jumps exactly there (same flow, later, that name) *)
ClauseJump(rd, segs, v) ==
    \A k \in DOMAIN v :
        LET n == FlowOf(segs, v[k].seg)[v[k].p]
            t == JumpOf(n, v[k].res) IN
        (v[k].res # "" /\ t # NoJump /\ t # END) =>
            LET q == CHOOSE q \in Later(rd, FlowOf(segs, v[k].seg), v[k].p, t) : TRUE IN
            IF IsEnd(FlowOf(segs, v[k].seg)[q]) THEN k = Len(v)
            ELSE k < Len(v) /\ v[k + 1].seg = v[k].seg /\ v[k + 1].p = q /\ v[k + 1].name = t

(* a non-empty result that is unmapped or mapped to END ends the pipeline: nothing runs after it *)
ClauseEnd(segs, v) ==
    \A k \in DOMAIN v :
        LET n == FlowOf(segs, v[k].seg)[v[k].p] IN
        (v[k].res # "" /\ JumpOf(n, v[k].res) \in {NoJump, END}) => k = Len(v)

(* an empty result continues with the next node; an END node reached this way stops everything;   *)
(* the end of a flow continues with the first node of the next flow                                *)
ClauseSequential(segs, v) ==
    \A k \in DOMAIN v :
        v[k].res = "" =>
            LET f == FlowOf(segs, v[k].seg) IN
            IF v[k].p < Len(f)
            THEN IF IsEnd(f[v[k].p + 1]) THEN k = Len(v)
                 ELSE k < Len(v) /\ v[k + 1].seg = v[k].seg /\ v[k + 1].p = v[k].p + 1
            ELSE k < Len(v) => SegRank(v[k + 1].seg) > SegRank(v[k].seg) /\ v[k + 1].p = 1

Clauses(rd, segs, script) ==
    LET v == Run(rd, segs, script) IN
    /\ ClauseForward(segs, v) /\ ClauseNamespace(segs, v) /\ ClauseJump(rd, segs, v)
    /\ ClauseEnd(segs, v) /\ ClauseSequential(segs, v)
    /\ \A k \in DOMAIN v : v[k].res = Res(script, k)
=============================================================================

-------------------------- MODULE PipelineFlow_Gen --------------------------
(* Model-checking / generator wrapper for PipelineFlow (C02).                                       *)
(*   - defines the bounded domains (node variants, filter-definition lists) the cfg files select;    *)
(*   - adds `out`: in every terminal state the JSON description of the case: the configuration,     *)
(*     the result vector that was played, and what the CONTRACT says about it (verdict per spec,    *)
(*     set of allowed outcomes).  `-dump` exports all cases of a bounded domain, `-simulate` samples *)
(*     a larger one.  The harness replays each case on real Pipeline / GlobalFilter objects.        *)
EXTENDS PipelineFlow, Json

VARIABLE out

J(t1, t2, t3) == [r1 |-> t1, r2 |-> t2, r3 |-> t3]
N(f, al, ns, j) == [filter |-> f, alias |-> al, ns |-> ns, jump |-> j]
NJ == J(NoJump, NoJump, NoJump)

Nodes(fas, nss, js) == {N(fa[1], fa[2], ns, j) : fa \in fas, ns \in nss, j \in js}
Ends(als) == {N(END, al, "", NJ) : al \in als}

F(n, k) == [name |-> n, kind |-> k]
StdDefs == <<F("f", "K12"), F("g", "K1")>>

(* ---- family "flow": control flow and jump validation, exhaustive ------------------------------*)
(* f is of kind K12 (results r1, r2), g of kind K1 (r1 only): r2 on g and r3 anywhere are undeclared *)
FlowNames == {<<"f", "">>, <<"g", "">>, <<"f", "a">>, <<"g", "a">>}
FlowJumps == {NJ,
              J(END, NoJump, NoJump), J("g", NoJump, NoJump), J("a", NoJump, NoJump), J("f", NoJump, NoJump),
              J(NoJump, "a", NoJump), J("zz", NoJump, NoJump), J("a", END, NoJump), J(NoJump, NoJump, END)}
FlowNodes == Nodes(FlowNames, {""}, FlowJumps) \cup Ends({""})
FlowDefs == {StdDefs}

(* smaller variant for the quick tier *)
QFlowNames == {<<"f", "">>, <<"g", "">>, <<"f", "a">>}
QFlowJumps == {NJ, J(END, NoJump, NoJump), J("g", NoJump, NoJump), J("a", NoJump, NoJump), J("f", NoJump, NoJump),
               J(NoJump, "a", NoJump), J(NoJump, NoJump, END)}
QFlowNodes == Nodes(QFlowNames, {""}, QFlowJumps) \cup Ends({""})

(* thorough tier: four nodes over a reduced set of variants *)
Flow4Jumps == {NJ, J(END, NoJump, NoJump), J("g", NoJump, NoJump), J("a", NoJump, NoJump), J(NoJump, "a", NoJump), J("a", END, NoJump)}
Flow4Nodes == Nodes(QFlowNames, {""}, Flow4Jumps) \cup Ends({""})

(* ---- family "endalias": END nodes that carry an alias ------------------------------------------*)
EaJumps == {NJ, J("a", NoJump, NoJump), J(END, NoJump, NoJump), J("g", "a", NoJump)}
EaNodes == Nodes({<<"f", "">>, <<"g", "">>, <<"g", "a">>}, {""}, EaJumps) \cup Ends({"", "a"})

(* ---- family "defs": filter definitions (duplicated, reserved, undefined, unused), default flow --*)
DefsDefs == {<<F("f", "K12")>>, <<F("g", "K1"), F("f", "K12")>>, <<F("f", "K12"), F("f", "K1")>>,
             <<F("f", "K12"), F(END, "K1")>>, <<F(END, "K12")>>, <<F("f", "K1"), F("g", "K12"), F("g", "K12")>>,
             <<F("f", "K1"), F("g", "K12")>>, <<F("g", "K12"), F("f", "K12"), F("h", "K1")>>}
DefsJumps == {NJ, J(END, NoJump, NoJump), J("g", NoJump, NoJump), J(NoJump, "g", NoJump), J(NoJump, END, NoJump)}
DefsNodes == Nodes({<<"f", "">>, <<"g", "">>, <<"h", "x">>}, {""}, DefsJumps) \cup Ends({""})

(* ---- family "bma": before / main / after composition and namespaces ----------------------------*)
BmaJumps == {NJ, J(END, NoJump, NoJump), J("g", NoJump, NoJump)}
BmaNodes == Nodes({<<"f", "">>, <<"g", "">>}, {"", "n1"}, BmaJumps) \cup Ends({""})
BmaSide  == Nodes({<<"f", "">>, <<"g", "">>}, {"", "n1"}, {NJ, J("g", NoJump, NoJump), J(NoJump, END, NoJump)}) \cup Ends({""})

(* quick tier *)
BmaNodesQ == Nodes({<<"f", "">>, <<"g", "">>}, {""}, BmaJumps) \cup Nodes({<<"f", "">>}, {"n1"}, BmaJumps) \cup Ends({""})
BmaSideQ == {N("f", "", "", NJ), N("g", "", "n1", J(END, NoJump, NoJump)), N(END, "", "", NJ)}

(* ---- sampling domain (-simulate): longer flows, valid by construction (OnlyValid) ---------------*)
SimNames == {<<"f", "">>, <<"g", "">>, <<"h", "">>, <<"f", "a">>, <<"g", "a">>, <<"h", "b">>}
SimTargets == {NoJump, END, "f", "g", "h", "a", "b"}
SimJumps == {J(t1, t2, NoJump) : t1 \in SimTargets, t2 \in {NoJump, "b"}}
SimNodes == Nodes(SimNames, {"", "n1", "n2"}, SimJumps) \cup Ends({"", "a"})
SimDefs == {<<F("f", "K12"), F("g", "K1"), F("h", "K12")>>}

(* ---- out ----------------------------------------------------------------------------------------*)
Case == [cfg |-> cfg,
         verdict |-> [sg \in {"b", "m", "a"} |-> Verdict(sg)],
         script |-> Script,
         ran |-> Accepted,
         allowed |-> IF GoodReadings = {} THEN {} ELSE Allowed]

(* `out` is written by a step of its own, from the unprimed state (TLC evaluates a primed operator  *)
(* application without caching its lazy arguments, which makes Run quadratic and worse)            *)
GInit == Init /\ out = ""
Emit  == ph = "done" /\ out = "" /\ out' = ToJson(Case) /\ UNCHANGED vars
GNext == (Next /\ out' = "") \/ Emit
GSpec == GInit /\ [][GNext]_<<vars, out>>
=============================================================================

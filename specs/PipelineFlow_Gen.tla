-------------------------- MODULE PipelineFlow_Gen --------------------------
(* Model-checking / generator wrapper for PipelineFlow (C02).                                       *)
(*   - defines the bounded domains (node variants, filter-definition lists) the cfg files select;    *)
(*   - adds `out`: in every terminal state the JSON description of the case: the configuration,     *)
(*     the result vector that was played, and what the CONTRACT says about it (verdict per spec,    *)
(*     set of allowed outcomes).  `-dump` exports all cases of a bounded domain, `-simulate` samples *)
(*     a larger one.  The harness replays each case on real Pipeline / GlobalFilter objects.        *)
EXTENDS PipelineFlow, Json

VARIABLE out

J(t1, t2, t3) == [r1 |-> t1, r2 |-> t2, r3 |-> t3]
N(f, al, ns, j) == [filter |-> f, alias |-> al, ns |-> ns, jump |-> j]
NJ == J(NoJump, NoJump, NoJump)

Nodes(fas, nss, js) == {N(fa[1], fa[2], ns, j) : fa \in fas, ns \in nss, j \in js}
Ends(als) == {N(END, al, "", NJ) : al \in als}

F(n, k) == [name |-> n, kind |-> k]
StdDefs == <<F("f", "K12"), F("g", "K1")>>

(* ---- family "flow": control flow and jump validation, exhaustive ------------------------------*)
(* f is of kind K12 (results r1, r2), g of kind K1 (r1 only): r2 on g and r3 anywhere are undeclared *)
FlowNames == {<<"f", "">>, <<"g", "">>, <<"f", "a">>, <<"g", "a">>}
FlowJumps == {NJ,
              J(END, NoJump, NoJump), J("g", NoJump, NoJump), J("a", NoJump, NoJump), J("f", NoJump, NoJump),
              J(NoJump, "a", NoJump), J("zz", NoJump, NoJump), J("a", END, NoJump), J(NoJump, NoJump, END)}
FlowNodes == Nodes(FlowNames, {""}, FlowJumps) \cup Ends({""})
FlowDefs == {StdDefs}

(* smaller variant for the quick tier *)
QFlowNames == {<<"f", "">>, <<"g", "">>, <<"f", "a">>}
QFlowJumps == {NJ, J(END, NoJump, NoJump), J("g", NoJump, NoJump), J("a", NoJump, NoJump), J("f", NoJump, NoJump),
               J(NoJump, "a", NoJump), J(NoJump, NoJump, END)}
QFlowNodes == Nodes(QFlowNames, {""}, QFlowJumps) \cup Ends({""})

(* thorough tier: four nodes over a reduced set of variants *)
Flow4Jumps == {NJ, J(END, NoJump, NoJump), J("g", NoJump, NoJump), J("a", NoJump, NoJump), J(NoJump, "a", NoJump), J("a", END, NoJump)}
Flow4Nodes == Nodes(QFlowNames, {""}, Flow4Jumps) \cup Ends({""})

(* ---- family "endalias": END nodes that carry an alias ------------------------------------------*)
EaJumps == {NJ, J("a", NoJump, NoJump), J(END, NoJump, NoJump), J("g", "a", NoJump)}
EaNodes == Nodes({<<"f", "">>, <<"g", "">>, <<"g", "a">>}, {""}, EaJumps) \cup Ends({"", "a"})

(* ---- family "defs": filter definitions (duplicated, reserved, undefined, unused), default flow --*)
DefsDefs == {<<F("f", "K12")>>, <<F("g", "K1"), F("f", "K12")>>, <<F("f", "K12"), F("f", "K1")>>,
             <<F("f", "K12"), F(END, "K1")>>, <<F(END, "K12")>>, <<F("f", "K1"), F("g", "K12"), F("g", "K12")>>,
             <<F("f", "K1"), F("g", "K12")>>, <<F("g", "K12"), F("f", "K12"), F("h", "K1")>>}
DefsJumps == {NJ, J(END, NoJump, NoJump), J("g", NoJump, NoJump), J(NoJump, "g", NoJump), J(NoJump, END, NoJump)}
DefsNodes == Nodes({<<"f", "">>, <<"g", "">>, <<"h", "x">>}, {""}, DefsJumps) \cup Ends({""})

(* ---- family "keys": which jumpIf keys validation accepts -----------------------------------------*)
(* "a spec whose result is not declared by the filter kind is rejected": the keys of a jumpIf map    *)
(* range over a universe of names placed everywhere relative to the declared results of the kinds   *)
(* (K12 = r1 r2, K1 = r1, KC = R1 r1, K0 = nothing): the empty name, a name differing in case only   *)
(* ("R1"), a proper prefix ("r"), an extension that sorts between two declared results ("r11"), a   *)
(* result of another kind ("r2" on K1, "R1" on K12), a name after all declared ones ("r3"); one and  *)
(* two keys per map; every target kind (END, later node, nothing later).  Accepted flows are run    *)
(* with the results "", r1, R1, r2, so that KC's two results are told apart at run time as well.     *)
KeyU == {"", "R1", "r", "r1", "r11", "r2", "r3"}
KeyJumps(keys) == {NJ} \cup {k :> t : k \in keys, t \in {END, "g"}}
                       \cup {("r1" :> END) @@ (k :> "g") : k \in keys \ {"r1"}}
KeyFilters == {<<"f", "">>, <<"g", "">>, <<"h", "">>, <<"k", "">>}
KeyNodes  == Nodes(KeyFilters, {""}, KeyJumps(KeyU)) \cup Ends({""})
KeyDefs   == {<<F("f", "K12"), F("g", "K1"), F("h", "KC"), F("k", "K0")>>}

(* ---- family "bma": before / main / after composition and namespaces ----------------------------*)
BmaJumps == {NJ, J(END, NoJump, NoJump), J("g", NoJump, NoJump)}
BmaNodes == Nodes({<<"f", "">>, <<"g", "">>}, {"", "n1"}, BmaJumps) \cup Ends({""})
BmaSide  == Nodes({<<"f", "">>, <<"g", "">>}, {"", "n1"}, {NJ, J("g", NoJump, NoJump), J(NoJump, END, NoJump)}) \cup Ends({""})
            \cup {N("f", "", "", ("r" :> END))}

(* (the side flows include a jumpIf key the kind does not declare - "r2" on K1, "r" / "R1" on K12 -: *)
(* a GlobalFilter whose before / after specification maps an undeclared result is rejected too)      *)
(* quick tier *)
BmaNodesQ == Nodes({<<"f", "">>, <<"g", "">>}, {""}, BmaJumps) \cup Nodes({<<"f", "">>}, {"n1"}, BmaJumps) \cup Ends({""})
BmaSideQ == {N("f", "", "", NJ), N("g", "", "n1", J(END, NoJump, NoJump)), N(END, "", "", NJ), N("f", "", "", ("R1" :> END))}

(* ---- filter lists of the before / after pipelines ------------------------------------------------*)
(* SameDefs: the side pipelines declare the filters of the main pipeline (families that vary other   *)
(* things).  The degenerate family and the sampling domain vary them: no filter at all, another kind  *)
(* under the same name (results declared per pipeline), a filter the main pipeline does not have.     *)
SameDefs(d) == {d}

(* ---- family "degen": degenerate before / after (and main) pipelines ----------------------------*)
(* "an END anywhere stops all three": flows made of built-in END nodes only - which need no filter -,  *)
(* END first, END twice, END under an alias, next to empty flows and one-filter flows; filter lists   *)
(* that are empty, the main one, or declare f with kind K1 (then r2 is not a result of f there).      *)
(* The outcome the contract allows depends on the configuration only: the GlobalFilter harness also  *)
(* reaches every accepted configuration by an update (GlobalFilter.Inherit) from another accepted one *)
(* - with / without a before or after pipeline, with / without filters - and judges it the same way. *)
DegDefs     == {StdDefs, <<>>}
DegSideDefs(d) == {<<>>, StdDefs, <<F("f", "K1")>>}
DegNodesM   == {N("f", "", "", NJ), N("g", "", "", J(END, NoJump, NoJump)), N(END, "", "", NJ)}
DegNodesB   == {N(END, "", "", NJ), N(END, "a", "", NJ), N("f", "", "", NJ), N("f", "", "n1", J(NoJump, END, NoJump))}
DegNodesA   == {N(END, "", "", NJ), N("f", "", "", NJ), N("g", "", "", NJ)}
(* quick tier: fewer variants of the after pipeline *)
DegSideDefsQ(d) == {<<>>, StdDefs}
DegNodesAQ  == {N(END, "", "", NJ), N("f", "", "", NJ)}

(* ---- sampling domain (-simulate): longer flows, valid by construction (OnlyValid) ---------------*)
(* k is of kind KC (results R1 and r1, differing only in case): its two results are mapped to       *)
(* different targets and told apart at run time                                                     *)
SimNames == {<<"f", "">>, <<"g", "">>, <<"h", "">>, <<"f", "a">>, <<"g", "a">>, <<"h", "b">>, <<"k", "">>}
SimTargets == {NoJump, END, "f", "g", "h", "a", "b"}
SimJumps == {J(t1, t2, NoJump) : t1 \in SimTargets, t2 \in {NoJump, "b"}}
            \cup {("R1" :> t) @@ J(t1, NoJump, NoJump) : t \in {END, "b", "g"}, t1 \in {NoJump, "a"}}
SimNodes == Nodes(SimNames, {"", "n1", "n2"}, SimJumps) \cup Ends({"", "a"})
SimDefs == {<<F("f", "K12"), F("g", "K1"), F("h", "K12"), F("k", "KC")>>}
(* side pipelines: the same filters, none (only END nodes keep such a flow valid), fewer and of other kinds *)
SimSideDefs(d) == {d, <<>>, <<F("g", "K12"), F("f", "K1")>>}

(* ---- out ----------------------------------------------------------------------------------------*)
Case == [cfg |-> cfg,
         verdict |-> [sg \in {"b", "m", "a"} |-> Verdict(sg)],
         script |-> Script,
         ran |-> Accepted,
         allowed |-> IF GoodReadings = {} THEN {} ELSE Allowed]

(* `out` is written by a step of its own, from the unprimed state (TLC evaluates a primed operator  *)
(* application without caching its lazy arguments, which makes Run quadratic and worse)            *)
GInit == Init /\ out = ""
Emit  == ph = "done" /\ out = "" /\ out' = ToJson(Case) /\ UNCHANGED vars
GNext == (Next /\ out' = "") \/ Emit
GSpec == GInit /\ [][GNext]_<<vars, out>>
=============================================================================

------------------------- MODULE PipelineFlow_Trace -------------------------
(* Trace validation for C02: executions of real Pipeline objects (seeded random larger flows,       *)
(* before/after pipelines, random result vectors) recorded by the harness are validated against   *)
(* the CONTRACT (PipelineFlow_Contract) only.  Events:                                              *)
(*   cfg    the three specifications and the verdict of the real validation for each               *)
(*   visit  one filter invocation: pipeline, filter, node name (from the stats tag), namespace the  *)
(*          filter saw, result it returned                                                          *)
(*   end    the request is over: value returned by Handle / HandleWithBeforeAfter                   *)
(* The validator keeps, per reading of the contract that accepts the configuration, the cursor of  *)
(* the reference execution; an event no surviving reading explains stops the validation (the        *)
(* high-water mark then names the first event the contract does not allow).                        *)
EXTENDS PipelineFlow_Contract, Json, TLC, IOUtils

TLog == ndJsonDeserialize(IOEnv.VERIF_TRACE)

VARIABLES l,     \* next trace line
          tcfg,  \* configuration of the current segment of the log
          live,  \* a request can be handled (all specifications were accepted)
          cur,   \* reading -> cursor of the reference execution, for the readings still consistent
          obs,   \* reading -> invocations of the current request, as the contract numbers them
          fin    \* the request just ended (obs is complete)

tvars == <<l, tcfg, live, cur, obs, fin>>

IsEvent(e) == l <= Len(TLog) /\ TLog[l].ev = e /\ l' = l + 1

EmptyCfg == [defs |-> <<>>, db |-> <<>>, da |-> <<>>, hasB |-> FALSE, hasA |-> FALSE, b |-> <<>>, m |-> <<>>, a |-> <<>>]
NoCur == [rd \in {} |-> Done]

Start(c) == [rd \in GoodReadingsC(c) |-> Enter(SegsOf(c), 1)]
NoObs(c) == [rd \in GoodReadingsC(c) |-> <<>>]

(* a configuration is submitted: what is valid under every reading was accepted, what is invalid  *)
(* under every reading was rejected, and if all three were accepted some reading accepts all three *)
TCfg ==
    /\ IsEvent("cfg")
    /\ LET c == TLog[l].cfg
           ac == TLog[l].acc IN
       /\ \A sg \in {"b", "m", "a"} : Used(c, sg) =>
             /\ MustAcceptC(c, sg) => ac[sg]
             /\ MustRejectC(c, sg) => ~ac[sg]
       /\ tcfg' = c
       /\ live' = \A sg \in {"b", "m", "a"} : Used(c, sg) => ac[sg]
       /\ live' => GoodReadingsC(c) # {}
       /\ cur' = IF live' THEN Start(c) ELSE NoCur
       /\ obs' = IF live' THEN NoObs(c) ELSE NoCur
    /\ fin' = FALSE

Matches(v, e) == v.seg = e.seg /\ v.filter = e.filter /\ v.name = e.name /\ v.ns = e.ns

(* a filter was invoked: it is the invocation the reference execution performs next *)
TVisit ==
    /\ IsEvent("visit") /\ live
    /\ LET e == TLog[l]
           segs == SegsOf(tcfg)
           base == IF fin THEN Start(tcfg) ELSE cur          \* first invocation of the next request
           ob   == IF fin THEN NoObs(tcfg) ELSE obs
           ok == {rd \in DOMAIN base : base[rd] # Done /\ Matches(Visit(segs, base[rd], e.res), e)} IN
       /\ ok # {}
       /\ cur' = [rd \in ok |-> Step(rd, segs, base[rd], e.res)]
       /\ obs' = [rd \in ok |-> Append(ob[rd], Visit(segs, base[rd], e.res))]
    /\ fin' = FALSE
    /\ UNCHANGED <<tcfg, live>>

(* the request is over: the reference execution is over too, and the result is that of the last   *)
(* filter run                                                                                      *)
TEnd ==
    /\ IsEvent("end") /\ live
    /\ LET base == IF fin THEN Start(tcfg) ELSE cur
           ob   == IF fin THEN NoObs(tcfg) ELSE obs
           ok == {rd \in DOMAIN base : base[rd] = Done /\ LastRes(ob[rd]) = TLog[l].result} IN
       /\ ok # {}
       /\ cur' = [rd \in ok |-> Done]
       /\ obs' = [rd \in ok |-> ob[rd]]
    /\ fin' = TRUE
    /\ UNCHANGED <<tcfg, live>>

TNext == TCfg \/ TVisit \/ TEnd

TInit == l = 1 /\ tcfg = EmptyCfg /\ live = FALSE /\ cur = NoCur /\ obs = NoCur /\ fin = FALSE

TSpec == TInit /\ [][TNext]_tvars

(* the clauses of the property, evaluated on every completed observed run *)
ObservedClauses ==
    fin => \A rd \in DOMAIN obs :
              LET segs == SegsOf(tcfg) v == obs[rd] IN
              /\ ClauseForward(segs, v) /\ ClauseNamespace(segs, v) /\ ClauseJump(rd, segs, v)
              /\ ClauseEnd(segs, v) /\ ClauseSequential(segs, v)

ASSUME TLCSet(1, 0)
HWM == TLCSet(1, IF l - 1 > TLCGet(1) THEN l - 1 ELSE TLCGet(1))
Accepted == /\ PrintT(<<"VERIF_HWM", TLCGet(1), Len(TLog)>>)
            /\ TLCGet(1) = Len(TLog)
=============================================================================

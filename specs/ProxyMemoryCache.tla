-------------------------- MODULE ProxyMemoryCache --------------------------
(* Growth item X02 (DESIGN 9.3): the Proxy's in-memory response cache                            *)
(* (pkg/filters/proxy/memorycache.go, ServerPool.buildResponseFromCache / doHandle).             *)
(*                                                                                              *)
(* Implementation-shaped: the cache is keyed by scheme+host+path+method exactly as              *)
(* MemoryCache.key builds it (the query string is NOT part of the key).  Contract: what a client *)
(* may be served from the cache.                                                                *)
EXTENDS Integers, Sequences, FiniteSets

CONSTANTS CMethods,   \* methods the cache is configured for
          CCodes,     \* status codes the cache is configured for
          MaxBytes,   \* maxEntryBytes
          Expire,     \* expiration in ticks
          MaxSteps

Methods == {"GET", "POST"}
Paths   == {"/a", "/b"}
Queries == {"", "x=1"}
ReqCC   == {"none", "no-cache", "no-store"}
RespCC  == {"none", "no-store", "must-revalidate"}
Codes   == {200, 404, 500}
Sizes   == {1, 9}

Reqs  == [m : Methods, path : Paths, q : Queries, cc : ReqCC]
Resps == [code : Codes, size : Sizes, cc : RespCC]

VARIABLES cache,   \* key -> [resp, id, at, req]   (id = identity of the backend response body)
          now, steps, nextId,
          last     \* observation of the step just taken

vars == <<cache, now, steps, nextId, last>>
view == <<cache, now, steps, nextId>>

Key(r) == <<r.path, r.m>>                      \* as MemoryCache.key (scheme and host are fixed in the model)

Live(k) == k \in DOMAIN cache /\ now - cache[k].at < Expire

Loadable(r) == r.m \in CMethods /\ r.cc # "no-cache" /\ Live(Key(r))

Storable(r, b) ==
    /\ b.size <= MaxBytes
    /\ r.m \in CMethods
    /\ b.code \in CCodes
    /\ r.cc = "none"
    /\ b.cc = "none"

Init == cache = <<>> /\ now = 0 /\ steps = 0 /\ nextId = 1 /\ last = [a |-> "init"]

Put(f, k, v) == [x \in DOMAIN f \cup {k} |-> IF x = k THEN v ELSE f[x]]

(* one client request; b is what the backend would answer if contacted *)
Handle(r, b) ==
    /\ steps < MaxSteps /\ steps' = steps + 1
    /\ IF Loadable(r)
       THEN /\ last' = [a |-> "req", req |-> r, resp |-> b, hit |-> TRUE, code |-> cache[Key(r)].resp.code,
                        id |-> cache[Key(r)].id, from |-> cache[Key(r)].req]
            /\ UNCHANGED <<cache, nextId>>
       ELSE /\ last' = [a |-> "req", req |-> r, resp |-> b, hit |-> FALSE, code |-> b.code, id |-> nextId, from |-> r]
            /\ nextId' = nextId + 1
            /\ cache' = IF Storable(r, b) THEN Put(cache, Key(r), [resp |-> b, id |-> nextId, at |-> now, req |-> r])
                        ELSE cache
    /\ UNCHANGED now

Tick == /\ steps < MaxSteps /\ steps' = steps + 1
        /\ now' = now + Expire
        /\ last' = [a |-> "tick"]
        /\ UNCHANGED <<cache, nextId>>

Next == Tick \/ \E r \in Reqs, b \in Resps : Handle(r, b)
Spec == Init /\ [][Next]_vars

-----------------------------------------------------------------------------
(* Contract: what may be served from the cache. *)
HitOnlyIfAllowed ==
    [][(last'.a = "req" /\ last'.hit) =>
          /\ last'.req.m \in CMethods /\ last'.req.cc # "no-cache"
          /\ last'.from.m = last'.req.m /\ last'.from.path = last'.req.path]_vars

StoredOnlyIfEligible ==
    \A k \in DOMAIN cache : Storable(cache[k].req, cache[k].resp)

(* the ideal a user expects and the code does not give: a cached response answers the same query *)
HitSameQuery == [][(last'.a = "req" /\ last'.hit) => last'.from.q = last'.req.q]_vars
=============================================================================

------------------------ MODULE ProxyMemoryCache_Gen ------------------------
EXTENDS ProxyMemoryCache, Json
VARIABLE out
GInit == Init /\ out = ToJson([a |-> "init"])
GNext == Next /\ out' = ToJson(last')
GSpec == GInit /\ [][GNext]_<<vars, out>>
=============================================================================

------------------------------ MODULE ProxyMsg ------------------------------
(* C03.  HTTP exchanges through easegress: client -> net/http server -> mux -> RequestAdaptor?     *)
(* -> Proxy -> backend and back through Transport -> compression -> FetchPayload -> (memory cache)  *)
(* -> ResponseAdaptor? -> mux write-out -> client.  One action per stage of the code path (the      *)
(* stage operators and the contract are in ProxyMsgDefs).                                          *)
(*                                                                                                *)
(* A behaviour explores ONE direction for one scenario of that direction (the two directions are   *)
(* independent in the code: nothing of the request except its method HEAD and its Accept-Encoding  *)
(* influences the response path; both are scenario fields of the response direction), the other    *)
(* direction runs its default scenario.  A response scenario with a memory cache is a SEQUENCE of   *)
(* RespK identical requests to the same proxy instance: the first one is answered by the backend    *)
(* and stored (unless it is a stream or a failure), the following ones are answered from the cache  *)
(* entry.  TLC enumerates every scenario (Init) and checks that EVERY completed exchange satisfies  *)
(* every clause of the contract.                                                                    *)
(*                                                                                                *)
(* Fixed = the defects modelled as repaired.  The registered model-checking run uses the repaired  *)
(* model (all of them); runs with one defect left in are expected to VIOLATE the contract - they    *)
(* are the design-level leads which the harness reproduces on the real code ("CLONE" and "MULTI"   *)
(* are negative controls: the pinned code does copy the header of a cache entry, and its gunzip     *)
(* reader reads every member of a gzip body).                                                       *)
EXTENDS ProxyMsgDefs

CONSTANTS Fixed,      \* subset of AllFixed
          ReqSpace,   \* request scenarios explored  (ReqScn, or ReqScnQuick)
          RespSpace   \* response scenarios explored (RespScn, or RespScnQuick)

VARIABLES dir,   \* "req" | "resp": the direction explored
          rs,    \* request scenario
          ps,    \* response scenario
          pc,    \* next stage
          m,     \* the message in flight (shape depends on the stage)
          bs,    \* the requests the backends received so far for the current request (one per attempt)
          att,   \* number of the current attempt
          k,     \* number of the current request in the sequence
          mc,    \* the entry of the pool's memory cache (NoEntry: nothing stored)
          hit    \* the current request is answered from the cache

vars == <<dir, rs, ps, pc, m, bs, att, k, mc, hit>>

Init ==
    /\ k = 1 /\ mc = NoEntry /\ hit = FALSE /\ m = [none |-> TRUE] /\ att = 1
    /\ \/ /\ dir = "req" /\ rs \in ReqSpace /\ ps = DefaultRespScn
          /\ pc = "ClientSend" /\ bs = {}
       \/ /\ dir = "resp" /\ rs = DefaultReqScn /\ ps \in RespSpace
          /\ pc = "CacheLookup" /\ bs = {}

Step(from, to, msg) == pc = from /\ pc' = to /\ m' = msg /\ UNCHANGED <<dir, rs, ps, bs, att, k, mc, hit>>

ClientSend      == Step("ClientSend", "MuxFetch", ClientReq(rs))
MuxFetch        == Step("MuxFetch", "ReqAdaptor", S_Server(m, rs))
ReqAdaptor      == Step("ReqAdaptor", "ProxyPrepare", S_ReqAdaptor(m, rs, Fixed))
(* one attempt of ServerPool.doHandle: prepareRequest + send.  A URL that does not parse fails every
   attempt the same way (500 built by the pool, nothing is sent).  The first rs.fails attempts are
   answered with a failure by the backend and the retry wrapper calls the handler again. *)
ProxyPrepare    == /\ pc = "ProxyPrepare"
                   /\ LET b == S_Prepare(m, rs, Fixed, att) IN
                      IF ~b.reached THEN pc' = "MuxWrite" /\ m' = Failure500 /\ UNCHANGED <<bs, att>>
                      ELSE /\ bs' = bs \cup {b}
                           /\ IF att <= rs.fails THEN pc' = "ProxyPrepare" /\ att' = att + 1 /\ m' = m      \* retry
                              ELSE pc' = "ClientRecv" /\ m' = RunResp(ps, Fixed) /\ att' = att          \* default response, in one step
                   /\ UNCHANGED <<dir, rs, ps, k, mc, hit>>
(* ServerPool.handle: buildResponseFromCache first.  (response direction: the default request is
   delivered in one step when the backend is asked) *)
CacheLookup     == /\ pc = "CacheLookup"
                   /\ IF ps.cache /\ ~mc.none
                      THEN hit' = TRUE /\ bs' = {} /\ m' = FromCache(mc) /\ pc' = "RespAdaptor"
                      ELSE hit' = FALSE /\ bs' = RunReq(rs, Fixed) /\ m' = m /\ pc' = "BackendSend"
                   /\ UNCHANGED <<dir, rs, ps, att, k, mc>>
BackendSend     == Step("BackendSend", "TransportDecode", BackendResp(ps))
TransportDecode == Step("TransportDecode", "ProxyCompress", S_Transport(m, ps))
ProxyCompress   == Step("ProxyCompress", "RespFetch", S_Compress(m, ps, Fixed))
RespFetch       == Step("RespFetch", "CacheStore", S_Fetch(m, ps, Fixed))
(* ServerPool.doHandle: memoryCache.Store after buildResponse succeeded *)
CacheStore      == /\ pc = "CacheStore" /\ pc' = "RespAdaptor"
                   /\ mc' = IF Storable(m, ps) THEN EntryOf(m) ELSE mc
                   /\ UNCHANGED <<dir, rs, ps, m, bs, att, k, hit>>
(* the filters behind the Proxy; for a hit they may write into the entry (negative control) *)
RespAdaptor     == /\ pc = "RespAdaptor" /\ pc' = "MuxWrite" /\ m' = S_RespAdaptor(m, ps, Fixed)
                   /\ mc' = IF hit THEN AfterHit(mc, m', Fixed) ELSE mc
                   /\ UNCHANGED <<dir, rs, ps, bs, att, k, hit>>
MuxWrite        == Step("MuxWrite", "ClientRecv", S_Write(m, ps, Fixed))
ClientRecv      == pc = "ClientRecv" /\ pc' = "done" /\ UNCHANGED <<dir, rs, ps, m, bs, att, k, mc, hit>>
(* the next identical request of the sequence *)
NextReq         == /\ pc = "done" /\ dir = "resp" /\ k < Reqs(ps)
                   /\ k' = k + 1 /\ pc' = "CacheLookup" /\ m' = [none |-> TRUE] /\ bs' = {} /\ hit' = FALSE
                   /\ UNCHANGED <<dir, rs, ps, att, mc>>

Next == ClientSend \/ MuxFetch \/ ReqAdaptor \/ ProxyPrepare \/ CacheLookup \/ BackendSend \/ TransportDecode
        \/ ProxyCompress \/ RespFetch \/ CacheStore \/ RespAdaptor \/ MuxWrite \/ ClientRecv \/ NextReq

Spec == Init /\ [][Next]_vars

(* the exchange once it is complete *)
X == [cfg |-> Cfg(rs, ps, k), c |-> CAbs(ClientReq(rs)), bs |-> bs, times |-> Cardinality(bs),
      br |-> BRAbs(BackendResp(ps), ps), cr |-> m]

(* ---- the property ---- *)
Done == pc = "done"
Faithful      == Done => Violated(X) = {}
(* the clauses one by one (so that a counterexample names the clause) *)
Reaches       == Done => C_Reach(X)
PathUnchanged == Done => \A b \in bs : C_Path(X, b) /\ C_Query(X, b) /\ C_Method(X, b)
BodyUnchanged == Done => \A b \in bs : C_ReqBody(X, b)
HopStripped   == Done => \A b \in bs : C_ReqHop(X, b) /\ C_ReqE2E(X, b)
HostRule      == Done => \A b \in bs : C_Host(X, b)
StatusKept    == Done /\ C_Reach(X) /\ ~ps.short => C_Status(X)
ContentKept   == Done /\ C_Reach(X) /\ ~ps.short /\ C_Status(X) => C_Content(X) /\ C_RespE2E(X)
(* a bodiless answer (HEAD, 304) carries the backend's Content-Length (unless the proxy recoded / replaced the body) *)
BodilessLength == Done /\ C_Reach(X) /\ ~ps.short /\ C_Status(X) => C_RespLen(X)
WellFramed    == Done /\ ~ps.short => C_Framed(X)
NoTruncatedSuccess == Done => ~C_Truncated(X)
(* a hit is answered like the miss before it *)
HitLikeMiss   == Done /\ hit => X.cr = RunResp(ps, Fixed)

(* the step-wise machine computes the same exchange as the composed stage operators, which the
   vector generator (ProxyMsg_Gen) uses *)
Composed      == Done => X = ExchangeK(rs, ps, Fixed, k)

AllFixed == {"F5", "F6", "F7", "HEAD", "METRIC", "ABORT", "CLONE", "MULTI"}
=============================================================================

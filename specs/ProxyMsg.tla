------------------------------ MODULE ProxyMsg ------------------------------
(* C03.  One HTTP exchange through easegress: client -> net/http server -> mux -> RequestAdaptor?  *)
(* -> Proxy -> backend and back through Transport -> compression -> FetchPayload ->               *)
(* ResponseAdaptor? -> mux write-out -> client.  One action per stage of the code path (the        *)
(* stage operators and the contract are in ProxyMsgDefs).                                          *)
(*                                                                                                *)
(* A behaviour explores ONE direction for one scenario of that direction (the two directions are   *)
(* independent in the code: nothing of the request except its method HEAD and its Accept-Encoding  *)
(* influences the response path; both are scenario fields of the response direction), the other    *)
(* direction runs its default scenario.  TLC enumerates every scenario (Init) and checks that the  *)
(* completed exchange satisfies every clause of the contract.                                      *)
(*                                                                                                *)
(* Fixed = the defects modelled as repaired.  The registered model-checking run uses the repaired  *)
(* model (all five); runs with one defect left in are expected to VIOLATE the contract - they are   *)
(* the design-level leads which the harness reproduces on the real code.                           *)
EXTENDS ProxyMsgDefs

CONSTANTS Fixed,      \* subset of {"F5", "F6", "F7", "HEAD", "METRIC"}
          ReqSpace,   \* request scenarios explored  (ReqScn, or ReqScnQuick)
          RespSpace   \* response scenarios explored (RespScn, or RespScnQuick)

VARIABLES dir,   \* "req" | "resp": the direction explored
          rs,    \* request scenario
          ps,    \* response scenario
          pc,    \* next stage
          m,     \* the message in flight (shape depends on the stage)
          bs,    \* the requests the backends received so far (one per attempt)
          att    \* number of the current attempt

vars == <<dir, rs, ps, pc, m, bs, att>>

Init ==
    \/ /\ dir = "req" /\ rs \in ReqSpace /\ ps = DefaultRespScn
       /\ pc = "ClientSend" /\ m = [none |-> TRUE] /\ bs = {} /\ att = 1
    \/ /\ dir = "resp" /\ rs = DefaultReqScn /\ ps \in RespSpace       \* the default request, in one step
       /\ pc = "BackendSend" /\ m = [none |-> TRUE] /\ bs = RunReq(rs, Fixed) /\ att = 1

Step(from, to, msg) == pc = from /\ pc' = to /\ m' = msg /\ UNCHANGED <<dir, rs, ps, bs, att>>

ClientSend      == Step("ClientSend", "MuxFetch", ClientReq(rs))
MuxFetch        == Step("MuxFetch", "ReqAdaptor", S_Server(m, rs))
ReqAdaptor      == Step("ReqAdaptor", "ProxyPrepare", S_ReqAdaptor(m, rs))
(* one attempt of ServerPool.doHandle: prepareRequest + send.  A URL that does not parse fails every
   attempt the same way (500 built by the pool, nothing is sent).  The first rs.fails attempts are
   answered with a failure by the backend and the retry wrapper calls the handler again. *)
ProxyPrepare    == /\ pc = "ProxyPrepare"
                   /\ LET b == S_Prepare(m, rs, Fixed, att) IN
                      IF ~b.reached THEN pc' = "MuxWrite" /\ m' = Failure500 /\ UNCHANGED <<bs, att>>
                      ELSE /\ bs' = bs \cup {b}
                           /\ IF att <= rs.fails THEN pc' = "ProxyPrepare" /\ att' = att + 1 /\ m' = m      \* retry
                              ELSE IF dir = "resp" THEN pc' = "BackendSend" /\ m' = m /\ att' = att
                              ELSE pc' = "ClientRecv" /\ m' = RunResp(ps, Fixed) /\ att' = att          \* default response, in one step
                   /\ UNCHANGED <<dir, rs, ps>>
BackendSend     == Step("BackendSend", "TransportDecode", BackendResp(ps))
TransportDecode == Step("TransportDecode", "ProxyCompress", S_Transport(m, ps))
ProxyCompress   == Step("ProxyCompress", "RespFetch", S_Compress(m, ps, Fixed))
RespFetch       == Step("RespFetch", "RespAdaptor", S_Fetch(m, ps, Fixed))
RespAdaptor     == Step("RespAdaptor", "MuxWrite", S_RespAdaptor(m, ps, Fixed))
MuxWrite        == Step("MuxWrite", "ClientRecv", S_Write(m, ps))
ClientRecv      == pc = "ClientRecv" /\ pc' = "done" /\ UNCHANGED <<dir, rs, ps, m, bs, att>>

Next == ClientSend \/ MuxFetch \/ ReqAdaptor \/ ProxyPrepare \/ BackendSend \/ TransportDecode
        \/ ProxyCompress \/ RespFetch \/ RespAdaptor \/ MuxWrite \/ ClientRecv

Spec == Init /\ [][Next]_vars

(* the exchange once it is complete *)
X == [cfg |-> Cfg(rs, ps), c |-> CAbs(ClientReq(rs)), bs |-> bs, times |-> Cardinality(bs),
      br |-> BRAbs(BackendResp(ps), ps), cr |-> m]

(* ---- the property ---- *)
Done == pc = "done"
Faithful      == Done => Violated(X) = {}
(* the clauses one by one (so that a counterexample names the clause) *)
Reaches       == Done => C_Reach(X)
PathUnchanged == Done => \A b \in bs : C_Path(X, b) /\ C_Query(X, b) /\ C_Method(X, b)
BodyUnchanged == Done => \A b \in bs : C_ReqBody(X, b)
HopStripped   == Done => \A b \in bs : C_ReqHop(X, b) /\ C_ReqE2E(X, b)
HostRule      == Done => \A b \in bs : C_Host(X, b)
StatusKept    == Done /\ C_Reach(X) => C_Status(X)
ContentKept   == Done /\ C_Reach(X) /\ C_Status(X) => C_Content(X) /\ C_RespE2E(X)
WellFramed    == Done => C_Framed(X)

(* the step-wise machine computes the same exchange as the composed stage operators, which the
   vector generator (ProxyMsg_Gen) uses *)
Composed      == Done => X = Exchange(rs, ps, Fixed)

AllFixed == {"F5", "F6", "F7", "HEAD", "METRIC"}
=============================================================================

---------------------------- MODULE ProxyMsgDefs ----------------------------
(* C03 (and the message part of C07).  Operator library of the ProxyMsg specification:         *)
(*                                                                                              *)
(*  Part 1  strings as sequences of byte codes; percent-decoding; the part of Go's net/url      *)
(*          that the proxy depends on (setPath / EscapedPath / Parse)                           *)
(*  Part 2  the CONTRACT: the clauses of property C03 as predicates over one exchange           *)
(*              x = [cfg, c (client request), b (what the backend received),                    *)
(*                   br (what the backend answered), cr (what the client received)]             *)
(*          The same predicates are evaluated on exchanges produced by the model (Part 3) and   *)
(*          on exchanges observed on the real code over sockets (ProxyMsg_Trace).               *)
(*  Part 3  the IMPLEMENTATION-SHAPED layer: one operator per stage of the code path            *)
(*          client -> net/http server -> mux.serveHTTP/FetchPayload -> RequestAdaptor.Handle    *)
(*          -> prepareRequest/cloneHeader -> http.Transport -> backend -> Transport (transparent *)
(*          gunzip) -> compression.compress -> Response.FetchPayload -> ResponseAdaptor.Handle   *)
(*          -> mux write-out -> net/http server framing -> client.                               *)
(*          `Fixed` selects which of the defects found on the pinned tree are modelled as        *)
(*          repaired; with Fixed = {} the operators describe the pinned code, and TLC finds the  *)
(*          contract violations (see ProxyMsg.tla):                                              *)
(*            "F5"     compression.compress replaces the body but keeps Response.ContentLength   *)
(*            "F6"     ResponseAdaptor `body:` keeps the backend's Content-Length header          *)
(*            "F7"     prepareRequest builds the URL text from the decoded URL.Path               *)
(*            "HEAD"   FetchPayload reads ContentLength bytes from the bodiless answer to a HEAD  *)
(*            "METRIC" collectMetrics assumes stdResp.Body is the CallbackReader; after           *)
(*                     compression it is the gzip reader => nil dereference for stream responses  *)
(*            "ABORT"  mux write-out ignores the error of io.Copy: a streamed body that breaks off *)
(*                     after its length header was dropped is sent as a complete chunked message  *)
(*          and one negative control (never present in the pinned tree):                          *)
(*            "CLONE"  a memory-cache hit gets a copy of the entry's header; without it the        *)
(*                     filters behind the Proxy write into the cached entry                       *)
(*            "MULTI"  the gunzip reader of the adaptors (readers.GZipDecompressReader) reads ALL    *)
(*                     members of a gzip body (RFC 1952: a gzip file is a series of members);       *)
(*                     without it it stops after the first member and delivers a prefix             *)
(*                                                                                              *)
(* What "path unchanged" means (property text: "the backend receives the client's method, path, *)
(* raw query ... unchanged"):  the request-target is split at the first "?"; the raw query must  *)
(* be byte-identical; the path must be identical AFTER percent-decoding both sides (C_Path).    *)
(* A proxy that normalises "%41" to "A" or "%2F" to "/" therefore does not violate the contract; *)
(* one that turns "%3F" into a query delimiter, drops "%23..." as a fragment, decodes twice, or  *)
(* cannot forward "%25" at all does.                                                             *)
EXTENDS Integers, Sequences, FiniteSets

Range(s) == {s[i] : i \in 1..Len(s)}

(* ------------------------------------------------------------------------------------------ *)
(* Part 1: byte strings and net/url                                                             *)

IndexOf(s, c) == IF \E i \in 1..Len(s) : s[i] = c
                 THEN CHOOSE i \in 1..Len(s) : s[i] = c /\ \A j \in 1..(i-1) : s[j] # c
                 ELSE 0

PathOf(t)  == IF IndexOf(t, 63) = 0 THEN t ELSE SubSeq(t, 1, IndexOf(t, 63) - 1)
QueryOf(t) == IF IndexOf(t, 63) = 0 THEN <<>> ELSE SubSeq(t, IndexOf(t, 63) + 1, Len(t))

IsHex(c)  == c \in 48..57 \/ c \in 65..70 \/ c \in 97..102
HexVal(c) == IF c <= 57 THEN c - 48 ELSE IF c <= 70 THEN c - 55 ELSE c - 87
HexChr(n) == IF n < 10 THEN 48 + n ELSE 55 + n

(* percent-decoding; a "%" that does not start an escape is taken literally *)
RECURSIVE PctDecode(_)
PctDecode(s) ==
    IF s = <<>> THEN <<>>
    ELSE IF s[1] = 37 /\ Len(s) >= 3 /\ IsHex(s[2]) /\ IsHex(s[3])
         THEN <<16 * HexVal(s[2]) + HexVal(s[3])>> \o PctDecode(SubSeq(s, 4, Len(s)))
         ELSE <<s[1]>> \o PctDecode(Tail(s))

ValidPct(s) == \A i \in 1..Len(s) : s[i] = 37 => (i + 2 <= Len(s) /\ IsHex(s[i+1]) /\ IsHex(s[i+2]))
HasCTL(s)   == \E i \in 1..Len(s) : s[i] < 32 \/ s[i] = 127

IsAlnum(c) == c \in 48..57 \/ c \in 65..90 \/ c \in 97..122
(* url.shouldEscape(c, encodePath) *)
GoShouldEscape(c) == ~(IsAlnum(c) \/ c \in {45, 95, 46, 126} \/ c \in {36, 38, 43, 44, 47, 58, 59, 61, 64})

RECURSIVE GoEscape(_)
GoEscape(p) == IF p = <<>> THEN <<>>
               ELSE (IF GoShouldEscape(p[1]) THEN <<37, HexChr(p[1] \div 16), HexChr(p[1] % 16)>> ELSE <<p[1]>>)
                    \o GoEscape(Tail(p))

(* url.validEncoded(s, encodePath) *)
GoValidEncoded(s) == \A i \in 1..Len(s) :
    s[i] \in {33, 36, 38, 39, 40, 41, 42, 43, 44, 59, 61, 58, 64, 91, 93, 37} \/ ~GoShouldEscape(s[i])

(* url.URL as far as needed: Path (decoded), RawPath (only kept when it is not the default encoding), RawQuery *)
GoEscapedPath(u) ==
    IF u.raw # <<>> /\ GoValidEncoded(u.raw) /\ ValidPct(u.raw) /\ PctDecode(u.raw) = u.path
    THEN u.raw ELSE GoEscape(u.path)

(* url.Parse (via = FALSE: a "#" starts the fragment) / url.ParseRequestURI (via = TRUE) of the
   path-and-query part of a URL *)
GoParse(s, via) ==
    LET s1   == IF via \/ IndexOf(s, 35) = 0 THEN s ELSE SubSeq(s, 1, IndexOf(s, 35) - 1)
        qi   == IndexOf(s1, 63)
        rest == IF qi = 0 THEN s1 ELSE SubSeq(s1, 1, qi - 1)
        rq   == IF qi = 0 THEN <<>> ELSE SubSeq(s1, qi + 1, Len(s1))
    IN IF HasCTL(s1) \/ ~ValidPct(rest)
       THEN [ok |-> FALSE, path |-> <<>>, raw |-> <<>>, query |-> <<>>]
       ELSE [ok |-> TRUE, path |-> PctDecode(rest),
             raw |-> IF rest = GoEscape(PctDecode(rest)) THEN <<>> ELSE rest, query |-> rq]

(* URL.RequestURI() *)
GoRequestURI(u) == (IF GoEscapedPath(u) = <<>> THEN <<47>> ELSE GoEscapedPath(u))
                   \o (IF u.query # <<>> THEN <<63>> \o u.query ELSE <<>>)

(* ------------------------------------------------------------------------------------------ *)
(* Part 2: the contract                                                                         *)
(*                                                                                              *)
(* messages:  hdr  = set of [n: lower-case name, v: sequence of values in wire order]            *)
(*            conn = set of (lower-case) tokens of the Connection header                          *)
(*            body = [raw, len, label, dec, decok]: identity of the bytes, their number, the      *)
(*                   Content-Encoding label, identity of the content once a gzip label is undone, *)
(*                   and whether that was possible (raw/dec are only ever compared for equality)  *)

HopFixed == {"connection", "keep-alive", "proxy-connection", "proxy-authenticate", "proxy-authorization",
             "te", "trailer", "transfer-encoding", "upgrade"}
Hop(m) == HopFixed \cup m.conn

(* connection options that every HTTP/1.1 hop may legitimately send itself *)
ConnGeneric == {"close", "keep-alive"}

(* headers governed by other clauses (Host rule, framing, content coding) *)
ReqSkip  == {"host", "content-length", "content-encoding"}
RespSkip == {"content-length", "content-encoding"}

RECURSIVE IsSubseq(_, _)
IsSubseq(a, b) == IF a = <<>> THEN TRUE
                  ELSE IF b = <<>> THEN FALSE
                  ELSE IF Head(a) = Head(b) THEN IsSubseq(Tail(a), Tail(b)) ELSE IsSubseq(a, Tail(b))

(* An exchange x also carries  bs = the set of requests the backends received (one per attempt: with
   a retry policy the pool may select a backend several times; each record has n = attempt number,
   via = host:port of the server url it arrived at) and times = their number.                      *)

(* "the selected backend receives the client's ...": at least one request arrives, and no more than
   the configured attempts (1 without a retry policy).  cfg.mayHit: the pool has a memory cache and an
   identical request was answered before on the same pool - then the answer may come from the cache and
   no backend is selected (the text says nothing about when a cache hits: both are admitted) *)
C_Reach(x)  == (x.times >= 1 \/ x.cfg.mayHit) /\ x.times <= x.cfg.maxAttempts
C_Method(x, b) == b.method = x.c.method
C_Path(x, b)   == PctDecode(PathOf(b.target)) = PctDecode(PathOf(x.c.target))
C_Query(x, b)  == QueryOf(b.target) = QueryOf(x.c.target)

(* body bytes unchanged; when a RequestAdaptor is configured to replace / compress / decompress the
   body, the content (label undone) must be the configured body resp. the client's content *)
C_ReqBody(x, b) ==
    LET exp == IF x.cfg.raReplaces THEN x.cfg.raBody ELSE x.c.body.dec IN
    /\ b.body.decok /\ b.body.dec = exp
    /\ (~x.cfg.raReplaces /\ ~x.cfg.raRecodes) => (b.body.raw = x.c.body.raw /\ b.body.label = x.c.body.label)

(* all end-to-end headers arrive with all their values, in order (the proxy may add values) *)
C_ReqE2E(x, b) == \A h \in x.c.hdr :
    h.n \notin (Hop(x.c) \cup ReqSkip \cup x.cfg.raTouched)
        => \E g \in b.hdr : g.n = h.n /\ IsSubseq(h.v, g.v)

(* hop-by-hop headers of the client do not arrive: no header of that name carries one of the client's
   values (the proxy's own connection management - its Transfer-Encoding for its own framing, its own
   "Connection: close" - is not the client's header; Transfer-Encoding and Trailer describe the framing of
   one hop and are regenerated by every hop that re-frames the body: they are judged through the body
   clause, not here) *)
C_ReqHop(x, b) == \A h \in x.c.hdr :
    h.n \in (Hop(x.c) \ {"transfer-encoding", "trailer"})
        => IF h.n = "connection" THEN b.conn \cap (x.c.conn \ ConnGeneric) = {}
           ELSE \A g \in b.hdr : g.n = h.n => Range(g.v) \cap Range(h.v) = {}

(* Host rule: the client's Host for IP-addressed or keepHost servers, else the selected server's own *)
C_Host(x, b) == b.host = (IF x.cfg.addrIsName /\ ~x.cfg.keepHost THEN b.via ELSE x.c.host)

C_Status(x)  == x.cr.status = x.br.status
(* (304 Not Modified: RFC 7232 4.1 tells a sender not to generate representation metadata in a 304, and
   Go's net/http server removes Content-Type and Content-Length from every 304 it sends; the two are not
   demanded of a 304) *)
Skip304(x) == IF x.br.status = 304 THEN {"content-type"} ELSE {}
C_RespE2E(x) == \A h \in x.br.hdr :
    h.n \notin (HopFixed \cup x.br.conn \cup RespSkip \cup x.cfg.rsaTouched \cup Skip304(x))
        => \E g \in x.cr.hdr : g.n = h.n /\ IsSubseq(h.v, g.v)

(* body content bit-exact once the Content-Encoding the response is labelled with is undone
   (br = the answer of the last attempt) *)
C_Content(x) ==
    \/ x.br.nobody
    \/ LET exp == IF x.cfg.rsaReplaces THEN x.cfg.rsaBody ELSE x.br.body.dec IN
       x.cr.body.decok /\ x.cr.body.dec = exp

(* Content-Length is an end-to-end header too.  For a response WITH a body it is judged through the
   framing clause (the proxy may re-frame the body; what it declares must be what it sends).  For a
   bodiless response (the answer to HEAD) it frames nothing: it is the backend's statement about the
   representation and has to arrive like every other end-to-end header - unless the response is a 304 (see
   C_RespE2E) or the proxy was configured
   to send another representation: a ResponseAdaptor replaced the body, or the content coding the client
   is told differs from the backend's (the proxy's compression / an adaptor's compress or decompress
   applied; the length of the recoded representation is the proxy's business). *)
C_RespLen(x) ==
    (x.br.nobody /\ x.br.status # 304 /\ x.br.declared >= 0 /\ ~x.cfg.rsaReplaces /\ x.cr.body.label = x.br.body.label)
        => x.cr.declared = x.br.declared

(* well-framed: the message is complete, a declared Content-Length equals the bytes that follow,
   nothing but the next response (or EOF) follows, bodiless responses have no body *)
C_Framed(x) ==
    /\ x.cr.complete /\ x.cr.after # "garbage"
    /\ x.cr.framing = "cl" => x.cr.declared = x.cr.got
    /\ (x.cr.framing = "none" \/ x.br.nobody) => x.cr.got = 0

(* br.short: the backend's response itself breaks off (it declares Content-Length N and closes the
   connection after fewer bytes).  There is no complete backend content then; what the text still
   demands is that the client is not handed a prefix as if it were the backend's body: a success status
   with a complete, well-framed body whose content coding (if any) can be undone is a truncated success
   (C07 words the same as "produces an error status rather than a truncated success").  An error
   status, a message that is visibly incomplete, or a gzip-labelled body that is not a complete gzip
   stream are all admitted.  (A ResponseAdaptor `body:` replaces the content by design.) *)
C_Truncated(x) ==
    /\ x.br.short /\ ~x.cfg.rsaReplaces
    /\ x.cr.status < 400
    /\ x.cr.complete /\ x.cr.after # "garbage" /\ (x.cr.framing = "cl" => x.cr.declared = x.cr.got)
    /\ x.cr.body.decok

(* every attempt must deliver the request faithfully *)
ReqClauses(x) ==
    (IF \A b \in x.bs : C_Method(x, b) THEN {} ELSE {"method"}) \cup
    (IF \A b \in x.bs : C_Path(x, b) THEN {} ELSE {"path"}) \cup
    (IF \A b \in x.bs : C_Query(x, b) THEN {} ELSE {"query"}) \cup
    (IF \A b \in x.bs : C_ReqBody(x, b) THEN {} ELSE {"reqbody"}) \cup
    (IF \A b \in x.bs : C_ReqE2E(x, b) THEN {} ELSE {"reqe2e"}) \cup
    (IF \A b \in x.bs : C_ReqHop(x, b) THEN {} ELSE {"reqhop"}) \cup
    (IF \A b \in x.bs : C_Host(x, b) THEN {} ELSE {"host"})

RespClauses(x) ==
    IF x.br.short THEN (IF C_Truncated(x) THEN {"truncated"} ELSE {})
    ELSE (IF C_Framed(x) THEN {} ELSE {"framed"}) \cup
         (IF ~C_Status(x) THEN {"status"}
          ELSE (IF C_RespE2E(x) THEN {} ELSE {"respe2e"}) \cup (IF C_RespLen(x) THEN {} ELSE {"resplen"})
               \cup (IF C_Content(x) THEN {} ELSE {"content"}))

(* the clauses of C03 that exchange x violates *)
Violated(x) == IF ~C_Reach(x) THEN {"reach"} \cup (IF x.br.short \/ C_Framed(x) THEN {} ELSE {"framed"})
               ELSE ReqClauses(x) \cup RespClauses(x)

(* abstract outcome of an exchange: what the implementation-shaped layer predicts and what is
   computed from an observed exchange (disagreement = the model drifted from the code; it is
   reported as such and is never a verdict) *)
Outcome(x) ==
    [times   |-> x.times,
     pathrel |-> IF x.bs = {} THEN "-" ELSE IF \E b \in x.bs : ~C_Path(x, b) THEN "changed"
                 ELSE IF \E b \in x.bs : PathOf(b.target) # PathOf(x.c.target) THEN "equiv" ELSE "same",
     blabel  |-> IF x.bs = {} THEN "-" ELSE (CHOOSE b \in x.bs : \A b2 \in x.bs : b.n <= b2.n).body.label,
     hostis  |-> IF x.bs = {} THEN "-" ELSE IF \A b \in x.bs : b.host = x.c.host THEN "client"
                 ELSE IF \A b \in x.bs : b.host = b.via THEN "server" ELSE "other",
     status  |-> x.cr.status,
     clabel  |-> x.cr.body.label,
     viol    |-> Violated(x)]

(* ------------------------------------------------------------------------------------------ *)
(* Part 3: the implementation-shaped layer                                                      *)

(* a payload in the model: content id, length of the identity content, number of gzip layers around
   it, gzd = bytes one gzip layer adds (may be negative: compressible content), trunc = -1 or the
   length it was cut to, bad = reading it ends with an error instead of EOF (the source broke off);
   a bad payload is always a cut one, and every recoding of it (gzip reader, gunzip reader) is bad
   again: the compress reader passes the error on before it writes the gzip trailer *)
(* mem = number of gzip MEMBERS the sender made its gzip layer of (RFC 1952 2.2: "a gzip file consists of
   a series of members"; cat a.gz b.gz, pigz, one member per flush): the content is the concatenation of
   the members' contents.  It describes the gzip layer the message was sent with and is 1 again once that
   layer is undone (what easegress compresses itself is one member).  part = only the content of the first
   member is left (a gunzip that stops at the end of the first member: negative control "MULTI"). *)
Payload(id, n, layers, gzd) == [id |-> id, n |-> n, layers |-> layers, gzd |-> gzd, trunc |-> -1, bad |-> FALSE, mem |-> 1, part |-> FALSE]
Members(p, k) == [p EXCEPT !.mem = k]
EmptyP == Payload("-", 0, 0, 7)
FullLen(p) == p.n + p.layers * (IF p.n = 0 THEN 7 ELSE p.gzd)
BLen(p) == IF p.trunc >= 0 THEN p.trunc ELSE FullLen(p)
Gz(p)   == IF p.bad THEN [p EXCEPT !.layers = @ + 1, !.trunc = BLen(p)] ELSE [p EXCEPT !.layers = @ + 1]
(* undoing a gzip layer = all its members (Go's compress/gzip reader, multistream) *)
Gunz(p) == IF p.bad THEN [p EXCEPT !.layers = @ - 1, !.trunc = BLen(p), !.mem = 1] ELSE [p EXCEPT !.layers = @ - 1, !.mem = 1]
(* readers.GZipDecompressReader (RequestAdaptor / ResponseAdaptor decompress) *)
GunzBy(p, Fixed) == IF "MULTI" \in Fixed \/ p.mem = 1 THEN Gunz(p)
                    ELSE [Gunz(p) EXCEPT !.part = TRUE, !.n = p.n \div p.mem]
CanGunz(p) == p.layers > 0 /\ p.trunc < 0        \* gzip.NewReader + ReadAll succeed
CutShort(p) == [p EXCEPT !.trunc = FullLen(p) - 1, !.bad = TRUE]     \* the sender stops one byte (at least) early

(* body abstraction of Part 2 for a model payload *)
Norm(p) == IF BLen(p) = 0 THEN EmptyP ELSE p           \* all empty bodies are the same body
Abs(p, label) ==
    [raw |-> Norm(p), len |-> BLen(p), label |-> label,
     decok |-> ~(label = "gzip" /\ BLen(p) > 0 /\ ~CanGunz(p)),
     dec |-> IF label = "gzip" /\ CanGunz(p) THEN Norm(Gunz(p)) ELSE Norm(p)]

ReqBodyCfg  == Payload("ra-body", 4, 0, 7)      \* RequestAdaptor  body: "...."
RespBodyCfg == Payload("rsa-body", 4, 0, 7)     \* ResponseAdaptor body: "...."

(* ---- scenarios ---- *)
Paths == << <<47, 97, 98>>,                         \*  1 /ab
            <<47, 97, 37, 52, 49>>,                 \*  2 /a%41      escaped unreserved character
            <<47, 97, 37, 50, 48, 98>>,             \*  3 /a%20b
            <<47, 97, 37, 50, 70, 98>>,             \*  4 /a%2Fb
            <<47, 97, 37, 51, 70, 98>>,             \*  5 /a%3Fb     escaped "?"
            <<47, 97, 37, 50, 51, 98>>,             \*  6 /a%23b     escaped "#"
            <<47, 97, 37, 50, 53>>,                 \*  7 /a%25      escaped "%"
            <<47, 97, 37, 50, 53, 52, 49>>,         \*  8 /a%2541    escaped "%" followed by hex digits
            <<47, 97, 37, 48, 65, 98>>,             \*  9 /a%0Ab     escaped control character
            <<47, 97, 59, 98, 44, 99>>,             \* 10 /a;b,c
            <<47, 97, 37, 67, 51, 37, 65, 57>>,     \* 11 /a%C3%A9
            <<47, 97, 33, 98>>,                     \* 12 /a!b
            <<47, 97, 37, 50, 102, 98>>,            \* 13 /a%2fb     lower-case hex digits
            \* empty and dot segments: a path is a sequence of segments, an empty one ("//") and "." / ".." are
            \* segments like any other to a proxy ("path unchanged"; only the origin server interprets them)
            <<47, 47, 97, 98>>,                     \* 14 //ab       the path starts with an empty segment
            <<47, 47, 47>>,                         \* 15 ///        nothing but empty segments
            <<47, 47, 37, 50, 70, 47, 120>>,        \* 16 //%2F/x    empty segment, then an escaped slash
            <<47, 97, 47, 47, 98>>,                 \* 17 /a//b      empty segment inside
            <<47, 97, 98, 47, 47>>,                 \* 18 /ab//      empty segments at the end
            <<47, 97, 47, 46, 47, 46, 46, 47, 98>> >>   \* 19 /a/./../b  dot segments
Queries == << <<>>, <<113, 61, 49>>, <<97, 61, 37, 51, 70, 38, 97, 61, 50>> >>   \* "", q=1, a=%3F&a=2

(* body settings of a Request/ResponseAdaptor that the filters accept (Init panics on compress together
   with decompress and on body together with decompress); header operations are an independent toggle *)
AdaptorKinds == {"none", "body", "compress", "decompress", "body+compress"}
ReplacesBody(k) == k \in {"body", "body+compress"}
Compresses(k)   == k \in {"compress", "body+compress"}
Decompresses(k) == k = "decompress"

MaxAttempts == 3      \* of the retry policy attached to the pool when first attempts are made to fail

(* server url of the pool: IPv4 / bracketed IPv6 literal with a port, the same without a port (default
   port), host name with a port *)
AddrKinds == {"ip", "ip6", "ip-np", "ip6-np", "name"}
AddrIsName(a) == a = "name"         \* Server.checkAddrPattern: the port (if any) and the brackets are stripped, net.ParseIP decides

(* load balancing policy of the pool (loadBalance.policy; "default": no loadBalance section; "weightedRandom":
   every server has a weight, "weightedRandom0": none has - ServerPoolSpec.Validate accepts both; "headerHash":
   keyed by a header the client sends).  The balancer only SELECTS the server of an attempt: no clause and no
   stage operator depends on the policy - whichever server it selects, the request must reach it faithfully
   and the Host rule is that server's.  It is explored with the dimensions of the pool and its servers
   (address kind, keepHost, request mode, failing attempts); the dimensions of the message keep their
   defaults then (prepareRequest treats them independently of the server). *)
LBKinds == {"default", "roundRobin", "random", "weightedRandom", "weightedRandom0", "ipHash", "headerHash"}

(* (the space is put together from products over the given value sets: TLC enumerates a product before it
   filters it) *)
ReqScnOf(LB, RA, RAH, P, Q, HS, RB, RM) ==
          { s \in [addr : AddrKinds, keepHost : BOOLEAN, lb : LB,
                   ra : RA, rahdr : RAH, reqMode : {"buf", "stream"},
                   path : P, query : Q, hshape : HS,
                   rbody : RB, renc : {"identity", "gzip"},
                   rmem : RM,                             \* gzip members of the client's body
                   fails : 0..(MaxAttempts - 1)] :        \* attempts that fail before one succeeds
            /\ s.rbody = "none" => s.renc = "identity"
            /\ s.rmem > 1 => s.renc = "gzip"
            /\ s.fails > 0 => s.reqMode = "buf" }         \* a stream request is never retried (by design)
RBodies == {"none", "cl", "chunked"}
(* the path classes 1..13 (escaping) with every other dimension; the classes of empty and dot segments with the
   dimensions prepareRequest could mix them up with (server address, request mode, retries, body); bodies of
   several gzip members with the default target *)
EscPaths == 1..13
SegPaths == 14..Len(Paths)
ReqScnMain == ReqScnOf({"default"}, AdaptorKinds, BOOLEAN, EscPaths, 1..Len(Queries), {"min", "rich"}, RBodies, {1})
              \cup ReqScnOf({"default"}, {"none"}, {FALSE}, SegPaths, 1..Len(Queries), {"min"}, RBodies, {1})
              \cup ReqScnOf({"default"}, AdaptorKinds, BOOLEAN, {1}, {1}, {"min", "rich"}, RBodies, {2})
ReqScnLB(RB) == ReqScnOf(LBKinds \ {"default"}, {"none"}, {FALSE}, {1}, {1}, {"min"}, RB, {1})
ReqScn == ReqScnMain \cup ReqScnLB(RBodies)

(* cache: the pool has a memoryCache that admits the request's method and the backend's status; the
          scenario is then a SEQUENCE of RespK identical requests to the same proxy instance
   short: the backend declares Content-Length N and closes the connection after fewer bytes *)
RespK == 3
RespScn == { s \in [comp : {"off", "low", "high"}, rsa : AdaptorKinds, rsahdr : BOOLEAN,
                    respMode : {"buf", "stream"}, ae : {"absent", "gzip", "identity"}, head : BOOLEAN,
                    status : {200, 304, 404, 503}, bframing : {"cl", "chunked", "close"}, benc : {"identity", "gzip"},
                    bsize : {0, 10, 100}, gzd : {-3, 7}, cache : BOOLEAN, short : BOOLEAN,
                    bmem : {1, 2}] :                       \* gzip members of the backend's body
             /\ s.short => (s.bframing = "cl" /\ s.bsize > 0 /\ ~s.head /\ ~s.cache /\ s.status # 304)
             /\ s.bmem > 1 => (s.benc = "gzip" /\ s.bsize > 0 /\ s.status # 304 /\ s.gzd = 7)
             \* 304 (Not Modified): a response that has no body whatever the method; the headers may still describe the
             \* representation (Content-Length, Content-Encoding); bsize is only the length it declares
             /\ s.status = 304 => s.bsize = 10 }
NoBody(s) == s.head \/ s.status = 304       \* the backend's answer is bodiless
Reqs(s) == IF s.cache THEN RespK ELSE 1

(* concurrency: a response scenario may also be run as a warm-up exchange followed by `par` identical
   requests that are in flight AT THE SAME TIME on the same proxy instance (module ProxyMsgPar; every one
   of them is an exchange of its own and is judged by the contract like any other).  Backend responses
   that break off are explored sequentially only. *)
ParDegrees == <<2, 3, 4>>
ParScn == {s \in RespScn : ~s.short}
ParScnQuick == {s \in ParScn : s.gzd = 7 /\ s.status = 200 /\ ~s.rsahdr /\ s.bsize = 100 /\ s.bframing # "close" /\ s.bmem = 1}
ParScnFull  == {s \in ParScn : s.gzd = 7 /\ s.status = 200 /\ s.bmem = 1}

(* requests in flight at the same time (module ProxyMsgParReq): requests with a body that are not retried *)
ParReqScn == {s \in ReqScnOf({"default"}, AdaptorKinds, {FALSE}, {1}, {1}, {"min"}, {"cl", "chunked"}, {1}) :
                 s.fails = 0 /\ s.addr = "ip" /\ ~s.keepHost}

DefaultReqScn == [addr |-> "ip", keepHost |-> FALSE, lb |-> "default", ra |-> "none", rahdr |-> FALSE, reqMode |-> "buf", path |-> 1,
                  query |-> 1, hshape |-> "min", rbody |-> "none", renc |-> "identity", rmem |-> 1, fails |-> 0]
DefaultRespScn == [comp |-> "off", rsa |-> "none", rsahdr |-> FALSE, respMode |-> "buf", ae |-> "absent", head |-> FALSE,
                   status |-> 200, bframing |-> "cl", benc |-> "identity", bsize |-> 10, gzd |-> 7, cache |-> FALSE,
                   short |-> FALSE, bmem |-> 1]

(* quick tier: the path/query dimension is explored with the other request dimensions at their
   default and vice versa (prepareRequest treats them independently); one gzip size delta; the
   status class only with the other response dimensions at their default *)
ReqScnQuick == ReqScnOf({"default"}, AdaptorKinds, BOOLEAN, {1}, {1}, {"min", "rich"}, RBodies, {1, 2})
               \cup {s \in ReqScnOf({"default"}, {"none"}, {FALSE}, 1..Len(Paths), 1..Len(Queries), {"min"}, {"none"}, {1}) :
                        [s EXCEPT !.path = 1, !.query = 1] = DefaultReqScn}
               \cup ReqScnLB({"none"})
(* (bodies of several gzip members: with the ResponseAdaptor's header operations off and a 200) *)
MultiQuick(s) == s.bmem > 1 => (~s.rsahdr /\ s.status = 200)
RespScnQuick == {s \in RespScn : s.gzd = 7 /\ MultiQuick(s) /\ (s.status = 200 \/ [s EXCEPT !.status = 200] = DefaultRespScn
                                               \/ (s.status = 304 /\ ~s.rsahdr /\ ~s.cache))}
RespScnGenQuick == {s \in RespScn : s.gzd = 7 /\ MultiQuick(s)}

(* the media type a message is labelled with (Content-Type).  No clause of C03 or C07 mentions it: the
   contract is the same for every value, and the stage operators never look at it.  It is a dimension of
   the scenario space all the same - in ProxyMsgLimit every wire carries one, for ProxyMsg the generator
   hands the classes to the driver, which labels the backend's response (and the client's request body)
   of every case with one of them - because a proxy can key behaviour on it (server-sent events, gRPC and
   multipart bodies are the media types proxies commonly treat specially).  The harness maps a class to a
   concrete header value; "none": no Content-Type header at all. *)
CTypeClasses == {"none", "octet", "text", "json", "sse", "grpc", "multipart"}
CTypeSeq == <<"none", "octet", "text", "json", "sse", "grpc", "multipart">>

MinLength(comp) == IF comp = "low" THEN 5 ELSE 50
ClientHost == "client.example:8080"
ServerHost == "server.name:9095"

H(n, v) == [n |-> n, v |-> v]
E2EHdrs == {H("x-e1", <<"1">>), H("x-e2", <<"1", "2">>), H("x-l2", <<"not-listed">>)}
HopHdrs == {H("connection", <<"x-l1, close">>), H("x-l1", <<"listed">>), H("keep-alive", <<"timeout=5">>),
            H("proxy-connection", <<"keep-alive">>), H("proxy-authenticate", <<"Basic">>),
            H("proxy-authorization", <<"Basic eDp5">>), H("te", <<"trailers, deflate">>), H("upgrade", <<"h2c">>)}

(* ---- request direction ---- *)
(* the request as the client writes it *)
ClientReq(s) ==
    LET p == IF s.rbody = "none" THEN EmptyP
             ELSE Members(Payload("c-body", 10, IF s.renc = "gzip" THEN 1 ELSE 0, 7), s.rmem) IN
    [method |-> "M", host |-> ClientHost,
     target |-> Paths[s.path] \o (IF Queries[s.query] = <<>> THEN <<>> ELSE <<63>> \o Queries[s.query]),
     hdr |-> (IF s.hshape = "min" THEN {H("x-e1", <<"1">>)} ELSE E2EHdrs \cup HopHdrs)
             \cup (IF s.rbody = "chunked" THEN {H("transfer-encoding", <<"chunked">>), H("trailer", <<"x-t">>)} ELSE {})
             \cup (IF s.rahdr THEN {H("x-ra-del", <<"1">>)} ELSE {}),
     conn |-> IF s.hshape = "min" THEN {} ELSE {"x-l1", "close"},
     payload |-> p, label |-> IF s.rbody # "none" /\ s.renc = "gzip" THEN "gzip" ELSE ""]

(* net/http server (ParseRequestURI; Transfer-Encoding and Trailer leave the header map) and
   mux.serveHTTP / Request.FetchPayload (buffered, or a stream for clientMaxBodySize -1) *)
S_Server(c, s) ==
    [method |-> c.method, host |-> c.host, u |-> GoParse(c.target, TRUE),
     hdr |-> {h \in c.hdr : h.n \notin {"transfer-encoding", "trailer"}}, conn |-> c.conn,
     payload |-> c.payload, label |-> c.label, stream |-> s.reqMode = "stream"]

(* RequestAdaptor.Handle, in the order of the code: header operations, body (drops the
   Content-Encoding label), compress (only an unlabelled body), decompress (only a gzip label) *)
S_ReqAdaptor(m, s, Fixed) ==
    LET m1 == IF s.rahdr THEN [m EXCEPT !.hdr = {h \in @ : h.n # "x-ra-del"} \cup {H("x-ra-set", <<"s">>)}] ELSE m
        m2 == IF ReplacesBody(s.ra) THEN [m1 EXCEPT !.payload = ReqBodyCfg, !.label = "", !.stream = FALSE] ELSE m1
        m3 == IF Compresses(s.ra) /\ m2.label = "" THEN [m2 EXCEPT !.payload = Gz(@), !.label = "gzip"] ELSE m2
    IN IF Decompresses(s.ra) /\ m3.label = "gzip" /\ CanGunz(m3.payload)
       THEN [m3 EXCEPT !.payload = GunzBy(@, Fixed), !.label = ""] ELSE m3

(* serverPoolContext.prepareRequest, once per attempt: URL text, cloneHeader, Host rule, a fresh reader
   on the buffered payload (Request.GetPayload); then http.NewRequest parses the text again and the
   transport writes URL.RequestURI().  n = attempt number. *)
S_Prepare(m, s, Fixed, n) ==
    LET text == (IF "F7" \in Fixed THEN GoEscapedPath(m.u) ELSE m.u.path)
                \o (IF m.u.query # <<>> THEN <<63>> \o m.u.query ELSE <<>>)
        u2 == GoParse(text, FALSE)
    IN IF ~u2.ok
       THEN [reached |-> FALSE, n |-> n, via |-> ServerHost, method |-> "-", target |-> <<>>, host |-> "-", hdr |-> {},
             conn |-> {}, body |-> Abs(EmptyP, "")]
       ELSE [reached |-> TRUE, n |-> n, via |-> ServerHost, method |-> m.method, target |-> GoRequestURI(u2),
             host |-> IF AddrIsName(s.addr) /\ ~s.keepHost THEN ServerHost ELSE m.host,
             hdr |-> {h \in m.hdr : h.n \notin (HopFixed \cup m.conn)}, conn |-> {},
             body |-> Abs(m.payload, m.label)]

CAbs(c) == [method |-> c.method, target |-> c.target, host |-> c.host, hdr |-> c.hdr, conn |-> c.conn,
            body |-> Abs(c.payload, c.label)]

(* the requests the backends receive: the first s.fails attempts are answered with a failure (a status
   listed in failureCodes, or the connection breaks), the retry policy makes the pool try again *)
Attempt(s, Fixed, n) == S_Prepare(S_ReqAdaptor(S_Server(ClientReq(s), s), s, Fixed), s, Fixed, n)
RunReq(s, Fixed) == {b \in {Attempt(s, Fixed, n) : n \in 1..(s.fails + 1)} : b.reached}

(* ---- response direction ---- *)
RespHdrs == {H("x-b1", <<"1">>), H("set-cookie", <<"a=1", "b=2">>), H("x-rsa-del", <<"1">>)}
RespHdrsTouched == (RespHdrs \ {H("x-rsa-del", <<"1">>)}) \cup {H("x-rsa-set", <<"s">>)}

(* the response as the backend writes it *)
BackendFull(s) == Members(Payload("b-body", s.bsize, IF s.benc = "gzip" THEN 1 ELSE 0, s.gzd), s.bmem)      \* the body the backend means to send
BackendResp(s) ==
    LET p == BackendFull(s) IN
    [status |-> s.status, kept |-> TRUE, payload |-> IF s.short THEN CutShort(p) ELSE p, label |-> IF s.benc = "gzip" THEN "gzip" ELSE "",
     clhdr |-> IF s.bframing = "cl" THEN BLen(p) ELSE -1,
     gocl |-> -1,            \* http.Response.ContentLength as the transport reports it
     compressed |-> FALSE,   \* compression.compress replaced the body
     streamed |-> FALSE, failed |-> FALSE,
     touched |-> FALSE,      \* the ResponseAdaptor's header operations were applied
     panicked |-> FALSE]     \* the handler panicked after the response was set: net/http aborts the connection

BRAbs(r, s) == [status |-> r.status, hdr |-> RespHdrs, conn |-> {}, nobody |-> NoBody(s), short |-> s.short,
                declared |-> IF s.bframing = "cl" THEN BLen(BackendFull(s)) ELSE -1,     \* the Content-Length header it sends
                body |-> Abs(BackendFull(s), r.label)]

(* http.Transport.  It asked for gzip itself iff the request it was given has no Accept-Encoding (and
   is not HEAD); only then it undoes a gzip label (lazily: the body becomes a gunzip reader, whatever
   the bytes turn out to be), drops Content-Length/-Encoding and reports ContentLength -1.  A response
   to HEAD has no body but ContentLength = the header's value; a 304 has no body and ContentLength 0
   (the Content-Length header stays in the header map in both cases); a bodiless response is never
   gunzipped. *)
S_Transport(r, s) ==
    LET r1 == IF NoBody(s) THEN [r EXCEPT !.payload = EmptyP] ELSE r IN
    IF s.ae = "absent" /\ ~NoBody(s) /\ r.label = "gzip" /\ r.payload.layers > 0
    THEN [r1 EXCEPT !.payload = Gunz(@), !.label = "", !.clhdr = -1, !.gocl = -1]
    ELSE [r1 EXCEPT !.gocl = IF s.status = 304 /\ ~s.head THEN 0 ELSE r.clhdr]

(* compression.compress *)
S_Compress(r, s, Fixed) ==
    IF s.comp = "off" \/ s.ae = "identity" \/ r.label = "gzip" \/ (r.gocl # -1 /\ r.gocl < MinLength(s.comp))
    THEN r
    ELSE [r EXCEPT !.payload = Gz(@), !.label = "gzip", !.clhdr = -1, !.compressed = TRUE,
                   !.gocl = IF "F5" \in Fixed THEN -1 ELSE @]

Failure500 == [status |-> 500, kept |-> FALSE, payload |-> EmptyP, label |-> "", clhdr |-> -1, gocl |-> -1,
               compressed |-> FALSE, streamed |-> FALSE, failed |-> TRUE, touched |-> FALSE, panicked |-> FALSE]

(* ServerPool.buildResponse / Response.FetchPayload (sizes are far below every limit here: C07 covers
   the limits): -1 keeps the stream; a positive ContentLength is trusted (io.ReadFull); any error => 500.
   For a stream the deferred collectMetrics hooks into stdResp.Body. *)
S_Fetch(r, s, Fixed) ==
    IF s.head /\ "HEAD" \in Fixed THEN [r EXCEPT !.payload = EmptyP]          \* repaired: nothing is fetched for HEAD
    ELSE IF s.respMode = "stream"
    THEN IF r.compressed /\ "METRIC" \notin Fixed
         THEN [r EXCEPT !.streamed = TRUE, !.failed = TRUE, !.panicked = TRUE]   \* deferred collectMetrics panics
         ELSE [r EXCEPT !.streamed = TRUE]
    ELSE IF r.payload.bad THEN Failure500                                        \* io.ReadFull / io.ReadAll report the error
    ELSE IF r.gocl > 0 THEN
             IF BLen(r.payload) < r.gocl THEN Failure500
             ELSE IF BLen(r.payload) = r.gocl THEN r
             ELSE [r EXCEPT !.payload.trunc = r.gocl]
    ELSE IF r.gocl = 0 THEN [r EXCEPT !.payload = EmptyP]
    ELSE r

(* ResponseAdaptor.Handle, in the order of the code: header operations, body (drops the label; the
   replacement is never a stream), compress (only when not labelled gzip), decompress (only a gzip
   label); skipped when the Proxy filter returned a failure result *)
S_RespAdaptor(r, s, Fixed) ==
    LET r1 == IF s.rsahdr THEN [r EXCEPT !.touched = TRUE] ELSE r
        r2 == IF ReplacesBody(s.rsa)
              THEN [r1 EXCEPT !.payload = RespBodyCfg, !.label = "", !.streamed = FALSE,
                              !.clhdr = IF "F6" \in Fixed THEN BLen(RespBodyCfg) ELSE @]
              ELSE r1
        r3 == IF Compresses(s.rsa) /\ r2.label # "gzip"
              THEN [r2 EXCEPT !.payload = Gz(@), !.label = "gzip",
                              !.clhdr = IF r2.streamed THEN -1 ELSE BLen(Gz(r2.payload))]
              ELSE r2
    IN IF r.failed THEN r
       ELSE IF Decompresses(s.rsa) /\ r3.label = "gzip" /\ (CanGunz(r3.payload) \/ (r3.streamed /\ r3.payload.layers > 0))
            THEN [r3 EXCEPT !.payload = GunzBy(@, Fixed), !.label = "",
                            !.clhdr = IF r3.streamed THEN -1 ELSE BLen(GunzBy(r3.payload, Fixed))]
            ELSE r3

(* mux write-out + net/http server: headers copied, WriteHeader, io.Copy.  With a declared
   Content-Length d the server sends at most d bytes and closes the connection when fewer were
   written; without one it frames the body itself.  HEAD, 304: no body is sent (net/http drops what the
   handler writes, which is not a failure).  A body that ends with an
   error makes io.Copy fail: the pinned code ignores it and returns, so net/http terminates a chunked
   body properly ("ABORT" repaired: the handler aborts the connection instead). *)
S_Write(r, s, Fixed) ==
    LET n == BLen(r.payload)
        d == r.clhdr
        nb == s.head \/ r.status = 304
        sent == IF nb THEN EmptyP ELSE IF d >= 0 /\ n > d THEN [r.payload EXCEPT !.trunc = d] ELSE r.payload
    IN [status |-> r.status, hdr |-> IF ~r.kept THEN {} ELSE IF r.touched THEN RespHdrsTouched ELSE RespHdrs,
        body |-> Abs(sent, r.label),
        framing |-> IF nb THEN "none" ELSE IF d >= 0 THEN "cl" ELSE "auto",
        declared |-> IF r.status = 304 THEN -1 ELSE d,      \* (net/http removes Content-Length from a 304)
        got |-> BLen(sent),
        complete |-> ~r.panicked /\ (nb \/ d < 0 \/ n >= d) /\ ~(~nb /\ r.payload.bad /\ "ABORT" \in Fixed),
        after |-> "ok"]

(* ---- the pool's memory cache ---- *)
(* ServerPool.doHandle stores what buildResponse produced (status, a copy of the header, the buffered
   payload) unless the response is a stream or a failure; buildResponseFromCache builds the response of
   a hit from the entry.  The filters behind the Proxy (ResponseAdaptor) then work on that response;
   without "CLONE" they work on the entry's own header: label, Content-Length and the adaptor's header
   operations end up in the cache. *)
NoEntry == [none |-> TRUE]
Fetched(s, Fixed) == S_Fetch(S_Compress(S_Transport(BackendResp(s), s), s, Fixed), s, Fixed)
Storable(r, s) == s.cache /\ ~r.streamed /\ ~r.failed
EntryOf(r) == [none |-> FALSE, status |-> r.status, payload |-> r.payload, label |-> r.label, clhdr |-> r.clhdr, touched |-> r.touched]
FromCache(e) == [status |-> e.status, kept |-> TRUE, payload |-> e.payload, label |-> e.label, clhdr |-> e.clhdr, gocl |-> -1,
                 compressed |-> FALSE, streamed |-> FALSE, failed |-> FALSE, touched |-> e.touched, panicked |-> FALSE]
AfterHit(e, r, Fixed) == IF "CLONE" \in Fixed THEN e ELSE [e EXCEPT !.label = r.label, !.clhdr = r.clhdr, !.touched = r.touched]

(* the cache entry when request k of the sequence arrives *)
RECURSIVE EntryAt(_, _, _)
EntryAt(s, Fixed, k) ==
    IF k = 1 \/ ~Storable(Fetched(s, Fixed), s) THEN NoEntry
    ELSE IF k = 2 THEN EntryOf(Fetched(s, Fixed))
    ELSE LET e == EntryAt(s, Fixed, k - 1) IN AfterHit(e, S_RespAdaptor(FromCache(e), s, Fixed), Fixed)

IsHit(s, Fixed, k) == ~EntryAt(s, Fixed, k).none
RunRespK(s, Fixed, k) ==
    IF IsHit(s, Fixed, k) THEN S_Write(S_RespAdaptor(FromCache(EntryAt(s, Fixed, k)), s, Fixed), s, Fixed)
    ELSE S_Write(S_RespAdaptor(Fetched(s, Fixed), s, Fixed), s, Fixed)
RunResp(s, Fixed) == RunRespK(s, Fixed, 1)

(* ---- the exchange of a pair of scenarios ---- *)
Cfg(rs, ps, k) == [addrIsName |-> AddrIsName(rs.addr), keepHost |-> rs.keepHost, mayHit |-> ps.cache /\ k > 1,
                maxAttempts |-> IF rs.fails > 0 THEN MaxAttempts ELSE 1,
                raReplaces |-> ReplacesBody(rs.ra), raRecodes |-> Compresses(rs.ra) \/ Decompresses(rs.ra),
                raBody |-> Abs(ReqBodyCfg, "").dec, raTouched |-> IF rs.rahdr THEN {"x-ra-del", "x-ra-set"} ELSE {},
                rsaReplaces |-> ReplacesBody(ps.rsa), rsaBody |-> Abs(RespBodyCfg, "").dec,
                rsaTouched |-> IF ps.rsahdr THEN {"x-rsa-del", "x-rsa-set"} ELSE {}]

(* request k of the sequence *)
ExchangeK(rs, ps, Fixed, k) ==
    LET bs == IF IsHit(ps, Fixed, k) THEN {} ELSE RunReq(rs, Fixed) IN
    [cfg |-> Cfg(rs, ps, k), c |-> CAbs(ClientReq(rs)), bs |-> bs, times |-> Cardinality(bs),
     br |-> BRAbs(BackendResp(ps), ps),
     cr |-> IF bs # {} \/ IsHit(ps, Fixed, k) THEN RunRespK(ps, Fixed, k)
            ELSE S_Write(Failure500, ps, Fixed)]          \* prepareRequest failed: 500 built by the pool
Exchange(rs, ps, Fixed) == ExchangeK(rs, ps, Fixed, 1)

(* ------------------------------------------------------------------------------------------ *)
(* Part 4: body limits (C07)                                                                    *)
(*                                                                                              *)
(* limit settings: inner = path-level clientMaxBodySize / pool-level serverMaxBodySize,          *)
(*                 outer = server-level clientMaxBodySize / proxy-level serverMaxBodySize;       *)
(* 0 = not set, negative = stream.  "else 4MB": the text leaves open whether 4*10^6 or 4*2^20    *)
(* bytes are meant, so the default is an interval D = [lo, hi]: a body of at most D.lo bytes must  *)
(* pass, one of more than D.hi bytes must be refused.  For explicit limits lo = hi.               *)
(* D.gzc / D.gzd bound what one gzip layer may add to a body of n bytes (gzc + n \div gzd; gzd = 0: *)
(* a constant): when the proxy compresses a response, the limit is applied to the body it holds   *)
(* (the compressed one); the text does not say which of the two sizes counts, so a response whose  *)
(* size is below the limit but may exceed it once compressed is not judged.                       *)
RealDefault == [lo |-> 4000000, hi |-> 4194304, gzc |-> 100, gzd |-> 100]

EffLo(inner, outer, D) == IF inner # 0 THEN inner ELSE IF outer # 0 THEN outer ELSE D.lo
EffHi(inner, outer, D) == IF inner # 0 THEN inner ELSE IF outer # 0 THEN outer ELSE D.hi
Streams(inner, outer)  == EffHi(inner, outer, RealDefault) < 0
GzMax(D, n) == D.gzc + (IF D.gzd = 0 THEN 0 ELSE n \div D.gzd)

(* a message body as sent: enc = "cl" (declared = announced Content-Length, actual may be smaller: a
   lying length) | "chunked" | "close" (read-to-EOF, responses only); actual = bytes really sent;
   comp (responses only) = the proxy compresses the response (compression section configured, the
   client accepts gzip) before the limit is applied *)
Announced(w) == IF w.enc = "cl" THEN w.declared ELSE w.actual
Short(w)     == w.enc = "cl" /\ w.actual < w.declared

(* request side.  o = [status, forwarded (the backend saw a request), intact (it received exactly the
   bytes sent), bstatus (what the backend answers when asked)].  The clause holds for EVERY request,
   whatever was served before it (route cache on or off, first or repeated request). *)
L_ReqContract(inner, outer, D, w, o) ==
    IF Streams(inner, outer)
    THEN Short(w) \/ (o.forwarded /\ o.intact /\ o.status = o.bstatus)        \* -1 streams a body of any size
    ELSE IF Announced(w) > EffHi(inner, outer, D)
         THEN o.status = 413 /\ ~o.forwarded                                    \* 413, no backend sees it
         ELSE IF Announced(w) <= EffLo(inner, outer, D) /\ ~Short(w)
              THEN o.forwarded /\ o.intact /\ o.status = o.bstatus              \* up to exactly the limit: passes intact
              ELSE TRUE                                                          \* (lying request length / between the two readings of "4MB")

(* response side.  o = [status, intact (client got exactly the backend's bytes - once a gzip label is
   undone), complete (the response was well-framed and complete, and a gzip-labelled body is a complete
   gzip stream), got (body bytes the client received), bstatus] *)
L_RespContract(inner, outer, D, w, o) ==
    IF ~Streams(inner, outer) /\ Announced(w) > EffHi(inner, outer, D)
    THEN o.status \in 500..599 /\ ~o.intact /\ o.got < w.actual                 \* never delivered, 5xx instead
    ELSE IF Short(w)                                                             \* an error status, never a truncated success
         THEN o.status >= 400 \/ (Streams(inner, outer) /\ ~o.complete)          \* (a stream has sent its status: the
                                                                                 \*  client must at least see a broken message)
         ELSE IF Streams(inner, outer)
                 \/ Announced(w) + (IF w.comp THEN GzMax(D, Announced(w)) ELSE 0) <= EffLo(inner, outer, D)
              THEN o.status = o.bstatus /\ o.intact /\ o.complete                \* delivered (C03)
              ELSE TRUE

(* ---- the scenario space of the model (abstract sizes; the harness scales them) ---- *)
(* (the default lies above every body explored around an explicit limit - up to 4 x 5 - as 4MB lies above the
   bytes the harness scales 3 and 5 to: a body sized around one limit keeps its meaning when a hot update
   changes the settings) *)
LimD     == [lo |-> 40, hi |-> 41, gzc |-> 2, gzd |-> 0]
LimGz    == 2            \* what gzip adds to a body in the model (<= GzMax(LimD, n))
LimInner == {0, 3, -1}
LimOuter == {0, 5, -1}
LimK     == 3            \* requests of one sequence (same scenario, same mux and proxy instance)

(* bodies around the effective limit: L-1, L, L+1, 4L, L/2 (and empty); for streams: small and beyond the default *)
LimSizes(i, o) == IF EffHi(i, o, LimD) < 0 THEN {0, 1, LimD.hi + 1}
                  ELSE {0, EffLo(i, o, LimD) \div 2, EffLo(i, o, LimD) - 1, EffLo(i, o, LimD), EffHi(i, o, LimD) + 1,
                        4 * EffHi(i, o, LimD)}

LimWires0(dir, i, o) ==
    LET comps == IF dir = "resp" THEN BOOLEAN ELSE {FALSE} IN
    {[enc |-> "cl", declared |-> n, actual |-> n, comp |-> c] : n \in LimSizes(i, o), c \in comps}
    \cup {[enc |-> "cl", declared |-> n, actual |-> n - 1, comp |-> c] : n \in {x \in LimSizes(i, o) : x > 0}, c \in comps}      \* lying length
    \cup {[enc |-> e, declared |-> -1, actual |-> m, comp |-> c] : e \in (IF dir = "req" THEN {"chunked"} ELSE {"chunked", "close"}),
                                                                  m \in LimSizes(i, o), c \in comps}
(* ... each labelled with every media type class (ctype); the contract never looks at the label: the
   limits hold for every content type *)
LimWires(dir, i, o) == {[enc |-> w.enc, declared |-> w.declared, actual |-> w.actual, comp |-> w.comp, ctype |-> t] :
                           w \in LimWires0(dir, i, o), t \in CTypeClasses}

(* hot update of the HTTPServer (request direction): the settings <<path-level, server-level>> after it.  One
   of the two settings changes (or none: no update); the bodies stay the ones sized around the first
   settings.  The contract is stateless: every request is judged by the settings in force when it is
   made.  Updates are explored with honest lengths and one media type. *)
LimUpdates(i, o) == {<<i, o>>} \cup {<<i2, o>> : i2 \in LimInner \ {i}} \cup {<<i, o2>> : o2 \in LimOuter \ {o}}
SecondaryCType == "octet"

(* ---- implementation-shaped: Request.FetchPayload / Response.FetchPayload as a function ---- *)
Min2(a, b) == IF a < b THEN a ELSE b
(* lim = the value handed to FetchPayload, cl = ContentLength as net/http reports it (-1 unknown),
   avail = bytes the source delivers, bad = the source then ends with an error instead of EOF (a gzip
   compress reader over a body that breaks off), dflt = DefaultMaxPayloadSize *)
FetchPayload(lim, cl, avail, bad, dflt) ==
    LET L == IF lim = 0 THEN dflt ELSE lim IN
    IF L < 0 THEN [k |-> "stream", len |-> avail]
    ELSE IF cl > L THEN [k |-> "toolarge", len |-> 0]
    ELSE IF cl > 0 THEN (IF avail < cl THEN [k |-> "err", len |-> avail] ELSE [k |-> "ok", len |-> cl])
    ELSE IF cl = 0 THEN [k |-> "ok", len |-> 0]
    ELSE IF Min2(avail, L) < L THEN (IF bad THEN [k |-> "err", len |-> avail]
                                     ELSE [k |-> "ok", len |-> avail])      \* io.ReadAll(io.LimitReader(body, L))
    ELSE IF avail - L > 0 THEN [k |-> "toolarge", len |-> L]              \* probe read found more
    ELSE IF bad THEN [k |-> "err", len |-> L]                             \* probe read found the error
    ELSE [k |-> "ok", len |-> L]

(* mux.serveHTTP: limit selection and status mapping (the backend answers 200).  The limit is selected
   from the route's path and the server spec for every request, also when the route came from the
   route cache. *)
L_ReqModel(inner, outer, dflt, w) ==
    LET f == FetchPayload(IF inner # 0 THEN inner ELSE outer, IF w.enc = "cl" THEN w.declared ELSE -1, w.actual, FALSE, dflt) IN
    CASE f.k = "toolarge" -> [status |-> 413, forwarded |-> FALSE, intact |-> FALSE, bstatus |-> 200]
      [] f.k = "err"      -> [status |-> 400, forwarded |-> FALSE, intact |-> FALSE, bstatus |-> 200]
      [] f.k = "stream"   -> [status |-> IF Short(w) THEN 499 ELSE 200,      \* client gone: 499 (or 503, a race)
                              forwarded |-> TRUE, intact |-> ~Short(w), bstatus |-> 200]
      [] OTHER            -> [status |-> 200, forwarded |-> TRUE, intact |-> TRUE, bstatus |-> 200]

(* ServerPool.buildResponse: compression.compress first (the length becomes unknown, the body grows by
   the gzip framing, a body that breaks off makes the compress reader fail), then limit selection and
   FetchPayload; any error => 500 with an empty body *)
L_RespModel(inner, outer, dflt, w) ==
    LET f == FetchPayload(IF inner # 0 THEN inner ELSE outer,
                          IF w.comp THEN -1 ELSE IF w.enc = "cl" THEN w.declared ELSE -1,
                          IF w.comp THEN w.actual + LimGz ELSE w.actual, w.comp /\ Short(w), dflt) IN
    CASE f.k \in {"toolarge", "err"} -> [status |-> 500, intact |-> w.actual = 0 /\ ~Short(w), complete |-> TRUE, got |-> 0, bstatus |-> 200]
      [] f.k = "stream" -> [status |-> 200, intact |-> ~Short(w), complete |-> ~Short(w), got |-> f.len, bstatus |-> 200]
      [] OTHER          -> [status |-> 200, intact |-> TRUE, complete |-> TRUE, got |-> f.len, bstatus |-> 200]
=============================================================================

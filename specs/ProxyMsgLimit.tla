--------------------------- MODULE ProxyMsgLimit ---------------------------
(* C07.  Body limits in both directions: which limit applies (path over server over default;     *)
(* pool over proxy over default), and Request/Response.FetchPayload step by step, for a SEQUENCE  *)
(* of LimK identical requests served by the same mux / proxy instance:                            *)
(*     Route      mux.search: with a route cache (cacheSize > 0) the first request puts the route  *)
(*                it found into the cache, the following ones are served from the cache           *)
(*     Select     mux.serveHTTP / ServerPool.buildResponse pick the configured value (whatever    *)
(*                media type the body is labelled with)                                           *)
(*     Compress   (responses, compression active) compression.compress wraps the body: the length  *)
(*                becomes unknown, the body grows by the gzip framing, and a source that breaks    *)
(*                off makes the compress reader end with an error                                  *)
(*     Default    FetchPayload: 0 means DefaultMaxPayloadSize                                      *)
(*     Stream     negative: the body is not read at all, it is handed on as a stream               *)
(*     ByHeader   an announced Content-Length above the limit is refused without reading           *)
(*     ReadFull   announced length: exactly that many bytes are read (io.ReadFull)                  *)
(*     ReadLimited / Probe   unknown length: read at most `limit` bytes, then try to read one more *)
(*     Map        the outcome becomes 413 / 400 (mux) resp. 500 (proxy), or the message goes on     *)
(*     NextReq    the next request of the sequence                                                 *)
(*     Reload     (request direction) a hot update of the HTTPServer between the first and the      *)
(*                second request: mux.reload builds a new instance from the new spec (new rules,     *)
(*                empty route cache); the settings of the scenario's second pair are in force then    *)
(* A response scenario also says whether the route takes its REQUESTS in as streams (rstream:        *)
(* clientMaxBodySize -1): the limit of the response does not depend on it.                            *)
(* The contract (ProxyMsgDefs, Part 4) is stated on what client and backend observe for EACH       *)
(* request; it does not depend on the history.                                                     *)
(* Sizes are abstract (limits 3 and 5, default interval [8, 9]); the harness scales them.           *)
EXTENDS ProxyMsgDefs

CONSTANTS CodeDefault,    \* DefaultMaxPayloadSize of the code model: any value in [D.lo, D.hi] must do
          HitLimit,       \* "kept": the limit is selected per request (the code); "lost": negative control - a route
                          \* served from the cache has forgotten the limit (FetchPayload(0)), must violate the contract
          Exempt,         \* media type classes whose bodies the code model streams whatever the limit says: {} is the
                          \* code (limit selection never looks at Content-Type); non-empty: negative control, must
                          \* violate the contract (every wire of the scenario space carries a media type, w.ctype)
          Defect          \* "none": the code.  Negative controls, each must violate the contract:
                          \* "stale-reload": a hot update that changes nothing but the server-level limit keeps the
                          \*                 old instance (and with it the old server-level limit)
                          \* "coupled":      the response of a request taken in as a stream is handed on as a stream
                          \*                 when no serverMaxBodySize is configured

D == LimD
Inner == LimInner
Outer == LimOuter

VARIABLES dir, inner, outer, w, cache,   \* the scenario (cache: route cache enabled; w.comp: response compression)
          inner2, outer2,                \* ... the settings after the hot update (= inner, outer: there is none)
          rstream,                       \* ... (responses) the route takes requests in as streams
          cur,                           \* 1: the first settings are in force, 2: the hot update has happened
          k, rc,                         \* number of the request in the sequence; content of the route cache
          pc, hit, lim, cl, avail, bad,  \* the request in flight: program counter, route came from the cache, limit in use,
                                         \* announced length, bytes the source delivers, source ends with an error
          read, res                      \* bytes read, result of FetchPayload

vars == <<dir, inner, outer, w, cache, inner2, outer2, rstream, cur, k, rc, pc, hit, lim, cl, avail, bad, read, res>>
scn  == <<dir, inner, outer, w, cache, inner2, outer2, rstream>>

Updated == <<inner2, outer2>> # <<inner, outer>>
(* the settings in force *)
CI == IF cur = 2 THEN inner2 ELSE inner
CO == IF cur = 2 THEN outer2 ELSE outer
(* ... and the ones the code model works with *)
MI == CI
MO == IF Defect = "stale-reload" /\ cur = 2 /\ inner2 = inner THEN outer ELSE CO

Init == /\ dir \in {"req", "resp"} /\ inner \in Inner /\ outer \in Outer /\ w \in LimWires(dir, inner, outer)
        /\ cache \in (IF dir = "req" THEN BOOLEAN ELSE {FALSE})
        /\ \E u \in (IF dir = "req" THEN LimUpdates(inner, outer) ELSE {<<inner, outer>>}) : inner2 = u[1] /\ outer2 = u[2]
        /\ rstream \in (IF dir = "resp" THEN BOOLEAN ELSE {FALSE})
        /\ (Updated \/ rstream) => (~Short(w) /\ w.ctype = SecondaryCType)
        /\ cur = 1
        /\ k = 1 /\ rc = "empty"
        /\ pc = "Route" /\ hit = FALSE /\ lim = 0 /\ cl = -1 /\ avail = 0 /\ bad = FALSE /\ read = 0 /\ res = "-"

Go(p) == pc' = p /\ UNCHANGED scn /\ UNCHANGED <<k, cur>>

Route   == /\ pc = "Route" /\ hit' = (cache /\ rc = "route") /\ rc' = (IF cache THEN "route" ELSE rc)
           /\ Go("Select") /\ UNCHANGED <<lim, cl, avail, bad, read, res>>
Select  == /\ pc = "Select"
           /\ lim' = (IF w.ctype \in Exempt THEN -1
                      ELSE IF hit /\ HitLimit = "lost" THEN 0
                      ELSE IF Defect = "coupled" /\ dir = "resp" /\ rstream /\ MI = 0 /\ MO = 0 THEN -1
                      ELSE IF MI # 0 THEN MI ELSE MO)
           /\ cl' = (IF w.enc = "cl" THEN w.declared ELSE -1) /\ avail' = w.actual /\ bad' = FALSE
           /\ Go(IF w.comp THEN "Compress" ELSE "Default") /\ UNCHANGED <<rc, hit, read, res>>
Compress == /\ pc = "Compress" /\ cl' = -1 /\ avail' = avail + LimGz /\ bad' = Short(w)
            /\ Go("Default") /\ UNCHANGED <<rc, hit, lim, read, res>>
Default == pc = "Default" /\ lim' = (IF lim = 0 THEN CodeDefault ELSE lim) /\ Go("Branch") /\ UNCHANGED <<rc, hit, cl, avail, bad, read, res>>
Stream  == pc = "Branch" /\ lim < 0 /\ res' = "stream" /\ read' = avail /\ Go("Map") /\ UNCHANGED <<rc, hit, lim, cl, avail, bad>>
ByHeader == pc = "Branch" /\ lim >= 0 /\ cl > lim /\ res' = "toolarge" /\ Go("Map") /\ UNCHANGED <<rc, hit, lim, cl, avail, bad, read>>
ReadFull == /\ pc = "Branch" /\ lim >= 0 /\ cl <= lim /\ cl > 0
            /\ read' = Min2(avail, cl) /\ res' = (IF avail < cl THEN "err" ELSE "ok")
            /\ Go("Map") /\ UNCHANGED <<rc, hit, lim, cl, avail, bad>>
Empty   == pc = "Branch" /\ lim >= 0 /\ cl = 0 /\ res' = "ok" /\ Go("Map") /\ UNCHANGED <<rc, hit, lim, cl, avail, bad, read>>
ReadLimited == /\ pc = "Branch" /\ lim >= 0 /\ cl < 0
               /\ read' = Min2(avail, lim)
               /\ IF read' < lim THEN res' = (IF bad THEN "err" ELSE "ok") /\ Go("Map") ELSE res' = res /\ Go("Probe")
               /\ UNCHANGED <<rc, hit, lim, cl, avail, bad>>
Probe   == /\ pc = "Probe" /\ res' = (IF avail - read > 0 THEN "toolarge" ELSE IF bad THEN "err" ELSE "ok")
           /\ Go("Map") /\ UNCHANGED <<rc, hit, lim, cl, avail, bad, read>>
Map     == pc = "Map" /\ Go("done") /\ UNCHANGED <<rc, hit, lim, cl, avail, bad, read, res>>
NextReq == /\ pc = "done" /\ k < LimK /\ k' = k + 1 /\ pc' = "Route"
           /\ (k = 1 /\ Updated) => cur = 2          \* the hot update comes between the first and the second request
           /\ hit' = FALSE /\ lim' = 0 /\ cl' = -1 /\ avail' = 0 /\ bad' = FALSE /\ read' = 0 /\ res' = "-"
           /\ UNCHANGED scn /\ UNCHANGED <<rc, cur>>
(* mux.reload: a new muxInstance built from the new spec takes over - new rules, an empty route cache *)
Reload  == /\ pc = "done" /\ k = 1 /\ Updated /\ cur = 1
           /\ cur' = 2 /\ rc' = "empty"
           /\ UNCHANGED scn /\ UNCHANGED <<k, pc, hit, lim, cl, avail, bad, read, res>>

Next == Route \/ Select \/ Compress \/ Default \/ Stream \/ ByHeader \/ ReadFull \/ Empty \/ ReadLimited \/ Probe \/ Map \/ NextReq \/ Reload
Spec == Init /\ [][Next]_vars

(* what client / backend observe, from the step machine's result *)
ReqObs ==
    CASE res = "toolarge" -> [status |-> 413, forwarded |-> FALSE, intact |-> FALSE, bstatus |-> 200]
      [] res = "err"      -> [status |-> 400, forwarded |-> FALSE, intact |-> FALSE, bstatus |-> 200]
      [] res = "stream"   -> [status |-> IF Short(w) THEN 499 ELSE 200, forwarded |-> TRUE, intact |-> ~Short(w), bstatus |-> 200]
      [] OTHER            -> [status |-> 200, forwarded |-> TRUE, intact |-> read = w.actual, bstatus |-> 200]
RespObs ==
    CASE res \in {"toolarge", "err"} -> [status |-> 500, intact |-> w.actual = 0 /\ ~Short(w), complete |-> TRUE, got |-> 0, bstatus |-> 200]
      [] res = "stream" -> [status |-> 200, intact |-> ~Short(w), complete |-> ~Short(w), got |-> read, bstatus |-> 200]
      [] OTHER          -> [status |-> 200, intact |-> read = avail /\ ~bad, complete |-> TRUE, got |-> read, bstatus |-> 200]

(* (the result of a request is judged in the state it completes in: after Reload the settings have changed) *)
Done == pc = "done" /\ ~(k = 1 /\ cur = 2)
(* the property: for every request of the sequence *)
ReqLimit  == Done /\ dir = "req" => L_ReqContract(CI, CO, D, w, ReqObs)
RespLimit == Done /\ dir = "resp" => L_RespContract(CI, CO, D, w, RespObs)
(* clause by clause *)
Oversized413Unforwarded == Done /\ dir = "req" /\ ~Streams(CI, CO) /\ Announced(w) > EffHi(CI, CO, D)
                               => res = "toolarge"
ExactLimitPasses        == Done /\ dir = "req" /\ ~Streams(CI, CO) /\ ~Short(w) /\ Announced(w) <= EffLo(CI, CO, D)
                               => res = "ok" /\ read = w.actual
MinusOneStreams         == Done /\ Streams(CI, CO) => res = "stream"
BigResponseWithheld     == Done /\ dir = "resp" /\ ~Streams(CI, CO) /\ Announced(w) > EffHi(CI, CO, D)
                               => res \in {"toolarge", "err"}
ShortIsAnError          == Done /\ ~Streams(CI, CO) /\ Short(w) => res \in {"toolarge", "err"}
(* the step machine and the function used by the vector generator agree *)
Composed == Done => /\ dir = "req" => ReqObs = L_ReqModel(CI, CO, CodeDefault, w)
                    /\ dir = "resp" => RespObs = L_RespModel(CI, CO, CodeDefault, w)
=============================================================================

--------------------------- MODULE ProxyMsgLimit ---------------------------
(* C07.  Body limits in both directions: which limit applies (path over server over default;     *)
(* pool over proxy over default), and Request/Response.FetchPayload step by step, for a SEQUENCE  *)
(* of LimK identical requests served by the same mux / proxy instance:                            *)
(*     Route      mux.search: with a route cache (cacheSize > 0) the first request puts the route  *)
(*                it found into the cache, the following ones are served from the cache           *)
(*     Select     mux.serveHTTP / ServerPool.buildResponse pick the configured value (whatever    *)
(*                media type the body is labelled with)                                           *)
(*     Compress   (responses, compression active) compression.compress wraps the body: the length  *)
(*                becomes unknown, the body grows by the gzip framing, and a source that breaks    *)
(*                off makes the compress reader end with an error                                  *)
(*     Default    FetchPayload: 0 means DefaultMaxPayloadSize                                      *)
(*     Stream     negative: the body is not read at all, it is handed on as a stream               *)
(*     ByHeader   an announced Content-Length above the limit is refused without reading           *)
(*     ReadFull   announced length: exactly that many bytes are read (io.ReadFull)                  *)
(*     ReadLimited / Probe   unknown length: read at most `limit` bytes, then try to read one more *)
(*     Map        the outcome becomes 413 / 400 (mux) resp. 500 (proxy), or the message goes on     *)
(*     NextReq    the next request of the sequence                                                 *)
(* The contract (ProxyMsgDefs, Part 4) is stated on what client and backend observe for EACH       *)
(* request; it does not depend on the history.                                                     *)
(* Sizes are abstract (limits 3 and 5, default interval [8, 9]); the harness scales them.           *)
EXTENDS ProxyMsgDefs

CONSTANTS CodeDefault,    \* DefaultMaxPayloadSize of the code model: any value in [D.lo, D.hi] must do
          HitLimit,       \* "kept": the limit is selected per request (the code); "lost": negative control - a route
                          \* served from the cache has forgotten the limit (FetchPayload(0)), must violate the contract
          Exempt          \* media type classes whose bodies the code model streams whatever the limit says: {} is the
                          \* code (limit selection never looks at Content-Type); non-empty: negative control, must
                          \* violate the contract (every wire of the scenario space carries a media type, w.ctype)

D == LimD
Inner == LimInner
Outer == LimOuter

VARIABLES dir, inner, outer, w, cache,   \* the scenario (cache: route cache enabled; w.comp: response compression)
          k, rc,                         \* number of the request in the sequence; content of the route cache
          pc, hit, lim, cl, avail, bad,  \* the request in flight: program counter, route came from the cache, limit in use,
                                         \* announced length, bytes the source delivers, source ends with an error
          read, res                      \* bytes read, result of FetchPayload

vars == <<dir, inner, outer, w, cache, k, rc, pc, hit, lim, cl, avail, bad, read, res>>
scn  == <<dir, inner, outer, w, cache>>

Init == /\ dir \in {"req", "resp"} /\ inner \in Inner /\ outer \in Outer /\ w \in LimWires(dir, inner, outer)
        /\ cache \in (IF dir = "req" THEN BOOLEAN ELSE {FALSE})
        /\ k = 1 /\ rc = "empty"
        /\ pc = "Route" /\ hit = FALSE /\ lim = 0 /\ cl = -1 /\ avail = 0 /\ bad = FALSE /\ read = 0 /\ res = "-"

Go(p) == pc' = p /\ UNCHANGED scn /\ UNCHANGED k

Route   == /\ pc = "Route" /\ hit' = (cache /\ rc = "route") /\ rc' = (IF cache THEN "route" ELSE rc)
           /\ Go("Select") /\ UNCHANGED <<lim, cl, avail, bad, read, res>>
Select  == /\ pc = "Select"
           /\ lim' = (IF w.ctype \in Exempt THEN -1
                      ELSE IF hit /\ HitLimit = "lost" THEN 0 ELSE IF inner # 0 THEN inner ELSE outer)
           /\ cl' = (IF w.enc = "cl" THEN w.declared ELSE -1) /\ avail' = w.actual /\ bad' = FALSE
           /\ Go(IF w.comp THEN "Compress" ELSE "Default") /\ UNCHANGED <<rc, hit, read, res>>
Compress == /\ pc = "Compress" /\ cl' = -1 /\ avail' = avail + LimGz /\ bad' = Short(w)
            /\ Go("Default") /\ UNCHANGED <<rc, hit, lim, read, res>>
Default == pc = "Default" /\ lim' = (IF lim = 0 THEN CodeDefault ELSE lim) /\ Go("Branch") /\ UNCHANGED <<rc, hit, cl, avail, bad, read, res>>
Stream  == pc = "Branch" /\ lim < 0 /\ res' = "stream" /\ read' = avail /\ Go("Map") /\ UNCHANGED <<rc, hit, lim, cl, avail, bad>>
ByHeader == pc = "Branch" /\ lim >= 0 /\ cl > lim /\ res' = "toolarge" /\ Go("Map") /\ UNCHANGED <<rc, hit, lim, cl, avail, bad, read>>
ReadFull == /\ pc = "Branch" /\ lim >= 0 /\ cl <= lim /\ cl > 0
            /\ read' = Min2(avail, cl) /\ res' = (IF avail < cl THEN "err" ELSE "ok")
            /\ Go("Map") /\ UNCHANGED <<rc, hit, lim, cl, avail, bad>>
Empty   == pc = "Branch" /\ lim >= 0 /\ cl = 0 /\ res' = "ok" /\ Go("Map") /\ UNCHANGED <<rc, hit, lim, cl, avail, bad, read>>
ReadLimited == /\ pc = "Branch" /\ lim >= 0 /\ cl < 0
               /\ read' = Min2(avail, lim)
               /\ IF read' < lim THEN res' = (IF bad THEN "err" ELSE "ok") /\ Go("Map") ELSE res' = res /\ Go("Probe")
               /\ UNCHANGED <<rc, hit, lim, cl, avail, bad>>
Probe   == /\ pc = "Probe" /\ res' = (IF avail - read > 0 THEN "toolarge" ELSE IF bad THEN "err" ELSE "ok")
           /\ Go("Map") /\ UNCHANGED <<rc, hit, lim, cl, avail, bad, read>>
Map     == pc = "Map" /\ Go("done") /\ UNCHANGED <<rc, hit, lim, cl, avail, bad, read, res>>
NextReq == /\ pc = "done" /\ k < LimK /\ k' = k + 1 /\ pc' = "Route"
           /\ hit' = FALSE /\ lim' = 0 /\ cl' = -1 /\ avail' = 0 /\ bad' = FALSE /\ read' = 0 /\ res' = "-"
           /\ UNCHANGED scn /\ UNCHANGED rc

Next == Route \/ Select \/ Compress \/ Default \/ Stream \/ ByHeader \/ ReadFull \/ Empty \/ ReadLimited \/ Probe \/ Map \/ NextReq
Spec == Init /\ [][Next]_vars

(* what client / backend observe, from the step machine's result *)
ReqObs ==
    CASE res = "toolarge" -> [status |-> 413, forwarded |-> FALSE, intact |-> FALSE, bstatus |-> 200]
      [] res = "err"      -> [status |-> 400, forwarded |-> FALSE, intact |-> FALSE, bstatus |-> 200]
      [] res = "stream"   -> [status |-> IF Short(w) THEN 499 ELSE 200, forwarded |-> TRUE, intact |-> ~Short(w), bstatus |-> 200]
      [] OTHER            -> [status |-> 200, forwarded |-> TRUE, intact |-> read = w.actual, bstatus |-> 200]
RespObs ==
    CASE res \in {"toolarge", "err"} -> [status |-> 500, intact |-> w.actual = 0 /\ ~Short(w), complete |-> TRUE, got |-> 0, bstatus |-> 200]
      [] res = "stream" -> [status |-> 200, intact |-> ~Short(w), complete |-> ~Short(w), got |-> read, bstatus |-> 200]
      [] OTHER          -> [status |-> 200, intact |-> read = avail /\ ~bad, complete |-> TRUE, got |-> read, bstatus |-> 200]

Done == pc = "done"
(* the property: for every request of the sequence *)
ReqLimit  == Done /\ dir = "req" => L_ReqContract(inner, outer, D, w, ReqObs)
RespLimit == Done /\ dir = "resp" => L_RespContract(inner, outer, D, w, RespObs)
(* clause by clause *)
Oversized413Unforwarded == Done /\ dir = "req" /\ ~Streams(inner, outer) /\ Announced(w) > EffHi(inner, outer, D)
                               => res = "toolarge"
ExactLimitPasses        == Done /\ dir = "req" /\ ~Streams(inner, outer) /\ ~Short(w) /\ Announced(w) <= EffLo(inner, outer, D)
                               => res = "ok" /\ read = w.actual
MinusOneStreams         == Done /\ Streams(inner, outer) => res = "stream"
BigResponseWithheld     == Done /\ dir = "resp" /\ ~Streams(inner, outer) /\ Announced(w) > EffHi(inner, outer, D)
                               => res \in {"toolarge", "err"}
ShortIsAnError          == Done /\ ~Streams(inner, outer) /\ Short(w) => res \in {"toolarge", "err"}
(* the step machine and the function used by the vector generator agree *)
Composed == Done => /\ dir = "req" => ReqObs = L_ReqModel(inner, outer, CodeDefault, w)
                    /\ dir = "resp" => RespObs = L_RespModel(inner, outer, CodeDefault, w)
=============================================================================

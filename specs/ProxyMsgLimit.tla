--------------------------- MODULE ProxyMsgLimit ---------------------------
(* C07.  Body limits in both directions: which limit applies (path over server over default;     *)
(* pool over proxy over default), and Request/Response.FetchPayload step by step:                 *)
(*     Select     mux.serveHTTP / ServerPool.buildResponse pick the configured value              *)
(*     Default    FetchPayload: 0 means DefaultMaxPayloadSize                                      *)
(*     Stream     negative: the body is not read at all, it is handed on as a stream               *)
(*     ByHeader   an announced Content-Length above the limit is refused without reading           *)
(*     ReadFull   announced length: exactly that many bytes are read (io.ReadFull)                  *)
(*     ReadLimited / Probe   unknown length: read at most `limit` bytes, then try to read one more *)
(*     Map        the outcome becomes 413 / 400 (mux) resp. 500 (proxy), or the message goes on     *)
(* The contract (ProxyMsgDefs, Part 4) is stated on what client and backend observe.                *)
(* Sizes are abstract (limits 3 and 5, default interval [8, 9]); the harness scales them.           *)
EXTENDS ProxyMsgDefs

CONSTANT CodeDefault      \* DefaultMaxPayloadSize of the code model: any value in [D.lo, D.hi] must do

D == [lo |-> 8, hi |-> 9]

Inner == {0, 3, -1}
Outer == {0, 5, -1}

(* bodies around the effective limit: L-1, L, L+1, 4L (and empty); for streams: small and beyond the default *)
Sizes(i, o) == IF EffHi(i, o, D) < 0 THEN {0, 1, D.hi + 1}
               ELSE {0, EffLo(i, o, D) - 1, EffLo(i, o, D), EffHi(i, o, D) + 1, 4 * EffHi(i, o, D)}

Wires(dir, i, o) ==
    {[enc |-> "cl", declared |-> n, actual |-> n] : n \in Sizes(i, o)}
    \cup {[enc |-> "cl", declared |-> n, actual |-> n - 1] : n \in {x \in Sizes(i, o) : x > 0}}      \* lying length
    \cup {[enc |-> e, declared |-> -1, actual |-> m] : e \in (IF dir = "req" THEN {"chunked"} ELSE {"chunked", "close"}),
                                                       m \in Sizes(i, o)}

VARIABLES dir, inner, outer, w,   \* the scenario
          pc, lim, read, res      \* FetchPayload: program counter, limit in use, bytes read, result

vars == <<dir, inner, outer, w, pc, lim, read, res>>

Init == /\ dir \in {"req", "resp"} /\ inner \in Inner /\ outer \in Outer /\ w \in Wires(dir, inner, outer)
        /\ pc = "Select" /\ lim = 0 /\ read = 0 /\ res = "-"

CL == IF w.enc = "cl" THEN w.declared ELSE -1
Go(p) == pc' = p /\ UNCHANGED <<dir, inner, outer, w>>

Select  == pc = "Select" /\ lim' = (IF inner # 0 THEN inner ELSE outer) /\ Go("Default") /\ UNCHANGED <<read, res>>
Default == pc = "Default" /\ lim' = (IF lim = 0 THEN CodeDefault ELSE lim) /\ Go("Branch") /\ UNCHANGED <<read, res>>
Stream  == pc = "Branch" /\ lim < 0 /\ res' = "stream" /\ read' = w.actual /\ Go("Map") /\ UNCHANGED lim
ByHeader == pc = "Branch" /\ lim >= 0 /\ CL > lim /\ res' = "toolarge" /\ Go("Map") /\ UNCHANGED <<lim, read>>
ReadFull == /\ pc = "Branch" /\ lim >= 0 /\ CL <= lim /\ CL > 0
            /\ read' = Min2(w.actual, CL) /\ res' = (IF w.actual < CL THEN "err" ELSE "ok")
            /\ Go("Map") /\ UNCHANGED lim
Empty   == pc = "Branch" /\ lim >= 0 /\ CL = 0 /\ res' = "ok" /\ Go("Map") /\ UNCHANGED <<lim, read>>
ReadLimited == /\ pc = "Branch" /\ lim >= 0 /\ CL < 0
               /\ read' = Min2(w.actual, lim)
               /\ IF read' < lim THEN res' = "ok" /\ Go("Map") ELSE res' = res /\ Go("Probe")
               /\ UNCHANGED lim
Probe   == pc = "Probe" /\ res' = (IF w.actual - read > 0 THEN "toolarge" ELSE "ok") /\ Go("Map") /\ UNCHANGED <<lim, read>>
Map     == pc = "Map" /\ Go("done") /\ UNCHANGED <<lim, read, res>>

Next == Select \/ Default \/ Stream \/ ByHeader \/ ReadFull \/ Empty \/ ReadLimited \/ Probe \/ Map
Spec == Init /\ [][Next]_vars

(* what client / backend observe, from the step machine's result *)
ReqObs ==
    CASE res = "toolarge" -> [status |-> 413, forwarded |-> FALSE, intact |-> FALSE, bstatus |-> 200]
      [] res = "err"      -> [status |-> 400, forwarded |-> FALSE, intact |-> FALSE, bstatus |-> 200]
      [] res = "stream"   -> [status |-> IF Short(w) THEN 499 ELSE 200, forwarded |-> TRUE, intact |-> ~Short(w), bstatus |-> 200]
      [] OTHER            -> [status |-> 200, forwarded |-> TRUE, intact |-> read = w.actual, bstatus |-> 200]
RespObs ==
    CASE res \in {"toolarge", "err"} -> [status |-> 500, intact |-> w.actual = 0, complete |-> TRUE, got |-> 0, bstatus |-> 200]
      [] res = "stream" -> [status |-> 200, intact |-> ~Short(w), complete |-> ~Short(w), got |-> w.actual, bstatus |-> 200]
      [] OTHER          -> [status |-> 200, intact |-> read = w.actual, complete |-> TRUE, got |-> read, bstatus |-> 200]

Done == pc = "done"
(* the property *)
ReqLimit  == Done /\ dir = "req" => L_ReqContract(inner, outer, D, w, ReqObs)
RespLimit == Done /\ dir = "resp" => L_RespContract(inner, outer, D, w, RespObs)
(* clause by clause *)
Oversized413Unforwarded == Done /\ dir = "req" /\ ~Streams(inner, outer) /\ Announced(w) > EffHi(inner, outer, D)
                               => res = "toolarge"
ExactLimitPasses        == Done /\ dir = "req" /\ ~Streams(inner, outer) /\ ~Short(w) /\ Announced(w) <= EffLo(inner, outer, D)
                               => res = "ok" /\ read = w.actual
MinusOneStreams         == Done /\ Streams(inner, outer) => res = "stream"
BigResponseWithheld     == Done /\ dir = "resp" /\ ~Streams(inner, outer) /\ Announced(w) > EffHi(inner, outer, D)
                               => res \in {"toolarge", "err"}
ShortIsAnError          == Done /\ ~Streams(inner, outer) /\ Short(w) => res \in {"toolarge", "err"}
(* the step machine and the function used by the vector generator agree *)
Composed == Done => /\ dir = "req" => ReqObs = L_ReqModel(inner, outer, CodeDefault, w)
                    /\ dir = "resp" => RespObs = L_RespModel(inner, outer, CodeDefault, w)
=============================================================================

------------------------- MODULE ProxyMsgLimit_Gen -------------------------
(* Vector generator for C07: one state per scenario of ProxyMsgLimit (direction, the two limit      *)
(* settings, how the body is announced, its size relative to the effective limit, route cache on/off *)
(* for requests, response compression on/off for responses, media type the body is labelled with).   *)
(* `out` carries the scenario, the                                                                    *)
(* effective limit interval the CONTRACT derives from the settings (the harness scales it to bytes;  *)
(* it never computes a limit itself), the number of identical requests of the sequence and the       *)
(* observation the implementation-shaped layer predicts for each of them.  Exported with `tlc -dump`. *)
EXTENDS ProxyMsgDefs, Json, TLC

VARIABLES out, kind

D == LimD

Rel(i, o, n) == IF n = 0 THEN "zero"
                ELSE IF EffHi(i, o, D) < 0 THEN (IF n = 1 THEN "small" ELSE "beyond-default")
                ELSE IF n = EffLo(i, o, D) - 1 THEN "lo-1" ELSE IF n = EffLo(i, o, D) THEN "lo"
                ELSE IF n = EffHi(i, o, D) + 1 THEN "hi+1" ELSE IF n = EffLo(i, o, D) \div 2 THEN "half" ELSE "x4"

(* u = the settings after the hot update (= <<i, o>>: none), rs = the route takes requests in as streams *)
Vec(dir, i, o, w, cache, u, rs) ==
    [dir |-> dir, inner |-> i, outer |-> o, inner2 |-> u[1], outer2 |-> u[2], upd |-> u # <<i, o>>, rstream |-> rs,
     \* what the implementation-shaped layer predicts for the requests after the hot update
     exp2 |-> IF dir = "req" THEN L_ReqModel(u[1], u[2], D.hi, w) @@ [complete |-> TRUE, got |-> 0]
              ELSE L_RespModel(i, o, D.hi, w) @@ [forwarded |-> TRUE],
     stream2 |-> Streams(u[1], u[2]), enc |-> w.enc, ctype |-> w.ctype, short |-> Short(w), rel |-> Rel(i, o, Announced(w)),
     comp |-> w.comp, cache |-> cache, reqs |-> IF cache THEN LimK ELSE 1,
     stream |-> Streams(i, o), effLo |-> EffLo(i, o, D), effHi |-> EffHi(i, o, D),
     level |-> IF i # 0 THEN "inner" ELSE IF o # 0 THEN "outer" ELSE "default",
     exp |-> IF dir = "req" THEN L_ReqModel(i, o, D.hi, w) @@ [complete |-> TRUE, got |-> 0]
             ELSE L_RespModel(i, o, D.hi, w) @@ [forwarded |-> TRUE]]

Init == \E dir \in {"req", "resp"}, i \in LimInner, o \in LimOuter : \E w \in LimWires(dir, i, o) :
            \E cache \in (IF dir = "req" THEN BOOLEAN ELSE {FALSE}), rs \in (IF dir = "resp" THEN BOOLEAN ELSE {FALSE}) :
              \E u \in (IF dir = "req" THEN LimUpdates(i, o) ELSE {<<i, o>>}) :
                /\ (u # <<i, o>> \/ rs) => (~Short(w) /\ w.ctype = SecondaryCType)
                /\ kind = dir /\ out = ToJson(Vec(dir, i, o, w, cache, u, rs))
Next == UNCHANGED <<out, kind>>
Spec == Init /\ [][Next]_<<out, kind>>
=============================================================================

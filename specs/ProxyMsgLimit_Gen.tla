------------------------- MODULE ProxyMsgLimit_Gen -------------------------
(* Vector generator for C07: one state per scenario of ProxyMsgLimit (direction, the two limit      *)
(* settings, how the body is announced, its size relative to the effective limit).  `out` carries   *)
(* the scenario, the effective limit interval the CONTRACT derives from the settings (the harness    *)
(* scales it to bytes; it never computes a limit itself) and the observation the                     *)
(* implementation-shaped layer predicts.  Exported with `tlc -dump`.                                 *)
EXTENDS ProxyMsgDefs, Json, TLC

VARIABLES out, kind

D == [lo |-> 8, hi |-> 9]
Inner == {0, 3, -1}
Outer == {0, 5, -1}
Sizes(i, o) == IF EffHi(i, o, D) < 0 THEN {0, 1, D.hi + 1}
               ELSE {0, EffLo(i, o, D) - 1, EffLo(i, o, D), EffHi(i, o, D) + 1, 4 * EffHi(i, o, D)}
Wires(dir, i, o) ==
    {[enc |-> "cl", declared |-> n, actual |-> n] : n \in Sizes(i, o)}
    \cup {[enc |-> "cl", declared |-> n, actual |-> n - 1] : n \in {x \in Sizes(i, o) : x > 0}}
    \cup {[enc |-> e, declared |-> -1, actual |-> m] : e \in (IF dir = "req" THEN {"chunked"} ELSE {"chunked", "close"}),
                                                       m \in Sizes(i, o)}

Rel(i, o, n) == IF n = 0 THEN "zero"
                ELSE IF EffHi(i, o, D) < 0 THEN (IF n = 1 THEN "small" ELSE "beyond-default")
                ELSE IF n = EffLo(i, o, D) - 1 THEN "lo-1" ELSE IF n = EffLo(i, o, D) THEN "lo"
                ELSE IF n = EffHi(i, o, D) + 1 THEN "hi+1" ELSE "x4"

Vec(dir, i, o, w) ==
    [dir |-> dir, inner |-> i, outer |-> o, enc |-> w.enc, short |-> Short(w), rel |-> Rel(i, o, Announced(w)),
     stream |-> Streams(i, o), effLo |-> EffLo(i, o, D), effHi |-> EffHi(i, o, D),
     level |-> IF i # 0 THEN "inner" ELSE IF o # 0 THEN "outer" ELSE "default",
     exp |-> IF dir = "req" THEN L_ReqModel(i, o, D.hi, w) @@ [complete |-> TRUE, got |-> 0]
             ELSE L_RespModel(i, o, D.hi, w) @@ [forwarded |-> TRUE]]

Init == \E dir \in {"req", "resp"}, i \in Inner, o \in Outer : \E w \in Wires(dir, i, o) :
            kind = dir /\ out = ToJson(Vec(dir, i, o, w))
Next == UNCHANGED <<out, kind>>
Spec == Init /\ [][Next]_<<out, kind>>
=============================================================================

------------------------ MODULE ProxyMsgLimit_Trace ------------------------
(* Trace validation for C07.  Every line is one exchange observed on the real code: the limit       *)
(* settings (bytes), the body as announced and as really sent (w.comp: the proxy compresses the     *)
(* response), and what client and backend saw.  The exchanges of one sequence (k = 1, 2, ... on the  *)
(* same mux and proxy instance, route cache on or off) are separate lines: the contract judges each *)
(* request by itself.                                                                                *)
(* TLC evaluates the contract of ProxyMsgDefs Part 4 on it, with the real default interval          *)
(* [4 000 000, 4 194 304]; prints <<"VERIF_CASE", id, {violated}, {drifted fields}>> like            *)
(* ProxyMsg_Trace.                                                                                   *)
EXTENDS ProxyMsgDefs, Json, TLC, IOUtils

TLog == ndJsonDeserialize(IOEnv.VERIF_TRACE)

VARIABLE l

Viol(e) == IF e.dir = "req"
           THEN (IF L_ReqContract(e.inner, e.outer, RealDefault, e.w, e.o) THEN {} ELSE {"reqlimit"})
           ELSE (IF L_RespContract(e.inner, e.outer, RealDefault, e.w, e.o) THEN {} ELSE {"resplimit"})

(* a streamed request whose client stops early: 499 or 503, backend contacted or not - a race *)
Racy(e) == e.exp.status = 499
(* a compressed response whose size is within the gzip framing of the limit: the outcome depends on the
   real size of the gzip framing, which the model abstracts (the contract does not judge it either) *)
GzZone(e) == /\ e.dir = "resp" /\ e.w.comp /\ ~Streams(e.inner, e.outer)
             /\ Announced(e.w) + GzMax(RealDefault, Announced(e.w)) > EffLo(e.inner, e.outer, RealDefault)
Drift(e) == IF Racy(e) \/ GzZone(e) THEN {} ELSE
            (IF e.o.status = e.exp.status THEN {} ELSE {"status"}) \cup
            (IF e.dir = "req" /\ e.o.forwarded # e.exp.forwarded THEN {"forwarded"} ELSE {}) \cup
            (IF e.o.intact = e.exp.intact THEN {} ELSE {"intact"}) \cup
            (IF e.dir = "resp" /\ e.o.complete # e.exp.complete THEN {"complete"} ELSE {})

TStep ==
    /\ l <= Len(TLog)
    /\ LET e == TLog[l] IN (Viol(e) # {} \/ Drift(e) # {}) => PrintT(<<"VERIF_CASE", e.id, Viol(e), Drift(e)>>)
    /\ l' = l + 1

TInit == l = 1
TSpec == TInit /\ [][TStep]_l

ASSUME TLCSet(1, 0)
HWM == TLCSet(1, IF l - 1 > TLCGet(1) THEN l - 1 ELSE TLCGet(1))
Accepted == /\ PrintT(<<"VERIF_HWM", TLCGet(1), Len(TLog)>>)
            /\ TLCGet(1) = Len(TLog)
=============================================================================

---------------------------- MODULE ProxyMsgPar ----------------------------
(* C03, exchanges IN FLIGHT AT THE SAME TIME.  ProxyMsg explores one exchange at a time (and sequences *)
(* of them); this module runs the response direction of ProxyMsg - the same stage operators of       *)
(* ProxyMsgDefs, one action per stage - for several exchanges that overlap on ONE proxy instance:      *)
(*                                                                                                  *)
(*    slot 0       a warm-up exchange; it runs alone and completes first (whatever the proxy keeps   *)
(*                 between exchanges - the pool's memory cache, recycled buffers / compressors,        *)
(*                 connections - is in its steady state afterwards)                                     *)
(*    slots 1..P   P identical requests whose stages interleave arbitrarily                            *)
(*                                                                                                  *)
(* The contract is that of ProxyMsgDefs, per exchange: C03 is stated "for every request handled by a   *)
(* Proxy filter", so each of the overlapping exchanges must be faithful and well-framed by itself       *)
(* (ParFaithful), and in the model each is answered exactly as if it were alone (Isolated): the only     *)
(* state the stage operators share is the memory cache.                                                *)
(*                                                                                                  *)
(* What the exchanges could share besides the cache is modelled as a negative control: the gzip          *)
(* compressor behind compression.compress / ResponseAdaptor compress (readers.GZipCompressReader).       *)
(* With "GZOWN" in Fixed every compress reader owns its compressor (the code: gzip.NewWriter per         *)
(* reader).  Without it there is one compressor: an exchange that obtains it while another exchange's    *)
(* compress reader has not been read to the end takes it away from that reader, whose remaining output   *)
(* is lost (the client gets an empty body labelled gzip).  TLC must find the contract violation then.    *)
EXTENDS ProxyMsgDefs

CONSTANTS Fixed,      \* defects modelled as repaired (ProxyMsg.AllFixed, plus "GZOWN")
          ParSpace,   \* response scenarios explored (subset of ParScn)
          P           \* number of overlapping exchanges

Slots == 0..P

VARIABLES ps,    \* response scenario (configuration of the proxy instance, request and backend answer)
          pc,    \* slot -> next stage
          m,     \* slot -> message in flight (shape depends on the stage)
          hit,   \* slot -> answered from the cache
          gz,    \* slot -> holds a compress reader that has not been read to the end
          mc     \* the entry of the pool's memory cache

vars == <<ps, pc, m, hit, gz, mc>>

Init == /\ ps \in ParSpace
        /\ pc = [i \in Slots |-> "CacheLookup"] /\ m = [i \in Slots |-> [none |-> TRUE]]
        /\ hit = [i \in Slots |-> FALSE] /\ gz = [i \in Slots |-> FALSE] /\ mc = NoEntry

Started(i) == i = 0 \/ pc[0] = "done"

(* slot i obtains a compressor: with one shared compressor ("GZOWN" not repaired) the other readers
   that are still alive lose theirs - what they deliver from now on is nothing *)
Obtain(mm, i) == IF "GZOWN" \in Fixed THEN mm
                 ELSE [j \in Slots |-> IF j # i /\ gz[j] THEN [mm[j] EXCEPT !.payload.trunc = 0] ELSE mm[j]]

CacheLookup(i) ==
    /\ pc[i] = "CacheLookup" /\ Started(i)
    /\ IF ps.cache /\ ~mc.none
       THEN hit' = [hit EXCEPT ![i] = TRUE] /\ pc' = [pc EXCEPT ![i] = "RespAdaptor"] /\ m' = [m EXCEPT ![i] = FromCache(mc)]
       ELSE hit' = hit /\ pc' = [pc EXCEPT ![i] = "BackendSend"] /\ m' = m
    /\ UNCHANGED <<ps, gz, mc>>
BackendSend(i) ==
    /\ pc[i] = "BackendSend" /\ pc' = [pc EXCEPT ![i] = "TransportDecode"] /\ m' = [m EXCEPT ![i] = BackendResp(ps)]
    /\ UNCHANGED <<ps, hit, gz, mc>>
TransportDecode(i) ==
    /\ pc[i] = "TransportDecode" /\ pc' = [pc EXCEPT ![i] = "ProxyCompress"] /\ m' = [m EXCEPT ![i] = S_Transport(m[i], ps)]
    /\ UNCHANGED <<ps, hit, gz, mc>>
(* compression.compress: the compress reader is created here and lives until the body was read *)
ProxyCompress(i) ==
    /\ pc[i] = "ProxyCompress" /\ pc' = [pc EXCEPT ![i] = "RespFetch"]
    /\ LET r == S_Compress(m[i], ps, Fixed) IN
       /\ m' = IF r.compressed THEN Obtain([m EXCEPT ![i] = r], i) ELSE [m EXCEPT ![i] = r]
       /\ gz' = [gz EXCEPT ![i] = r.compressed]
    /\ UNCHANGED <<ps, hit, mc>>
(* Response.FetchPayload: a buffered body is read to the end here, a stream is handed on *)
RespFetch(i) ==
    /\ pc[i] = "RespFetch" /\ pc' = [pc EXCEPT ![i] = "CacheStore"]
    /\ LET r == S_Fetch(m[i], ps, Fixed) IN
       m' = [m EXCEPT ![i] = r] /\ gz' = [gz EXCEPT ![i] = gz[i] /\ r.streamed]
    /\ UNCHANGED <<ps, hit, mc>>
CacheStore(i) ==
    /\ pc[i] = "CacheStore" /\ pc' = [pc EXCEPT ![i] = "RespAdaptor"]
    /\ mc' = IF Storable(m[i], ps) THEN EntryOf(m[i]) ELSE mc
    /\ UNCHANGED <<ps, m, hit, gz>>
(* ResponseAdaptor.Handle; its compress: a compress reader of its own - read to the end inside Handle
   for a buffered body, handed on for a stream *)
AdaptorGz(r) == ~r.failed /\ Compresses(ps.rsa) /\ (ReplacesBody(ps.rsa) \/ r.label # "gzip")
RespAdaptor(i) ==
    /\ pc[i] = "RespAdaptor" /\ pc' = [pc EXCEPT ![i] = "MuxWrite"]
    /\ LET r == S_RespAdaptor(m[i], ps, Fixed) IN
       /\ m' = IF AdaptorGz(m[i]) THEN Obtain([m EXCEPT ![i] = r], i) ELSE [m EXCEPT ![i] = r]
       /\ gz' = [gz EXCEPT ![i] = (gz[i] /\ ~ReplacesBody(ps.rsa)) \/ (AdaptorGz(m[i]) /\ r.streamed)]
       /\ mc' = IF hit[i] THEN AfterHit(mc, r, Fixed) ELSE mc
    /\ UNCHANGED <<ps, hit>>
(* mux write-out: a streamed body is read to the end here *)
MuxWrite(i) ==
    /\ pc[i] = "MuxWrite" /\ pc' = [pc EXCEPT ![i] = "ClientRecv"] /\ m' = [m EXCEPT ![i] = S_Write(m[i], ps, Fixed)]
    /\ gz' = [gz EXCEPT ![i] = FALSE]
    /\ UNCHANGED <<ps, hit, mc>>
ClientRecv(i) ==
    /\ pc[i] = "ClientRecv" /\ pc' = [pc EXCEPT ![i] = "done"]
    /\ UNCHANGED <<ps, m, hit, gz, mc>>

Next == \E i \in Slots : \/ CacheLookup(i) \/ BackendSend(i) \/ TransportDecode(i) \/ ProxyCompress(i) \/ RespFetch(i)
                         \/ CacheStore(i) \/ RespAdaptor(i) \/ MuxWrite(i) \/ ClientRecv(i)
Spec == Init /\ [][Next]_vars

(* the exchange of slot i once it is complete (the request direction is the default request, delivered
   when the backend is asked) *)
K(i) == IF i = 0 THEN 1 ELSE 2
BsOf(i) == IF hit[i] THEN {} ELSE RunReq(DefaultReqScn, Fixed)
X(i) == [cfg |-> Cfg(DefaultReqScn, ps, K(i)), c |-> CAbs(ClientReq(DefaultReqScn)), bs |-> BsOf(i), times |-> Cardinality(BsOf(i)),
         br |-> BRAbs(BackendResp(ps), ps), cr |-> m[i]]

(* ---- the property ---- *)
ParFaithful == \A i \in Slots : pc[i] = "done" => Violated(X(i)) = {}
(* every exchange is answered as if it were alone (after the warm-up) *)
Isolated    == \A i \in Slots : pc[i] = "done" => m[i] = RunRespK(ps, Fixed, K(i))
(* at most the exchanges in flight hold a compress reader *)
GzInFlight  == \A i \in Slots : gz[i] => pc[i] \in {"RespFetch", "CacheStore", "RespAdaptor", "MuxWrite"}

ParAllFixed == {"F5", "F6", "F7", "HEAD", "METRIC", "ABORT", "CLONE", "MULTI", "GZOWN"}
=============================================================================

--------------------------- MODULE ProxyMsgParReq ---------------------------
(* C03, exchanges IN FLIGHT AT THE SAME TIME, request direction.  ProxyMsgPar overlaps the response   *)
(* direction of several exchanges on one proxy instance; this module does the same for the way IN:    *)
(* the stage operators of ProxyMsgDefs, one action per stage, for                                       *)
(*                                                                                                  *)
(*    slot 0       a warm-up exchange; it runs alone and completes first                                 *)
(*    slots 1..P   P requests with the same framing and length, each with a body of ITS OWN, whose       *)
(*                 stages interleave arbitrarily: in particular a request may have been taken in by the    *)
(*                 mux (MuxFetch: httpprot.NewRequest + Request.FetchPayload) and then stay where it is -    *)
(*                 parked in front of the pipeline, in an adaptor, in the pool - while later requests      *)
(*                 are taken in and run to completion                                                      *)
(*                                                                                                  *)
(* The contract is that of ProxyMsgDefs, per exchange ("for every request handled by a Proxy filter"):  *)
(* each backend must receive the body of ITS client (ParReqFaithful, clause reqbody), and in the model  *)
(* each is delivered exactly as if it were alone (IsolatedReq).                                          *)
(*                                                                                                  *)
(* What the exchanges could share on the way in is the memory a buffered body is read into.  With        *)
(* "RBUFOWN" in Fixed every request owns its payload (the code: io.ReadAll / make per request).  The      *)
(* negative control - without it - reads a body of UNKNOWN length (chunked; a declared length is read     *)
(* into a slice of its own) into a buffer taken from a free list, hands the payload out as a view of that  *)
(* buffer and puts the buffer back when FetchPayload returns: the next body read into it replaces what a    *)
(* request still in flight will send.  TLC must find the contract violation then.                          *)
EXTENDS ProxyMsgDefs

CONSTANTS Fixed,         \* defects modelled as repaired (ProxyMsg.AllFixed, plus "RBUFOWN")
          ParReqSpace,   \* request scenarios explored
          P              \* number of overlapping exchanges

Slots == 0..P
Bufs  == 1..(P + 1)
SlotBody == <<"c-body-0", "c-body-1", "c-body-2", "c-body-3", "c-body-4">>
ASSUME P + 1 <= Len(SlotBody)

VARIABLES rs,     \* request scenario (configuration of the instance and shape of the requests)
          pc,     \* slot -> next stage
          m,      \* slot -> message in flight
          bs,     \* slot -> the requests the backend received for it
          ref,    \* slot -> 0: the message owns its payload; b: its payload is a view of buffer b
          bufc,   \* buffer -> the payload last read into it
          free    \* the free list

vars == <<rs, pc, m, bs, ref, bufc, free>>

(* the request of slot i: the scenario's request with a body of its own *)
ClientReqOf(i) == LET c == ClientReq(rs) IN IF rs.rbody = "none" THEN c ELSE [c EXCEPT !.payload.id = SlotBody[i + 1]]

Init == /\ rs \in ParReqSpace
        /\ pc = [i \in Slots |-> "ClientSend"] /\ m = [i \in Slots |-> [none |-> TRUE]] /\ bs = [i \in Slots |-> {}]
        /\ ref = [i \in Slots |-> 0] /\ bufc = [b \in Bufs |-> EmptyP] /\ free = {}

Started(i) == i = 0 \/ pc[0] = "done"

(* the message of slot i as the next stage sees it *)
Cur(i) == IF ref[i] = 0 THEN m[i] ELSE [m[i] EXCEPT !.payload = bufc[ref[i]]]

ClientSend(i) ==
    /\ pc[i] = "ClientSend" /\ Started(i)
    /\ pc' = [pc EXCEPT ![i] = "MuxFetch"] /\ m' = [m EXCEPT ![i] = ClientReqOf(i)]
    /\ UNCHANGED <<rs, bs, ref, bufc, free>>
(* net/http server + mux.serveHTTP: Request.FetchPayload reads a buffered body *)
Shared == "RBUFOWN" \notin Fixed /\ rs.reqMode = "buf" /\ rs.rbody = "chunked"
MuxFetch(i) ==
    /\ pc[i] = "MuxFetch" /\ pc' = [pc EXCEPT ![i] = "ReqAdaptor"]
    /\ LET r == S_Server(m[i], rs) IN
       /\ m' = [m EXCEPT ![i] = r]
       /\ IF Shared
          THEN \E b \in (IF free # {} THEN free ELSE {CHOOSE x \in Bufs : \A j \in Slots : ref[j] # x}) :
                  /\ bufc' = [bufc EXCEPT ![b] = r.payload] /\ ref' = [ref EXCEPT ![i] = b]
                  /\ free' = free \cup {b}              \* put back when FetchPayload returns
          ELSE UNCHANGED <<ref, bufc, free>>
    /\ UNCHANGED <<rs, bs>>
(* RequestAdaptor.Handle: a replaced / recoded body is a new payload of the request's own *)
ReqAdaptor(i) ==
    /\ pc[i] = "ReqAdaptor" /\ pc' = [pc EXCEPT ![i] = "ProxyPrepare"]
    /\ LET r == S_ReqAdaptor(Cur(i), rs, Fixed) IN
       /\ m' = [m EXCEPT ![i] = r]
       /\ ref' = [ref EXCEPT ![i] = IF r.payload # Cur(i).payload THEN 0 ELSE @]
    /\ UNCHANGED <<rs, bs, bufc, free>>
(* prepareRequest + send: the backend receives what the payload holds now *)
ProxyPrepare(i) ==
    /\ pc[i] = "ProxyPrepare" /\ pc' = [pc EXCEPT ![i] = "done"]
    /\ LET b == S_Prepare(Cur(i), rs, Fixed, 1) IN bs' = [bs EXCEPT ![i] = IF b.reached THEN {b} ELSE {}]
    /\ UNCHANGED <<rs, m, ref, bufc, free>>

Next == \E i \in Slots : ClientSend(i) \/ MuxFetch(i) \/ ReqAdaptor(i) \/ ProxyPrepare(i)
Spec == Init /\ [][Next]_vars

(* the exchange of slot i once it is complete (the response direction is the default one, in one step) *)
X(i) == [cfg |-> Cfg(rs, DefaultRespScn, 1), c |-> CAbs(ClientReqOf(i)), bs |-> bs[i], times |-> Cardinality(bs[i]),
         br |-> BRAbs(BackendResp(DefaultRespScn), DefaultRespScn),
         cr |-> IF bs[i] # {} THEN RunResp(DefaultRespScn, Fixed) ELSE S_Write(Failure500, DefaultRespScn, Fixed)]

(* ---- the property ---- *)
ParReqFaithful == \A i \in Slots : pc[i] = "done" => Violated(X(i)) = {}
(* every request is delivered as if it were alone *)
Alone(i) == S_Prepare(S_ReqAdaptor(S_Server(ClientReqOf(i), rs), rs, Fixed), rs, Fixed, 1)
IsolatedReq    == \A i \in Slots : pc[i] = "done" => bs[i] = {b \in {Alone(i)} : b.reached}

ParReqAllFixed == {"F5", "F6", "F7", "HEAD", "METRIC", "ABORT", "CLONE", "MULTI", "RBUFOWN"}
=============================================================================

---------------------------- MODULE ProxyMsg_Gen ----------------------------
(* Vector generator for C03: one state per scenario of ProxyMsg (request scenarios and response    *)
(* scenarios separately; the driver pairs them).  `out` = the scenario, features derived by the    *)
(* specification (used in violation signatures) and the outcome the repaired implementation-shaped *)
(* layer predicts for it.  Exported with `tlc -dump`.                                              *)
(* Two modes: "scn" enumerates the scenarios of the two spaces (scenario, stratum, sequence length; *)
(* cheap); the driver draws the cases from them and hands the scenarios it drew back (file named by *)
(* IOEnv.VERIF_PICK, one [dir, s] per line); "vec" computes the full vector of each of those.        *)
EXTENDS ProxyMsgDefs, Json, IOUtils

CONSTANTS ReqSpace, RespSpace, Mode

Chosen == ndJsonDeserialize(IOEnv.VERIF_PICK)

VARIABLES out,    \* the vector, as JSON text ("": not computed yet)
          kind,   \* "req" | "resp" | "dims"
          scn     \* the scenario

AllFixed == {"F5", "F6", "F7", "HEAD", "METRIC", "ABORT", "CLONE", "MULTI"}

PathClass == <<"plain", "esc-unreserved", "esc-space", "esc-slash", "esc-qmark", "esc-hash", "esc-pct",
               "esc-pct-hex", "esc-ctl", "subdelims", "esc-utf8", "bang", "esc-slash-lc",
               "lead-empty", "only-slashes", "lead-empty-esc", "inner-empty", "trail-empty", "dot-segments">>
ASSUME Len(PathClass) = Len(Paths)
QueryClass == <<"none", "plain", "esc-multi">>

(* the stratum the driver draws a request scenario from: the load-balancing policies, the path / query classes, the rest *)
Stratum(s) == IF s.lb # "default" THEN "lb" ELSE IF s.path # 1 \/ s.query # 1 THEN "target" ELSE "main"
ReqRec(s)  == [dir |-> "req", s |-> s, stratum |-> Stratum(s)]
RespRec(s) == [dir |-> "resp", s |-> s, reqs |-> Reqs(s), parOk |-> s \in ParScn]

ReqVec(s) ==
    [dir |-> "req", s |-> s, pathcls |-> PathClass[s.path], querycls |-> QueryClass[s.query],
     stratum |-> Stratum(s),
     path |-> Paths[s.path], query |-> Queries[s.query],
     exp |-> Outcome(Exchange(s, DefaultRespScn, AllFixed))]

(* features of a response scenario on the pinned code path *)
AtCompress(s) == S_Transport(BackendResp(s), s)
AtAdaptor(s)  == S_Fetch(S_Compress(AtCompress(s), s, AllFixed), s, AllFixed)
RespFeat(s) ==
    [compressApplies |-> S_Compress(AtCompress(s), s, AllFixed) # AtCompress(s),
     \* compression.compress replaces the body while http.Response.ContentLength is positive
     compressOnKnownLength |-> S_Compress(AtCompress(s), s, AllFixed) # AtCompress(s) /\ AtCompress(s).gocl > 0,
     \* a Content-Length header is still there when the ResponseAdaptor runs
     clAtAdaptor |-> AtAdaptor(s).clhdr >= 0,
     \* response to HEAD that announces the length of the would-be body
     headWithLength |-> s.head /\ AtCompress(s).gocl > 0,
     \* a bodiless answer (HEAD, 304) whose headers declare the length of the representation
     bodilessWithLength |-> NoBody(s) /\ AtCompress(s).clhdr >= 0,
     transparentGunzip |-> AtCompress(s).label # BackendResp(s).label,
     \* a body that breaks off is handed on as a stream after its Content-Length header was dropped
     brokenUnframedStream |-> s.short /\ AtAdaptor(s).streamed /\ S_RespAdaptor(AtAdaptor(s), s, AllFixed).clhdr < 0]

RespVec(s) ==
    [dir |-> "resp", s |-> s, feat |-> RespFeat(s), replaces |-> ReplacesBody(s.rsa), minLength |-> IF s.comp = "off" THEN -1 ELSE MinLength(s.comp),
     reqs |-> Reqs(s), parOk |-> s \in ParScn,
     \* one prediction per request of the sequence
     exps |-> [kk \in 1..Reqs(s) |-> Outcome(ExchangeK(DefaultReqScn, s, AllFixed, kk))]]

(* dimensions that no stage operator and no clause depends on: the driver spreads their values over the
   cases (media type of the backend's response / of the client's request body; number of exchanges in
   flight at the same time on one proxy instance, see ProxyMsgPar) *)
Dims == [dir |-> "dims", ctypes |-> CTypeSeq, par |-> ParDegrees]

(* "vec": the scenarios are the initial states, the vector of each is computed by a step (TLC computes
   initial states with one thread, steps with all workers); the driver skips the states without a vector *)
Init == IF Mode = "scn"
        THEN /\ scn = [none |-> TRUE]
             /\ \/ kind = "req" /\ \E s \in ReqSpace : out = ToJson(ReqRec(s))
                \/ kind = "resp" /\ \E s \in RespSpace : out = ToJson(RespRec(s))
                \/ kind = "dims" /\ out = ToJson(Dims)
        ELSE /\ out = ""
             /\ \E i \in 1..Len(Chosen) : kind = Chosen[i].dir /\ scn = Chosen[i].s
Next == /\ Mode = "vec" /\ out = "" /\ UNCHANGED <<kind, scn>>
        /\ out' = IF kind = "req" THEN ToJson(ReqVec(scn)) ELSE ToJson(RespVec(scn))
Spec == Init /\ [][Next]_<<out, kind, scn>>
=============================================================================

--------------------------- MODULE ProxyMsg_Trace ---------------------------
(* Trace validation for C03.  Every line of the trace is one complete exchange observed on the     *)
(* (the exchanges of a sequence of identical requests to one proxy instance are separate lines; the *)
(* contract judges each by itself, cfg.mayHit tells that an earlier one may have filled a cache)    *)
(* real code over sockets: what the raw client sent (c), what the raw backends received (bs) and    *)
(* answered (br), what the raw client got back (cr), and the configuration (cfg).  TLC evaluates   *)
(* the contract of ProxyMsgDefs on it.  Every exchange is consumed; for an exchange that violates   *)
(* clauses of the contract, or whose abstract outcome differs from what the implementation-shaped  *)
(* layer predicted for its scenario (`exp`, taken from the vector), a line                          *)
(*      <<"VERIF_CASE", id, {violated clauses}, {outcome fields that differ}>>                      *)
(* is printed; the driver turns the former into verdicts and the latter into model-drift notes.     *)
EXTENDS ProxyMsgDefs, Json, TLC, IOUtils

TLog == ndJsonDeserialize(IOEnv.VERIF_TRACE)

VARIABLE l

Msg(j) == [method |-> j.method, target |-> j.target, host |-> j.host, hdr |-> Range(j.hdr), conn |-> Range(j.conn),
           body |-> j.body]

XOf(e) ==
    [cfg |-> [addrIsName |-> e.cfg.addrIsName, keepHost |-> e.cfg.keepHost, maxAttempts |-> e.cfg.maxAttempts, mayHit |-> e.cfg.mayHit,
              raReplaces |-> e.cfg.raReplaces, raRecodes |-> e.cfg.raRecodes, raBody |-> e.cfg.raBody,
              raTouched |-> Range(e.cfg.raTouched),
              rsaReplaces |-> e.cfg.rsaReplaces, rsaBody |-> e.cfg.rsaBody, rsaTouched |-> Range(e.cfg.rsaTouched)],
     c  |-> Msg(e.c),
     bs |-> {Msg(j) @@ [n |-> j.n, via |-> j.via] : j \in Range(e.bs)},
     times |-> Len(e.bs),
     br |-> [status |-> e.br.status, hdr |-> Range(e.br.hdr), conn |-> Range(e.br.conn), nobody |-> e.br.nobody,
             short |-> e.br.short, declared |-> e.br.declared, body |-> e.br.body],
     cr |-> [status |-> e.cr.status, hdr |-> Range(e.cr.hdr), body |-> e.cr.body, framing |-> e.cr.framing,
             declared |-> e.cr.declared, got |-> e.cr.got, complete |-> e.cr.complete, after |-> e.cr.after]]

(* loose = whether a backend is asked, and how often, is not predicted: a repeated request to a pool
   with a memory cache (the real cache has admission rules of its own: Cache-Control, methods), a backend
   response that breaks off (a retry policy tries again) *)
Drift(o, exp, loose) ==
    (IF loose \/ o.times = exp.times THEN {} ELSE {"times"}) \cup
    (IF loose \/ o.pathrel = exp.pathrel THEN {} ELSE {"pathrel"}) \cup
    (IF loose \/ o.blabel = exp.blabel THEN {} ELSE {"blabel"}) \cup
    (IF loose \/ o.hostis = exp.hostis THEN {} ELSE {"hostis"}) \cup
    (IF o.status = exp.status THEN {} ELSE {"status"}) \cup
    (IF o.clabel = exp.clabel THEN {} ELSE {"clabel"})

TStep ==
    /\ l <= Len(TLog)
    /\ LET e == TLog[l]
           x == XOf(e)
           v == Violated(x)
           \* (a response that breaks off: whether the client sees the status line at all depends on timing)
           d == IF e.br.short THEN {} ELSE Drift(Outcome(x), e.exp, e.cfg.mayHit)
       IN (v # {} \/ d # {}) => PrintT(<<"VERIF_CASE", e.id, v, d>>)
    /\ l' = l + 1

TInit == l = 1
TSpec == TInit /\ [][TStep]_l

ASSUME TLCSet(1, 0)
HWM == TLCSet(1, IF l - 1 > TLCGet(1) THEN l - 1 ELSE TLCGet(1))
Accepted == /\ PrintT(<<"VERIF_HWM", TLCGet(1), Len(TLog)>>)
            /\ TLCGet(1) = Len(TLog)
=============================================================================

--------------------------- MODULE ProxyMsg_Trace ---------------------------
(* Trace validation for C03.  Every line of the trace is one complete exchange observed on the     *)
(* real code over sockets: what the raw client sent (c), what the raw backends received (bs) and    *)
(* answered (br), what the raw client got back (cr), and the configuration (cfg).  TLC evaluates   *)
(* the contract of ProxyMsgDefs on it.  Every exchange is consumed; for an exchange that violates   *)
(* clauses of the contract, or whose abstract outcome differs from what the implementation-shaped  *)
(* layer predicted for its scenario (`exp`, taken from the vector), a line                          *)
(*      <<"VERIF_CASE", id, {violated clauses}, {outcome fields that differ}>>                      *)
(* is printed; the driver turns the former into verdicts and the latter into model-drift notes.     *)
EXTENDS ProxyMsgDefs, Json, TLC, IOUtils

TLog == ndJsonDeserialize(IOEnv.VERIF_TRACE)

VARIABLE l

Msg(j) == [method |-> j.method, target |-> j.target, host |-> j.host, hdr |-> Range(j.hdr), conn |-> Range(j.conn),
           body |-> j.body]

XOf(e) ==
    [cfg |-> [addrIsName |-> e.cfg.addrIsName, keepHost |-> e.cfg.keepHost, maxAttempts |-> e.cfg.maxAttempts,
              raReplaces |-> e.cfg.raReplaces, raRecodes |-> e.cfg.raRecodes, raBody |-> e.cfg.raBody,
              raTouched |-> Range(e.cfg.raTouched),
              rsaReplaces |-> e.cfg.rsaReplaces, rsaBody |-> e.cfg.rsaBody, rsaTouched |-> Range(e.cfg.rsaTouched)],
     c  |-> Msg(e.c),
     bs |-> {Msg(j) @@ [n |-> j.n, via |-> j.via] : j \in Range(e.bs)},
     times |-> Len(e.bs),
     br |-> [status |-> e.br.status, hdr |-> Range(e.br.hdr), conn |-> Range(e.br.conn), nobody |-> e.br.nobody,
             body |-> e.br.body],
     cr |-> [status |-> e.cr.status, hdr |-> Range(e.cr.hdr), body |-> e.cr.body, framing |-> e.cr.framing,
             declared |-> e.cr.declared, got |-> e.cr.got, complete |-> e.cr.complete, after |-> e.cr.after]]

Drift(o, exp) ==
    (IF o.times = exp.times THEN {} ELSE {"times"}) \cup
    (IF o.pathrel = exp.pathrel THEN {} ELSE {"pathrel"}) \cup
    (IF o.blabel = exp.blabel THEN {} ELSE {"blabel"}) \cup
    (IF o.hostis = exp.hostis THEN {} ELSE {"hostis"}) \cup
    (IF o.status = exp.status THEN {} ELSE {"status"}) \cup
    (IF o.clabel = exp.clabel THEN {} ELSE {"clabel"})

TStep ==
    /\ l <= Len(TLog)
    /\ LET e == TLog[l]
           x == XOf(e)
           v == Violated(x)
           d == Drift(Outcome(x), e.exp)
       IN (v # {} \/ d # {}) => PrintT(<<"VERIF_CASE", e.id, v, d>>)
    /\ l' = l + 1

TInit == l = 1
TSpec == TInit /\ [][TStep]_l

ASSUME TLCSet(1, 0)
HWM == TLCSet(1, IF l - 1 > TLCGet(1) THEN l - 1 ELSE TLCGet(1))
Accepted == /\ PrintT(<<"VERIF_HWM", TLCGet(1), Len(TLog)>>)
            /\ TLCGet(1) = Len(TLog)
=============================================================================

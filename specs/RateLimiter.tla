----------------------------- MODULE RateLimiter -----------------------------
(* C09.  easegress' rate limiter (pkg/util/ratelimiter: RateLimiter, MultiRateLimiter).           *)
(*                                                                                              *)
(* Two layers.                                                                                  *)
(*                                                                                              *)
(* CONTRACT (what the property says).  Time is cut into refresh cycles of length P aligned to   *)
(* the limiter's start.  The abstract state is the reservation table `resv`: for every cycle    *)
(* not yet over, how many of its L permits are taken, and the ground truth `rel`: which         *)
(* admitted requests are *released* (arrival + imposed wait) in which cycle.  A reply           *)
(* (ok, w) to an arrival at time t is ALLOWED iff                                               *)
(*     ok :  0 <= w <= T,  the cycle of t+w still has a spare permit,  and w = 0 if the         *)
(*           current cycle has a spare permit;                                                  *)
(*    ~ok :  every cycle from the current one up to the horizon H = T \div P is full.           *)
(* Nothing else is demanded: which later cycle is used and where inside it the release falls    *)
(* are free, a full horizon may be answered by a rejection or by an admission into a still      *)
(* reachable later cycle.  The clauses of C09 are invariants / action properties of this layer. *)
(*                                                                                              *)
(* IMPLEMENTATION-SHAPED (what the code does).  acquirePermission is one critical section:      *)
(* the pair (cyc, tok) = (rl.cycle, rl.tokens) "tokens handed out since the start of cycle      *)
(* cyc", rolled forward to the current cycle (tok - (c - cyc) * L, clamped at 0), compared      *)
(* with maxTokens = L * (T \div P + 1), incremented, and the wait computed as                   *)
(* (c + tok \div L) * P - now.  Next drives the contract's state with the implementation's      *)
(* replies; Conforms (every reply is ALLOWED) and RefInv (tok = the reservations from the       *)
(* current cycle on, packed first-fit) are the refinement.                                      *)
(*                                                                                              *)
(* The module is written for D >= 1 token dimensions so that it covers AcquireNPermission (n    *)
(* tokens at once: the request is released when its *first* token is available, the rest        *)
(* spills into the following cycles) and MultiRateLimiter (D = 2, used by the MQTT proxy with   *)
(* T = 0).  The HTTP filter uses D = 1, n = 1.                                                  *)
(*                                                                                              *)
(* Scope for D >= 2 with T > 0 (MultiRateLimiter with a timeout; easegress never builds one).   *)
(* There the code charges a request, per dimension, to that dimension's own first free cycle     *)
(* but releases it at the latest of them, so its token counters are not the reservation table    *)
(* of this contract (Conforms / RefInv / PerPeriodBound / ImmediateIfSpare / RejectOnlyIfFull    *)
(* fail on the unchanged code: recorded as a lead, outside C09's quantifier).  WaitBound is a    *)
(* statement about the reply alone - "no admitted request is made to wait longer than           *)
(* timeoutDuration" - and needs no reservation table: it is the one clause model-checked         *)
(* (grid GridMW), replayed and trace-validated for these limiters.  It holds for the arithmetic  *)
(* because a request is admitted only if every dimension is below L*(H+1) tokens, so every       *)
(* dimension's first free cycle is at most H cycles ahead.                                       *)
(* Durations are integers (model checking: ticks; trace validation: microseconds).              *)
EXTENDS Integers, Sequences, FiniteSets

CONSTANTS Policies,   \* set of [L |-> <<L1..LD>>, P |-> period, T |-> timeout]
          Gaps,       \* inter-arrival gaps explored (model checking / generation only)
          Counts,     \* token-count vectors explored
          MaxNow, MaxArr,
          WithSetState  \* BOOLEAN: explore SetState(StateDisabled) / SetState(StateNormal) too

VARIABLES pol,    \* the policy (constant along a behaviour)
          now,    \* time of the last event, measured from the creation of the limiter
          start,  \* origin of the cycles (0; moved by re-enabling a disabled limiter)
          dis,    \* TRUE while the limiter is in StateDisabled
          resv,   \* contract: per dimension, cycle -> permits of that cycle already taken (sparse)
          rel,    \* ground truth: cycle -> [req, tok, lastn] of the requests released in it (sparse)
          narr,   \* number of arrivals so far (bounds the model)
          last,   \* observation of the step just taken (not in the VIEW)
          cyc,    \* implementation: rl.cycle
          tok,    \* implementation: rl.tokens (one per dimension)
          conf    \* implementation's last reply was allowed by the contract

vars == <<pol, now, start, dis, resv, rel, narr, last, cyc, tok, conf>>
view == <<pol, now, start, dis, resv, rel, narr, cyc, tok, conf>>

Dims == 1..Len(pol.L)
Zero == [i \in Dims |-> 0]
Cyc(t) == (t - start) \div pol.P          \* index of the refresh cycle that contains time t
H == pol.T \div pol.P                      \* later cycles whose start is certainly within the timeout

Min(a, b) == IF a < b THEN a ELSE b
Max(a, b) == IF a > b THEN a ELSE b
MaxOf(S) == CHOOSE x \in S : \A y \in S : y <= x
Clamp(x, lo, hi) == IF x < lo THEN lo ELSE IF x > hi THEN hi ELSE x

(* sparse functions on cycles: absent = 0 *)
Get(f, k) == IF k \in DOMAIN f THEN f[k] ELSE 0
Put(f, k, v) == [x \in DOMAIN f \cup {k} |-> IF x = k THEN v ELSE f[x]]
Prune(f, c) == [x \in {y \in DOMAIN f : y >= c} |-> f[x]]

(* take n permits starting with cycle r, at most Lim per cycle: first-fit into r, r+1, ... *)
RECURSIVE Charge(_, _, _, _)
Charge(f, Lim, r, n) ==
    IF n <= 0 THEN f
    ELSE LET have == Get(f, r)
             x == Min(n, IF have < Lim THEN Lim - have ELSE 0)
         IN  IF x = 0 THEN Charge(f, Lim, r + 1, n) ELSE Charge(Put(f, r, have + x), Lim, r + 1, n - x)

-----------------------------------------------------------------------------
(* CONTRACT *)

FreeAt(k) == \A i \in Dims : Get(resv[i], k) < pol.L[i]           \* cycle k has a spare permit
Spare(t)  == FreeAt(Cyc(t))                                        \* ... the current cycle has
Full(t)   == \E i \in Dims : \A k \in Cyc(t)..(Cyc(t) + H) : Get(resv[i], k) >= pol.L[i]

Allowed(t, ok, w) ==
    IF dis THEN ok /\ w = 0                  \* a disabled limiter admits everything (not part of C09)
    ELSE IF ok THEN /\ w >= 0 /\ w <= pol.T
                    /\ FreeAt(Cyc(t + w))
                    /\ Spare(t) => w = 0
    ELSE Full(t)

(* the effect of an arrival of n tokens at time t that was answered (ok, w): pure bookkeeping,   *)
(* no guard - the trace specification applies it to whatever the real code answered and the      *)
(* clauses below are evaluated on the result                                                     *)
Observe(t, n, ok, w) ==
    /\ t >= now
    /\ now' = t
    /\ narr' = narr + 1
    /\ LET c == Cyc(t)
           r == Cyc(t + Max(w, 0))
           old == IF r \in DOMAIN rel THEN rel[r] ELSE [req |-> 0, tok |-> Zero, lastn |-> Zero]
       IN  IF ok /\ ~dis
           THEN /\ resv' = [i \in Dims |-> Charge(Prune(resv[i], c), pol.L[i], r, n[i])]
                /\ rel' = Put(Prune(rel, c), r, [req |-> old.req + 1,
                                                 tok |-> [i \in Dims |-> old.tok[i] + n[i]],
                                                 lastn |-> [i \in Dims |-> n[i]]])
           ELSE /\ resv' = [i \in Dims |-> Prune(resv[i], c)]
                /\ rel' = Prune(rel, c)
    /\ last' = [a |-> "arr", t |-> t, d |-> t - now, n |-> n, ok |-> ok, w |-> w, dis |-> dis,
                spare |-> Spare(t), full |-> Full(t)]
    /\ UNCHANGED <<pol, start, dis>>

(* SetState(StateDisabled) and SetState(StateNormal): re-enabling restarts the limiter *)
Disable ==
    /\ ~dis /\ dis' = TRUE
    /\ last' = [a |-> "dis"]
    /\ UNCHANGED <<pol, now, start, resv, rel, narr, cyc, tok, conf>>

Enable ==
    /\ dis /\ dis' = FALSE
    /\ start' = now /\ resv' = [i \in Dims |-> <<>>] /\ rel' = <<>>
    /\ cyc' = 0 /\ tok' = Zero
    /\ last' = [a |-> "en"]
    /\ UNCHANGED <<pol, now, narr, conf>>

(* an arrival answered in any way the contract allows *)
CArrive(d, n, ok, w) ==
    /\ Allowed(now + d, ok, w)
    /\ Observe(now + d, n, ok, w)
    /\ UNCHANGED <<cyc, tok, conf>>

-----------------------------------------------------------------------------
(* IMPLEMENTATION-SHAPED: the arithmetic of acquirePermission / MultiRateLimiter.AcquirePermission *)

TokAt(t) == [i \in Dims |-> Max(0, tok[i] - (Cyc(t) - cyc) * pol.L[i])]

ImplReply(t) ==
    LET c == Cyc(t)
        tk == TokAt(t)
    IN  IF dis THEN [ok |-> TRUE, w |-> 0]
        ELSE IF \E i \in Dims : tk[i] >= pol.L[i] * (H + 1) THEN [ok |-> FALSE, w |-> pol.T]
        ELSE IF \A i \in Dims : tk[i] < pol.L[i] THEN [ok |-> TRUE, w |-> 0]
        ELSE [ok |-> TRUE,
              w |-> MaxOf({0} \cup {start + (c + tk[i] \div pol.L[i]) * pol.P - t : i \in Dims})]

IArrive(d, n) ==
    LET t == now + d
        rep == ImplReply(t)
    IN  /\ Observe(t, n, rep.ok, rep.w)
        /\ conf' = Allowed(t, rep.ok, rep.w)
        /\ IF rep.ok /\ ~dis
           THEN cyc' = Cyc(t) /\ tok' = [i \in Dims |-> TokAt(t)[i] + n[i]]
           ELSE UNCHANGED <<cyc, tok>>

-----------------------------------------------------------------------------
Init ==
    /\ pol \in Policies
    /\ now = 0 /\ start = 0 /\ dis = FALSE
    /\ resv = [i \in Dims |-> <<>>] /\ rel = <<>> /\ narr = 0
    /\ last = [a |-> "init"]
    /\ cyc = 0 /\ tok = Zero /\ conf = TRUE

Fits(n) == Len(n) = Len(pol.L)
Bounded(d) == narr < MaxArr /\ now + d <= MaxNow

(* the real limiter, observed through the contract's bookkeeping *)
Next ==
    \/ \E d \in Gaps, n \in Counts : Fits(n) /\ Bounded(d) /\ IArrive(d, n)
    \/ WithSetState /\ (Disable \/ Enable)
Spec == Init /\ [][Next]_vars

(* the contract alone: any allowed reply *)
CNext ==
    \/ \E d \in Gaps, n \in Counts, ok \in BOOLEAN, w \in 0..pol.T :
          Fits(n) /\ Bounded(d) /\ (~ok => w = pol.T) /\ CArrive(d, n, ok, w)
    \/ WithSetState /\ (Disable \/ Enable)
CSpec == Init /\ [][CNext]_vars

-----------------------------------------------------------------------------
(* The clauses of C09.                                                                           *)

TypeOK ==
    /\ \A i \in Dims : \A k \in DOMAIN resv[i] : resv[i][k] \in 1..pol.L[i]
    /\ \A i \in Dims : tok[i] >= 0

(* in each refresh cycle at most L admitted requests are released.  N-token form (one formula    *)
(* for both): the tokens of the requests released in a cycle exceed L by less than the last one. *)
PerPeriodBound ==
    \A k \in DOMAIN rel : \A i \in Dims : rel[k].tok[i] < pol.L[i] + rel[k].lastn[i]

(* no admitted request waits longer than the timeout *)
WaitBound == [][(last'.a = "arr" /\ last'.ok) => (last'.w >= 0 /\ last'.w <= pol.T)]_vars

(* an arrival that finds a spare permit in the current cycle proceeds immediately *)
ImmediateIfSpare == [][(last'.a = "arr" /\ ~last'.dis /\ last'.spare) => (last'.ok /\ last'.w = 0)]_vars

(* rejected only if every permit up to the timeout horizon is reserved *)
RejectOnlyIfFull == [][(last'.a = "arr" /\ ~last'.ok) => (last'.full /\ ~last'.dis)]_vars

(* refinement *)
Conforms == conf

RefInv ==
    ~dis =>
    LET c == Cyc(now)
        tk == TokAt(now)
    IN  \A i \in Dims :
          /\ \A k \in c..(c + H + 1 + tk[i]) : Get(resv[i], k) = Clamp(tk[i] - (k - c) * pol.L[i], 0, pol.L[i])
          /\ \A k \in DOMAIN resv[i] : k <= c + H + 1 + tk[i]

(* while  now + T  has not reached the end of cycle H  (in particular with the clock standing    *)
(* still near the start) the contract leaves no freedom for single-token arrivals: exactly the   *)
(* first L * (H + 1) are admitted.  Used by the filter-level specification RateLimiterFilter,     *)
(* which runs every limiter inside the beginning of its first refresh cycle.                      *)
FrozenCapacity ==
    [][(now' + pol.T < (H + 1) * pol.P /\ start' = 0 /\ ~dis' /\ last'.a = "arr"
          /\ Len(pol.L) = 1 /\ Counts = {<<1>>} /\ ~WithSetState)
          => (last'.ok <=> narr' <= pol.L[1] * (H + 1))]_vars
=============================================================================

-------------------------- MODULE RateLimiterFilter --------------------------
(* C09, filter level: pkg/filters/ratelimiter.  A filter generation owns one limiter per URL     *)
(* rule; Handle sends a request to the limiter of the FIRST rule that matches it (methods +      *)
(* exact / prefix match of the path) and to none if no rule matches; a rejection is the result   *)
(* "rateLimited" with status 429; reload (Init / Inherit) hands the limiter of a rule that is    *)
(* unchanged (same methods, same URL match, same policyRef, same policy content) over to the     *)
(* new generation and creates fresh limiters for all other rules.                                *)
(*                                                                                              *)
(* The limiter itself is specified in module RateLimiter.  Here every policy has a refresh       *)
(* period of one hour and the whole behaviour happens at the very beginning of the first cycle,  *)
(* where - theorem FrozenCapacity of RateLimiter - the contract leaves no freedom: exactly the   *)
(* first Cap = L * (T \div P + 1) requests are admitted.  So a limiter is a counter `used`.      *)
(* Strings the specification looks into (paths) are sequences of one-character strings.          *)
EXTENDS Integers, Sequences, FiniteSets

CONSTANTS Specs,      \* filter specs: [id, def, pols : Seq([name, L, th]), urls : Seq([ms, exact, prefix, ref])]
          Requests,   \* [m, path]
          MaxReq, MaxReload

VARIABLES spec,    \* spec of the live generation
          lims,    \* limiter id of each of its URL rules (sequence aligned with spec.urls)
          used,    \* limiter id -> requests admitted so far
          nl,      \* limiter ids handed out
          nreq, nrel, last

vars == <<spec, lims, used, nl, nreq, nrel, last>>
view == <<spec, lims, used, nreq, nrel>>

IsPrefix(p, s) == Len(p) <= Len(s) /\ SubSeq(s, 1, Len(p)) = p

(* urlrule.URLRule.Match *)
Match(u, rq) ==
    /\ Len(u.ms) = 0 \/ \E i \in 1..Len(u.ms) : u.ms[i] = rq.m
    /\ \/ u.exact # <<>> /\ rq.path = u.exact
       \/ u.prefix # <<>> /\ IsPrefix(u.prefix, rq.path)

(* bindPolicyToURL: the first policy with the referenced (or the default) name *)
PolName(s, u) == IF u.ref = "" THEN s.def ELSE u.ref
NoPol == [name |-> "", L |-> 0, th |-> 0]
PolNamed(s, name) ==
    LET I == {i \in 1..Len(s.pols) : s.pols[i].name = name}
    IN  IF I = {} THEN NoPol ELSE s.pols[CHOOSE i \in I : \A j \in I : i <= j]
PolOf(s, u) == PolNamed(s, PolName(s, u))

(* P = 60 min, T = th * 30 min  =>  horizon th \div 2 *)
Cap(p) == p.L * (p.th \div 2 + 1)

(* URLRule.DeepEqual and isSamePolicy *)
SameRule(u, v) == u.ms = v.ms /\ u.exact = v.exact /\ u.prefix = v.prefix /\ u.ref = v.ref
SamePolicy(s1, s2, ref) ==
    IF ref = "" THEN s1.def = s2.def /\ PolNamed(s1, s1.def) = PolNamed(s2, s1.def)
    ELSE PolNamed(s1, ref) = PolNamed(s2, ref)
Unchanged(sNew, j, sOld, i) ==
    SameRule(sNew.urls[j], sOld.urls[i]) /\ SamePolicy(sNew, sOld, sNew.urls[j].ref)

(* the universe contains no spec with two identical rules (reload would give the second one no   *)
(* limiter at all - an accepted-configuration crash that belongs to C13, not to C09)             *)
ASSUME \A s \in Specs : \A i, j \in 1..Len(s.urls) : i # j => ~SameRule(s.urls[i], s.urls[j])
ASSUME \A s \in Specs : \A i \in 1..Len(s.urls) : PolOf(s, s.urls[i]) # NoPol     \* Spec.Validate

FirstHit(rq) ==
    LET I == {i \in 1..Len(spec.urls) : Match(spec.urls[i], rq)}
    IN  IF I = {} THEN 0 ELSE CHOOSE i \in I : \A j \in I : i <= j

(* Handle *)
Handle(rq) ==
    /\ nreq < MaxReq /\ nreq' = nreq + 1
    /\ LET h == FirstHit(rq) IN
       IF h = 0
       THEN /\ last' = [a |-> "req", m |-> rq.m, path |-> rq.path, hit |-> 0, res |-> "", code |-> 0]
            /\ UNCHANGED used
       ELSE LET id == lims[h]
                ok == used[id] < Cap(PolOf(spec, spec.urls[h]))
            IN  /\ used' = IF ok THEN [used EXCEPT ![id] = @ + 1] ELSE used
                /\ last' = [a |-> "req", m |-> rq.m, path |-> rq.path, hit |-> h,
                            res |-> IF ok THEN "" ELSE "rateLimited", code |-> IF ok THEN 0 ELSE 429]
    /\ UNCHANGED <<spec, lims, nl, nrel>>

(* reload(previousGeneration): rule by rule, first unchanged rule of the old generation wins *)
Carry(s, j) ==
    LET I == {i \in 1..Len(spec.urls) : Unchanged(s, j, spec, i)}
    IN  IF I = {} THEN 0 ELSE CHOOSE i \in I : \A k \in I : i <= k

Reload(s) ==
    /\ nrel < MaxReload /\ nrel' = nrel + 1
    /\ LET fresh == {j \in 1..Len(s.urls) : Carry(s, j) = 0}
           rank(j) == Cardinality({k \in fresh : k <= j})
           newl == [j \in 1..Len(s.urls) |-> IF Carry(s, j) = 0 THEN nl + rank(j) ELSE lims[Carry(s, j)]]
       IN  /\ lims' = newl
           /\ nl' = nl + Cardinality(fresh)
           /\ used' = [id \in {newl[j] : j \in 1..Len(s.urls)} |-> IF id \in DOMAIN used THEN used[id] ELSE 0]
    /\ spec' = s
    /\ last' = [a |-> "reload", spec |-> s]
    /\ UNCHANGED nreq

Init ==
    /\ spec \in Specs
    /\ lims = [j \in 1..Len(spec.urls) |-> j]
    /\ used = [id \in 1..Len(spec.urls) |-> 0]
    /\ nl = Len(spec.urls) /\ nreq = 0 /\ nrel = 0
    /\ last = [a |-> "init", spec |-> spec]

Next == (\E rq \in Requests : Handle(rq)) \/ (\E s \in Specs : Reload(s))
Spec == Init /\ [][Next]_vars

-----------------------------------------------------------------------------
TypeOK == Len(lims) = Len(spec.urls) /\ \A j \in 1..Len(lims) : lims[j] \in DOMAIN used

(* requests to URLs that match no rule are never limited (and consume nothing) *)
UnmatchedNeverLimited ==
    [][(last'.a = "req" /\ last'.hit = 0) => (last'.res = "" /\ used' = used)]_vars

(* a rejection is 429 + rateLimited and happens only when the matched rule's permits are used up; *)
(* a request that finds a spare permit is admitted; only the first matching rule is charged       *)
RejectOnlyIfExhausted ==
    [][(last'.a = "req" /\ last'.hit > 0) =>
          LET id == lims[last'.hit]
              full == used[id] >= Cap(PolOf(spec, spec.urls[last'.hit]))
          IN  /\ (last'.res = "rateLimited") = full
              /\ (last'.code = 429) = full
              /\ \A x \in DOMAIN used : used'[x] = used[x] + (IF x = id /\ ~full THEN 1 ELSE 0)]_vars

NeverOverCap ==
    \A j \in 1..Len(lims) : used[lims[j]] <= Cap(PolOf(spec, spec.urls[j]))

(* reloading with an unchanged rule keeps the limiter's accumulated state *)
ReloadKeepsState ==
    [][last'.a = "reload" =>
          \A j \in 1..Len(spec'.urls) : \A i \in 1..Len(spec.urls) :
              Unchanged(spec', j, spec, i) => used'[lims'[j]] = used[lims[i]]]_vars
=============================================================================

-------------------------- MODULE RateLimiterFilter --------------------------
(* C09, filter level: pkg/filters/ratelimiter.  A filter generation owns one limiter per URL     *)
(* rule; Handle sends a request to the limiter of the FIRST rule that matches it (methods +      *)
(* exact / prefix / regular-expression / empty match of the path - a rule may give several of    *)
(* them, any one suffices) and to none if no rule matches; a rejection is the result             *)
(* "rateLimited" with status 429; reload (Init / Inherit) hands the limiter of a rule that is    *)
(* unchanged (same methods, same URL match, same policyRef, same policy content) over to the     *)
(* new generation and creates fresh limiters for all other rules.                                *)
(*                                                                                              *)
(* The limiter itself is specified in module RateLimiter.  Here the whole behaviour happens at    *)
(* the very beginning of every limiter's first refresh cycle (the harness uses a period of one   *)
(* hour, or - for policies that leave the period to its default of 10 ms - checks with its own   *)
(* clock that it was fast enough), where - theorem FrozenCapacity of RateLimiter - the contract  *)
(* leaves no freedom: exactly the first Cap = L * (T \div P + 1) requests are admitted.  So a     *)
(* limiter is a counter `used`.                                                                  *)
(* A policy may omit fields: timeoutDuration (tmo = -1) defaults to 100 ms, limitRefreshPeriod   *)
(* (per = "d") to 10 ms (and limitForPeriod, L = 0, to 50 - unreachable, validation wants >= 1).  "Same policy" compares what   *)
(* is written in the spec, as the code does, so a byte-identical spec is always "unchanged".     *)
(* Strings the specification looks into (paths) are sequences of one-character strings.          *)
EXTENDS Integers, Sequences, FiniteSets

CONSTANTS Specs,      \* filter specs: [id, fam, def, pols : Seq([name, L, tmo, per]), urls : Seq([ms, exact, prefix, regex, empty, ref])]
          Requests,   \* [m, path]
          Bursts,     \* sizes of request bursts (one step = that many identical requests)
          MaxReq, MaxReload

VARIABLES spec,    \* spec of the live generation
          lims,    \* limiter id of each of its URL rules (sequence aligned with spec.urls)
          used,    \* limiter id -> requests admitted so far
          nl,      \* limiter ids handed out
          nreq, nrel, last

vars == <<spec, lims, used, nl, nreq, nrel, last>>
view == <<spec, lims, used, nreq, nrel>>

IsPrefix(p, s) == Len(p) <= Len(s) /\ SubSeq(s, 1, Len(p)) = p

(* Regular expressions (url.regex) are sequences of tokens: a one-character literal, "[ab]" (a or b),  *)
(* "." (any character), ".*" (any string), "^" (only as the first token: anchored at the beginning)     *)
(* and "$" (only as the last token: anchored at the end).  The concatenation of the tokens is the       *)
(* expression the filter is given.  As regexp.MatchString does, an expression without "^" may match     *)
(* anywhere in the path.                                                                                *)
Cls(tok) == IF tok = "[ab]" THEN {"a", "b"} ELSE {tok}
RECURSIVE ReHere(_, _)      \* the token sequence r matches a prefix of s
ReHere(r, s) ==
    IF r = <<>> THEN TRUE
    ELSE IF Head(r) = "$" THEN Len(r) = 1 /\ s = <<>>
    ELSE IF Head(r) = ".*" THEN \E k \in 0..Len(s) : ReHere(Tail(r), SubSeq(s, k + 1, Len(s)))
    ELSE s # <<>> /\ (Head(r) = "." \/ Head(s) \in Cls(Head(r))) /\ ReHere(Tail(r), Tail(s))
ReMatch(r, s) ==
    IF Head(r) = "^" THEN ReHere(Tail(r), s)
    ELSE \E k \in 0..Len(s) : ReHere(r, SubSeq(s, k + 1, Len(s)))
WellFormedRe(r) == \A i \in 1..Len(r) : (r[i] = "^" => i = 1) /\ (r[i] = "$" => i = Len(r))

(* urlrule.StringMatch.Match: which of the rule's patterns accept the path *)
PathVia(u, path) ==
    (IF u.empty /\ path = <<>> THEN {"empty"} ELSE {}) \cup
    (IF u.exact # <<>> /\ path = u.exact THEN {"exact"} ELSE {}) \cup
    (IF u.prefix # <<>> /\ IsPrefix(u.prefix, path) THEN {"prefix"} ELSE {}) \cup
    (IF u.regex # <<>> /\ ReMatch(u.regex, path) THEN {"regex"} ELSE {})

(* urlrule.URLRule.Match *)
Match(u, rq) ==
    /\ Len(u.ms) = 0 \/ \E i \in 1..Len(u.ms) : u.ms[i] = rq.m
    /\ PathVia(u, rq.path) # {}

(* bindPolicyToURL: the first policy with the referenced (or the default) name *)
PolName(s, u) == IF u.ref = "" THEN s.def ELSE u.ref
NoPol == [name |-> "", L |-> 0, tmo |-> 0, per |-> ""]
PolNamed(s, name) ==
    LET I == {i \in 1..Len(s.pols) : s.pols[i].name = name}
    IN  IF I = {} THEN NoPol ELSE s.pols[CHOOSE i \in I : \A j \in I : i <= j]
PolOf(s, u) == PolNamed(s, PolName(s, u))

(* effective policy (URLRule.createRateLimiter), durations in milliseconds; an explicit timeout *)
(* is written as tmo half-periods                                                               *)
EffL(p)  == IF p.L = 0 THEN 50 ELSE p.L
PerMs(p) == IF p.per = "d" THEN 10 ELSE 3600000
TmoMs(p) == IF p.tmo = -1 THEN 100 ELSE p.tmo * (PerMs(p) \div 2)
Cap(p)   == EffL(p) * (TmoMs(p) \div PerMs(p) + 1)

(* URLRule.DeepEqual and isSamePolicy *)
(* (DeepEqual does not look at url.empty: StringMatch.Validate allows it only without any other pattern, *)
(* and a rule without any pattern and without it is rejected - so it is determined by the other fields)  *)
SameRule(u, v) == u.ms = v.ms /\ u.exact = v.exact /\ u.prefix = v.prefix /\ u.regex = v.regex /\ u.ref = v.ref
SamePolicy(s1, s2, ref) ==
    IF ref = "" THEN s1.def = s2.def /\ PolNamed(s1, s1.def) = PolNamed(s2, s1.def)
    ELSE PolNamed(s1, ref) = PolNamed(s2, ref)
Unchanged(sNew, j, sOld, i) ==
    SameRule(sNew.urls[j], sOld.urls[i]) /\ SamePolicy(sNew, sOld, sNew.urls[j].ref)

(* the universe contains no spec with two identical rules (reload would give the second one no   *)
(* limiter at all - an accepted-configuration crash that belongs to C13, not to C09)             *)
ASSUME \A s \in Specs : \A i, j \in 1..Len(s.urls) : i # j => ~SameRule(s.urls[i], s.urls[j])
ASSUME \A s \in Specs : \A i \in 1..Len(s.urls) : PolOf(s, s.urls[i]) # NoPol     \* Spec.Validate
ASSUME \A s \in Specs : \A i \in 1..Len(s.urls) :                                \* StringMatch.Validate
          LET u == s.urls[i] IN /\ WellFormedRe(u.regex)
                                /\ u.empty <=> (u.exact = <<>> /\ u.prefix = <<>> /\ u.regex = <<>>)

FirstHit(rq) ==
    LET I == {i \in 1..Len(spec.urls) : Match(spec.urls[i], rq)}
    IN  IF I = {} THEN 0 ELSE CHOOSE i \in I : \A j \in I : i <= j

(* (observation only) the pattern through which the charged rule accepted the path, "several" if more than one did *)
Via(u, path) == LET V == PathVia(u, path) IN IF Cardinality(V) = 1 THEN CHOOSE v \in V : TRUE ELSE "several"

(* Handle, k times in a row with the same request (k = 1: a single request).  `adm` of the k    *)
(* are admitted; the others get (rateLimited, 429)                                              *)
Min(a, b) == IF a < b THEN a ELSE b
Serve(rq, k) ==
    /\ nreq < MaxReq /\ nreq' = nreq + 1
    /\ LET h == FirstHit(rq) IN
       IF h = 0
       THEN /\ last' = [a |-> "req", m |-> rq.m, path |-> rq.path, k |-> k, hit |-> 0, adm |-> k, via |-> "none"]
            /\ UNCHANGED used
       ELSE LET id == lims[h]
                adm == Min(k, Cap(PolOf(spec, spec.urls[h])) - used[id])
            IN  /\ used' = [used EXCEPT ![id] = @ + adm]
                /\ last' = [a |-> "req", m |-> rq.m, path |-> rq.path, k |-> k, hit |-> h, adm |-> adm, via |-> Via(spec.urls[h], rq.path)]
    /\ UNCHANGED <<spec, lims, nl, nrel>>

(* reload(previousGeneration): rule by rule, first unchanged rule of the old generation wins *)
Carry(s, j) ==
    LET I == {i \in 1..Len(spec.urls) : Unchanged(s, j, spec, i)}
    IN  IF I = {} THEN 0 ELSE CHOOSE i \in I : \A k \in I : i <= k

Reload(s) ==
    /\ nrel < MaxReload /\ nrel' = nrel + 1
    /\ s.fam = spec.fam          \* (exploration only: keep to related specs)
    /\ LET fresh == {j \in 1..Len(s.urls) : Carry(s, j) = 0}
           rank(j) == Cardinality({k \in fresh : k <= j})
           newl == [j \in 1..Len(s.urls) |-> IF Carry(s, j) = 0 THEN nl + rank(j) ELSE lims[Carry(s, j)]]
       IN  /\ lims' = newl
           /\ nl' = nl + Cardinality(fresh)
           /\ used' = [id \in {newl[j] : j \in 1..Len(s.urls)} |-> IF id \in DOMAIN used THEN used[id] ELSE 0]
    /\ spec' = s
    /\ last' = [a |-> "reload", spec |-> s]
    /\ UNCHANGED nreq

Init ==
    /\ spec \in Specs
    /\ lims = [j \in 1..Len(spec.urls) |-> j]
    /\ used = [id \in 1..Len(spec.urls) |-> 0]
    /\ nl = Len(spec.urls) /\ nreq = 0 /\ nrel = 0
    /\ last = [a |-> "init", spec |-> spec]

Next == (\E rq \in Requests, k \in {1} \cup Bursts : Serve(rq, k)) \/ (\E s \in Specs : Reload(s))
Spec == Init /\ [][Next]_vars

-----------------------------------------------------------------------------
TypeOK == Len(lims) = Len(spec.urls) /\ \A j \in 1..Len(lims) : lims[j] \in DOMAIN used

(* requests to URLs that match no rule are never limited (and consume nothing) *)
UnmatchedNeverLimited ==
    [][(last'.a = "req" /\ last'.hit = 0) => (last'.adm = last'.k /\ used' = used)]_vars

(* a request is rejected (429, rateLimited) only when the matched rule's permits are used up; a   *)
(* request that finds a spare permit is admitted; only the first matching rule is charged        *)
RejectOnlyIfExhausted ==
    [][(last'.a = "req" /\ last'.hit > 0) =>
          LET id == lims[last'.hit]
              left == Cap(PolOf(spec, spec.urls[last'.hit])) - used[id]
          IN  /\ last'.adm = Min(last'.k, left)
              /\ \A x \in DOMAIN used : used'[x] = used[x] + (IF x = id THEN last'.adm ELSE 0)]_vars

NeverOverCap ==
    \A j \in 1..Len(lims) : used[lims[j]] <= Cap(PolOf(spec, spec.urls[j]))

(* reloading with an unchanged rule keeps the limiter's accumulated state *)
ReloadKeepsState ==
    [][last'.a = "reload" =>
          \A j \in 1..Len(spec'.urls) : \A i \in 1..Len(spec.urls) :
              Unchanged(spec', j, spec, i) => used'[lims'[j]] = used[lims[i]]]_vars
=============================================================================

------------------------ MODULE RateLimiterFilter_Gen ------------------------
EXTENDS RateLimiterFilter, Json
VARIABLE out

U(ms, ex, pre, ref) == [ms |-> ms, exact |-> ex, prefix |-> pre, ref |-> ref]
Po(name, l, th) == [name |-> name, L |-> l, th |-> th]
A   == <<"/", "a">>
AX  == <<"/", "a", "/", "x">>
B   == <<"/", "b">>
No  == <<>>

(* timeout 0 (th 0), timeout < period (th 1), = period (2), 1.5 periods (3) *)
SpecU ==
  { [id |-> 1, def |-> "p1", pols |-> <<Po("p1", 2, 0), Po("p2", 1, 2)>>,
     urls |-> <<U(<<"GET">>, AX, No, ""), U(<<>>, No, A, "p2")>>],
    (* same as 1 (a reload that changes nothing) but a new object *)
    [id |-> 2, def |-> "p1", pols |-> <<Po("p1", 2, 0), Po("p2", 1, 2)>>,
     urls |-> <<U(<<"GET">>, AX, No, ""), U(<<>>, No, A, "p2")>>],
    (* rule order swapped: first match changes, both rules unchanged *)
    [id |-> 3, def |-> "p1", pols |-> <<Po("p1", 2, 0), Po("p2", 1, 2)>>,
     urls |-> <<U(<<>>, No, A, "p2"), U(<<"GET">>, AX, No, "")>>],
    (* policy p2 changed (rule 2 gets a fresh limiter), p1 unchanged; a rule added *)
    [id |-> 4, def |-> "p1", pols |-> <<Po("p1", 2, 0), Po("p2", 1, 3)>>,
     urls |-> <<U(<<"GET">>, AX, No, ""), U(<<>>, No, A, "p2"), U(<<"POST">>, B, A, "p1")>>],
    (* default policy switched: the rule with the empty reference is changed *)
    [id |-> 5, def |-> "p2", pols |-> <<Po("p1", 2, 0), Po("p2", 1, 2)>>,
     urls |-> <<U(<<"GET">>, AX, No, ""), U(<<>>, No, A, "p2")>>],
    (* methods changed on rule 1, rule 2 dropped *)
    [id |-> 6, def |-> "p1", pols |-> <<Po("p1", 2, 0), Po("p2", 1, 2)>>,
     urls |-> <<U(<<"GET", "PUT">>, AX, No, "")>>] }

ReqU == { [m |-> "GET", path |-> AX], [m |-> "POST", path |-> AX], [m |-> "GET", path |-> A],
          [m |-> "POST", path |-> B], [m |-> "GET", path |-> B], [m |-> "PUT", path |-> AX],
          [m |-> "GET", path |-> <<"/">>] }

GInit == Init /\ out = ToJson(last)
GNext == Next /\ out' = ToJson(last')
GSpec == GInit /\ [][GNext]_<<vars, out>>
=============================================================================

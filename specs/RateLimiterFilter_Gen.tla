------------------------ MODULE RateLimiterFilter_Gen ------------------------
EXTENDS RateLimiterFilter, Json
VARIABLE out

UR(ms, ex, pre, re, ref) == [ms |-> ms, exact |-> ex, prefix |-> pre, regex |-> re, empty |-> FALSE, ref |-> ref]
U(ms, ex, pre, ref) == UR(ms, ex, pre, <<>>, ref)
UE(ms, ref) == [ms |-> ms, exact |-> <<>>, prefix |-> <<>>, regex |-> <<>>, empty |-> TRUE, ref |-> ref]
Po(name, l, tmo, per) == [name |-> name, L |-> l, tmo |-> tmo, per |-> per]
A   == <<"/", "a">>
AX  == <<"/", "a", "/", "x">>
B   == <<"/", "b">>
BX  == <<"/", "b", "/", "x">>
AS  == <<"/", "a", "/">>
XA  == <<"/", "x", "/", "a">>
No  == <<>>
(* regular expressions, as token sequences:  ^/a/.*   /x$   ^/[ab]$   /x   ^/a/.$ *)
ReA   == <<"^", "/", "a", "/", ".*">>
ReX   == <<"/", "x", "$">>
ReAB  == <<"^", "/", "[ab]", "$">>
ReXu  == <<"/", "x">>
ReA1  == <<"^", "/", "a", "/", ".", "$">>

(* fully explicit policies (period 1h): timeout 0, = period, 1.5 periods *)
P1  == Po("p1", 2, 0, "h")
P2  == Po("p2", 1, 2, "h")
P2x == Po("p2", 1, 3, "h")
(* partially defaulted: timeout omitted (100 ms), period 1h.  (limitForPeriod cannot be omitted:   *)
(* filters.NewSpec validates the parsed value 0 against minimum=1.)                               *)
P3  == Po("p3", 3, -1, "h")
(* timeout and period omitted (100 ms / 10 ms: horizon 10), limit 2;  period omitted, timeout 0 *)
P4  == Po("p4", 2, -1, "d")
P5  == Po("p5", 1, 0, "d")

S(id, fam, def, pols, urls) == [id |-> id, fam |-> fam, def |-> def, pols |-> pols, urls |-> urls]
R1 == U(<<"GET">>, AX, No, "")
R2 == U(<<>>, No, A, "p2")
(* family 4: rules whose URL is a regular expression - alone, or next to a prefix / an exact pattern -  *)
(* with and without method lists                                                                        *)
R3 == UR(<<"GET", "PUT">>, No, No, ReA, "")
R4 == UR(<<>>, No, B, ReX, "p2")
R5 == UR(<<"GET">>, A, No, ReXu, "p2")
(* family 5: url.empty (the path "" only), an anchored character class, defaulted policy *)
R6 == UE(<<>>, "p3")
R7 == UR(<<"GET", "POST">>, No, No, ReAB, "")

SpecU ==
  { S(1, 1, "p1", <<P1, P2>>, <<R1, R2>>),
    (* byte-identical to 1: a reload that changes nothing *)
    S(2, 1, "p1", <<P1, P2>>, <<R1, R2>>),
    (* rule order swapped: first match changes, both rules unchanged *)
    S(3, 1, "p1", <<P1, P2>>, <<R2, R1>>),
    (* policy p2 changed (rule 2 gets a fresh limiter), p1 unchanged; a rule added *)
    S(4, 1, "p1", <<P1, P2x>>, <<R1, R2, U(<<"POST">>, B, A, "p1")>>),
    (* default policy switched: the rule with the empty reference is changed *)
    S(5, 1, "p2", <<P1, P2>>, <<R1, R2>>),
    (* methods changed on rule 1, rule 2 dropped *)
    S(6, 1, "p1", <<P1, P2>>, <<U(<<"GET", "PUT">>, AX, No, "")>>),
    (* family 2: the default policy leaves fields to their defaults *)
    S(7, 2, "p3", <<P3, P2>>, <<U(<<>>, No, A, ""), U(<<"POST">>, B, No, "p2")>>),
    S(8, 2, "p3", <<P3, P2>>, <<U(<<>>, No, A, ""), U(<<"POST">>, B, No, "p2")>>),
    (* only the OTHER policy changed / only another rule added *)
    S(9, 2, "p3", <<P3, P2x>>, <<U(<<>>, No, A, ""), U(<<"POST">>, B, No, "p2")>>),
    S(10, 2, "p3", <<P3, P2>>, <<U(<<>>, No, A, ""), U(<<"POST">>, B, No, "p2"), U(<<"GET">>, B, No, "p3")>>),
    (* family 3: policies referenced by name that leave the period (and the timeout) to the defaults *)
    S(11, 3, "p1", <<P1, P4, P5>>, <<U(<<"GET">>, AX, No, "p4"), U(<<>>, No, A, "p5")>>),
    S(12, 3, "p1", <<P1, P4, P5>>, <<U(<<"GET">>, AX, No, "p4"), U(<<>>, No, A, "p5")>>),
    S(13, 3, "p1", <<P1, P4, P5>>, <<U(<<"GET">>, AX, No, "p4"), U(<<>>, No, A, "")>>),
    (* family 4 *)
    S(14, 4, "p1", <<P1, P2>>, <<R3, R4>>),
    (* byte-identical: every (regex) rule carried over *)
    S(15, 4, "p1", <<P1, P2>>, <<R3, R4>>),
    (* order swapped, both unchanged *)
    S(16, 4, "p1", <<P1, P2>>, <<R4, R3>>),
    (* only the regular expression of rule 1 changed (fresh limiter), rule 2 unchanged *)
    S(17, 4, "p1", <<P1, P2>>, <<UR(<<"GET", "PUT">>, No, No, ReA1, ""), R4>>),
    (* policy p2 changed: the regex-only rule is carried over, the other one is fresh; a rule added in front *)
    S(18, 4, "p1", <<P1, P2x>>, <<R5, R3, R4>>),
    (* method list of the regex rule changed / reordered (DeepEqual compares it position by position) *)
    S(19, 4, "p1", <<P1, P2>>, <<UR(<<"PUT", "GET">>, No, No, ReA, ""), R4>>),
    (* family 5 *)
    S(20, 5, "p1", <<P1, P3>>, <<R6, R7>>),
    S(21, 5, "p1", <<P1, P3>>, <<R6, R7>>),
    S(22, 5, "p3", <<P1, P3>>, <<R7, R6>>) }

ReqU == { [m |-> "GET", path |-> AX], [m |-> "POST", path |-> AX], [m |-> "GET", path |-> A],
          [m |-> "POST", path |-> B], [m |-> "GET", path |-> B], [m |-> "PUT", path |-> AX],
          [m |-> "GET", path |-> <<"/">>],
          [m |-> "GET", path |-> BX], [m |-> "PUT", path |-> AS], [m |-> "GET", path |-> XA],
          [m |-> "POST", path |-> <<>>] }

BurstU == {2, 10}

GInit == Init /\ out = ToJson(last)
GNext == Next /\ out' = ToJson(last')
GSpec == GInit /\ [][GNext]_<<vars, out>>
=============================================================================

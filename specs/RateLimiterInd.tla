--------------------------- MODULE RateLimiterInd ---------------------------
(* C09, optional unbounded check (Apalache): the token arithmetic of acquirePermission, single  *)
(* token, for one concrete policy (L, P, T below; rewritten by the driver) but unbounded time, *)
(* cycles and history.  IndInv is inductive:  Init => IndInv  and  IndInv /\ Next => IndInv'.    *)
(* The reservation table of module RateLimiter is, by the refinement invariant RefInv, the       *)
(* function  Resv(c, tk, k) = Clamp(tk - (k - c) * L, 0, L)  of the implementation state, so     *)
(* the clauses become arithmetic facts about one step (the pre-state is kept in ghost variables).*)
EXTENDS Integers

(* the policy: these four definitions are rewritten by the driver (props/_c09apalache.py) *)
L == 3
P == 10
T == 25
HH == 2          \* = T \div P, as a literal (range bounds must be constant for Apalache)
H == T \div P

VARIABLES
    \* @type: Int;
    now,
    \* @type: Int;
    cyc,
    \* @type: Int;
    tok,
    \* @type: Int;
    pnow,
    \* @type: Int;
    pc,
    \* @type: Int;
    ptk,
    \* @type: Bool;
    st,
    \* @type: Bool;
    ok,
    \* @type: Int;
    w

Cyc(t) == t \div P
Max0(x) == IF x < 0 THEN 0 ELSE x
Clamp(x) == IF x < 0 THEN 0 ELSE IF x > L THEN L ELSE x
TokAt(c) == Max0(tok - (c - cyc) * L)
Resv(c, tk, k) == Clamp(tk - (k - c) * L)

Init ==
    /\ now = 0 /\ cyc = 0 /\ tok = 0
    /\ pnow = 0 /\ pc = 0 /\ ptk = 0 /\ ok = TRUE /\ w = 0 /\ st = FALSE

Next ==
    \E d \in Nat :
      LET t == now + d
          c == Cyc(t)
          tk == TokAt(c)
      IN  /\ st' = TRUE /\ now' = t /\ pnow' = t /\ pc' = c /\ ptk' = tk
          /\ IF tk >= L * (H + 1)
             THEN ok' = FALSE /\ w' = T /\ UNCHANGED <<cyc, tok>>
             ELSE /\ ok' = TRUE /\ cyc' = c /\ tok' = tk + 1
                  /\ w' = IF tk < L THEN 0 ELSE (c + tk \div L) * P - t

BaseInv ==
    /\ now >= 0 /\ cyc >= 0 /\ cyc <= Cyc(now)
    /\ tok >= 0 /\ tok <= L * (H + 1)

(* the last step (if any: st), seen from its pre-state (pnow, pc, ptk) *)
StepInv ==
    st =>
    /\ pnow = now /\ pc = Cyc(now) /\ ptk >= 0
    /\ ok =>
         LET r == Cyc(pnow + w) IN
         /\ w >= 0 /\ w <= T                                        \* WaitBound
         /\ r >= pc /\ Resv(pc, ptk, r) < L                           \* the release cycle had a spare permit
         /\ (Resv(pc, ptk, pc) < L => w = 0)                          \* ImmediateIfSpare
         /\ TokAt(pc) = ptk + 1
         /\ \A j \in 0..(HH + 2) :                                    \* exactly the release cycle is charged:
              Resv(pc, TokAt(pc), pc + j) = Resv(pc, ptk, pc + j) + (IF pc + j = r THEN 1 ELSE 0)   \* PerPeriodBound kept
    /\ ~ok =>
         /\ TokAt(pc) = ptk
         /\ \A j \in 0..HH : Resv(pc, ptk, pc + j) = L               \* RejectOnlyIfFull

(* the table does not depend on the cycle it is looked at from (time passing = pruning) *)
RollInv ==
    \A e \in 0..(HH + 2) : \A j \in 0..(HH + 2) :
        LET c == Cyc(now) IN Resv(c + e, TokAt(c + e), c + e + j) = Resv(c, TokAt(c), c + e + j)

IndInv == BaseInv /\ StepInv /\ RollInv

IndInit ==
    /\ now \in Nat /\ cyc \in Nat /\ tok \in Nat /\ pnow \in Nat /\ pc \in Nat /\ ptk \in Nat
    /\ ok \in BOOLEAN /\ st \in BOOLEAN /\ w \in Int
    /\ IndInv
=============================================================================

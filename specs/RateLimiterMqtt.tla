--------------------------- MODULE RateLimiterMqtt ---------------------------
(* C09, MQTT form: the request + byte limiters of the MQTT proxy (mqttproxy.Limiter over         *)
(* RateLimiter.AcquirePermission / AcquireNPermission / MultiRateLimiter.AcquirePermission),     *)
(* all with timeout 0: a packet is admitted at once or dropped.                                  *)
(*                                                                                              *)
(* CONTRACT.  The property: per refresh period at most requestRate packets are admitted and the  *)
(* admitted bytes exceed bytesRate by less than one packet.  An oversized packet uses permits of *)
(* the following periods too, so the statement is read over windows (WindowBound):               *)
(*     over any k consecutive whole periods, the tokens admitted in dimension i are fewer than   *)
(*     k * L[i] + (the last packet admitted in the window)                                       *)
(* (k = 1 and single tokens: at most requestRate packets per period).  Its operational form is   *)
(* the carried debt:  debt[i] = tokens admitted since the start of the current period plus the   *)
(* excess of earlier periods not yet paid off, L[i] being paid off per period - however many     *)
(* attempts are made and rejected meanwhile.  A packet must be admitted iff every debt[i] < L[i] *)
(* ("spare permits => proceeds", "rejected only when all permits are reserved"): admitting with  *)
(* some debt[i] >= L[i] breaks WindowBound for the window that starts where that debt began.     *)
(* `hist` (admitted tokens per period, kept only when model checking) is the ground truth        *)
(* WindowBound is evaluated on.                                                                  *)
(*                                                                                              *)
(* IMPLEMENTATION-SHAPED: (cyc, tok) as in module RateLimiter with H = 0; a rejected attempt     *)
(* returns before anything is written.  tok rolled forward = debt is the refinement invariant.   *)
(* L = <<>> models an unconfigured limiter (admits everything).                                  *)
EXTENDS Integers, Sequences, FiniteSets

CONSTANTS Policies,    \* set of [L |-> <<..>>, P |-> period]
          Gaps, Counts, MaxNow, MaxArr,
          KeepHist     \* BOOLEAN: record `hist` (model checking) or not (long recorded traces)

VARIABLES pol, now,
          cur,     \* the period the debt counters refer to
          debt,    \* per dimension: carried debt, counted from the start of period cur
          hist,    \* ground truth: period -> [tok |-> admitted tokens per dimension, lastn |-> last packet]
          narr, last,
          cyc, tok, conf

vars == <<pol, now, cur, debt, hist, narr, last, cyc, tok, conf>>
view == <<pol, now, cur, debt, hist, narr, cyc, tok, conf>>

Dims == 1..Len(pol.L)
Zero == [i \in Dims |-> 0]
Cyc(t) == t \div pol.P
Max0(x) == IF x < 0 THEN 0 ELSE x

(* the debt rolled forward to period c >= cur: L[i] is paid off per period *)
DebtAt(c) == [i \in Dims |-> Max0(debt[i] - (c - cur) * pol.L[i])]

Spare(c) == \A i \in Dims : DebtAt(c)[i] < pol.L[i]
Allowed(c, ok) == ok = Spare(c)

Put(f, k, v) == [x \in DOMAIN f \cup {k} |-> IF x = k THEN v ELSE f[x]]

(* a packet of n tokens arrives in period c and is answered ok: pure bookkeeping *)
Observe(t, c, n, ok) ==
    /\ t >= now /\ c >= cur
    /\ now' = t /\ cur' = c /\ narr' = narr + 1
    /\ debt' = IF ok THEN [i \in Dims |-> DebtAt(c)[i] + n[i]] ELSE DebtAt(c)
    /\ hist' = IF ok /\ KeepHist
               THEN LET old == IF c \in DOMAIN hist THEN hist[c].tok ELSE Zero
                    IN  Put(hist, c, [tok |-> [i \in Dims |-> old[i] + n[i]], lastn |-> [i \in Dims |-> n[i]]])
               ELSE hist
    /\ last' = [a |-> "acq", t |-> t, d |-> t - now, n |-> n, ok |-> ok, spare |-> Spare(c)]
    /\ UNCHANGED pol

CArrive(d, n, ok) ==
    /\ Allowed(Cyc(now + d), ok)
    /\ Observe(now + d, Cyc(now + d), n, ok)
    /\ UNCHANGED <<cyc, tok, conf>>

(* implementation: the token arithmetic with maxTokens = L; a rejection returns before any update *)
TokAt(c) == [i \in Dims |-> Max0(tok[i] - (c - cyc) * pol.L[i])]
ImplOk(c) == \A i \in Dims : TokAt(c)[i] < pol.L[i]

IArrive(d, n) ==
    LET t == now + d
        c == Cyc(t)
        ok == ImplOk(c)
    IN  /\ Observe(t, c, n, ok)
        /\ conf' = Allowed(c, ok)
        /\ IF ok THEN cyc' = c /\ tok' = [i \in Dims |-> TokAt(c)[i] + n[i]]
                 ELSE UNCHANGED <<cyc, tok>>

Init ==
    /\ pol \in Policies
    /\ now = 0 /\ cur = 0 /\ debt = Zero /\ hist = <<>> /\ narr = 0
    /\ last = [a |-> "init"]
    /\ cyc = 0 /\ tok = Zero /\ conf = TRUE

Fits(n) == Len(n) = Len(pol.L)
Bounded(d) == narr < MaxArr /\ now + d <= MaxNow

Next == \E d \in Gaps, n \in Counts : Fits(n) /\ Bounded(d) /\ IArrive(d, n)
Spec == Init /\ [][Next]_vars

(* the contract alone (deterministic in the reply; kept for symmetry with module RateLimiter) *)
CNext == \E d \in Gaps, n \in Counts, ok \in BOOLEAN : Fits(n) /\ Bounded(d) /\ CArrive(d, n, ok)
CSpec == Init /\ [][CNext]_vars

-----------------------------------------------------------------------------
RECURSIVE SumH(_, _, _)
SumH(i, a, b) == IF a > b THEN 0 ELSE (IF a \in DOMAIN hist THEN hist[a].tok[i] ELSE 0) + SumH(i, a + 1, b)

(* the property, on the ground truth: every window [a, b] of whole periods *)
WindowBound ==
    \A a \in 0..cur : \A b \in a..cur :
        LET K == {k \in a..b : k \in DOMAIN hist} IN
        K # {} =>
            LET m == CHOOSE k \in K : \A j \in K : j <= k
            IN  \A i \in Dims : SumH(i, a, b) < (b - a + 1) * pol.L[i] + hist[m].lastn[i]

MqttAdmitIfSpare == [][(last'.a = "acq" /\ last'.spare) => last'.ok]_vars
MqttRejectOnlyIfFull == [][(last'.a = "acq" /\ ~last'.ok) => ~last'.spare]_vars
Conforms == conf
RefInv == \A i \in Dims : TokAt(Cyc(now))[i] = DebtAt(Cyc(now))[i]
=============================================================================

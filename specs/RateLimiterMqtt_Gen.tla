------------------------- MODULE RateLimiterMqtt_Gen -------------------------
EXTENDS RateLimiterMqtt, Json
VARIABLE out
PolM(l, p) == [L |-> l, P |-> p]
(* request+byte (MultiRateLimiter), request only, bytes only, unconfigured *)
GridQ == {PolM(<<1, 2>>, 2), PolM(<<2, 3>>, 2), PolM(<<2, 5>>, 3), PolM(<<2>>, 2), PolM(<<3>>, 2), PolM(<<>>, 2)}
GapsS == {0, 1, 2, 3, 7}
(* behaviour generation with debts of many periods: an oversized packet, then several attempts per
   period while it is paid off (gaps 0 and 1 with P = 2 or 3) *)
GapsD == {0, 1, 2, 3}
CountsQ == {<<1, 1>>, <<1, 2>>, <<1, 4>>, <<1, 9>>, <<1>>, <<2>>, <<5>>, <<>>}
CountsD == {<<1, 1>>, <<1, 2>>, <<1, 30>>, <<1>>, <<2>>, <<40>>, <<>>}
(* small instance for WindowBound (the history of admitted tokens is part of the state there) *)
GridW == {PolM(<<1, 2>>, 2), PolM(<<2>>, 2)}
GapsW == {0, 1, 3}
CountsW == {<<1, 1>>, <<1, 5>>, <<1>>, <<5>>}
GInit == Init /\ out = ToJson([a |-> "init", pol |-> pol])
GNext == Next /\ out' = ToJson(last')
GSpec == GInit /\ [][GNext]_<<vars, out>>
GCNext == CNext /\ out' = ToJson(last')
GCSpec == GInit /\ [][GCNext]_<<vars, out>>
=============================================================================

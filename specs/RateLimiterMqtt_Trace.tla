------------------------ MODULE RateLimiterMqtt_Trace ------------------------
(* Trace validation against the MQTT-form contract.  Events:                                     *)
(*   {"ev":"reset","pol":{"L":[..],"P":p}}                                                       *)
(*   {"ev":"acq","tlo":a,"thi":b,"n":[..],"ok":bool}   the limiter read its clock somewhere in   *)
(*                                                      [a,b] (microseconds since its creation)   *)
(* Under a virtual clock a = b.  In package mqttproxy the limiter's clock is not replaceable:     *)
(* the harness brackets every call with its own readings, so the cycle the limiter saw is any     *)
(* cycle between Cyc(a) and Cyc(b) (not before the cycle of the previous call) - TLC searches.    *)
(* The reply must be the one the contract demands (Allowed: admitted iff every carried debt is     *)
(* below its limit); that this rule is WindowBound is model-checked on RateLimiterMqtt (the        *)
(* ground-truth history is not kept here: KeepHist = FALSE).                                       *)
EXTENDS RateLimiterMqtt, Json, TLC, IOUtils

TLog == ndJsonDeserialize(IOEnv.VERIF_TRACE)
VARIABLE l
tvars == <<vars, l>>
IsEvent(e) == l <= Len(TLog) /\ TLog[l].ev = e /\ l' = l + 1

TReset ==
    /\ IsEvent("reset")
    /\ pol' = TLog[l].pol
    /\ now' = 0 /\ cur' = 0 /\ narr' = 0 /\ hist' = <<>>
    /\ debt' = [i \in 1..Len(TLog[l].pol.L) |-> 0] /\ tok' = debt'
    /\ last' = [a |-> "init"] /\ cyc' = 0 /\ conf' = TRUE

TAcq ==
    /\ IsEvent("acq")
    /\ \E c \in Cyc(TLog[l].tlo)..Cyc(TLog[l].thi) :
          /\ c >= cur
          /\ Allowed(c, TLog[l].ok)
          /\ Observe(IF TLog[l].tlo > now THEN TLog[l].tlo ELSE now, c, TLog[l].n, TLog[l].ok)
    /\ UNCHANGED <<cyc, tok, conf>>

TNext == TReset \/ TAcq

TInit ==
    /\ l = 1 /\ pol = [L |-> <<>>, P |-> 1]
    /\ now = 0 /\ cur = 0 /\ debt = <<>> /\ hist = <<>> /\ narr = 0
    /\ last = [a |-> "init"] /\ cyc = 0 /\ tok = <<>> /\ conf = TRUE

TSpec == TInit /\ [][TNext]_tvars

ASSUME TLCSet(1, 0)
HWM == TLCSet(1, IF l - 1 > TLCGet(1) THEN l - 1 ELSE TLCGet(1))
Accepted == /\ PrintT(<<"VERIF_HWM", TLCGet(1), Len(TLog)>>)
            /\ TLCGet(1) = Len(TLog)
=============================================================================

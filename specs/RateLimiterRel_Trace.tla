------------------------- MODULE RateLimiterRel_Trace -------------------------
(* C09, filter level, real time: PerPeriodBound on what RateLimiter.Handle actually lets through. *)
(* The limiter's clock is not replaceable from the filter package, so the harness can only        *)
(* bracket things with its own clock: a request admitted by Handle was released (Handle          *)
(* returned, after the imposed wait) at some time in [tlo, thi] after the limiter's start.        *)
(* Events: {"ev":"reset","pol":{"L":l,"P":p,"T":t}}, {"ev":"rel","tlo":a,"thi":b}, {"ev":"rej"}.   *)
(* The log is accepted iff the releases can be assigned to refresh cycles, each within its        *)
(* interval, with at most L per cycle (TLC searches).  A slow machine only widens the intervals,   *)
(* so a rejection means that more than L requests were let go within one refresh cycle.           *)
EXTENDS Integers, Sequences, Json, TLC, IOUtils

TLog == ndJsonDeserialize(IOEnv.VERIF_TRACE)

VARIABLES l, pol, cnt      \* cnt: cycle -> releases assigned to it (sparse)
tvars == <<l, pol, cnt>>

Get(f, k) == IF k \in DOMAIN f THEN f[k] ELSE 0
Put(f, k, v) == [x \in DOMAIN f \cup {k} |-> IF x = k THEN v ELSE f[x]]
IsEvent(e) == l <= Len(TLog) /\ TLog[l].ev = e /\ l' = l + 1

TReset == IsEvent("reset") /\ pol' = TLog[l].pol /\ cnt' = <<>>
TRel ==
    /\ IsEvent("rel")
    /\ \E c \in (TLog[l].tlo \div pol.P)..(TLog[l].thi \div pol.P) :
          /\ Get(cnt, c) < pol.L
          /\ cnt' = Put(cnt, c, Get(cnt, c) + 1)
    /\ UNCHANGED pol
TRej == IsEvent("rej") /\ UNCHANGED <<pol, cnt>>

TNext == TReset \/ TRel \/ TRej
TInit == l = 1 /\ pol = [L |-> 1, P |-> 1, T |-> 0] /\ cnt = <<>>
TSpec == TInit /\ [][TNext]_tvars

PerPeriodBound == \A c \in DOMAIN cnt : cnt[c] <= pol.L

ASSUME TLCSet(1, 0)
HWM == TLCSet(1, IF l - 1 > TLCGet(1) THEN l - 1 ELSE TLCGet(1))
Accepted == /\ PrintT(<<"VERIF_HWM", TLCGet(1), Len(TLog)>>)
            /\ TLCGet(1) = Len(TLog)
=============================================================================

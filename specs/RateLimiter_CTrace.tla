-------------------------- MODULE RateLimiter_CTrace -------------------------
(* Concurrent trace validation for C09: goroutines call AcquirePermission concurrently while    *)
(* the virtual clock stands still (it moves only at barriers where every goroutine is idle).     *)
(* Every call is logged at invocation and at return with a global sequence number; the harness   *)
(* copies the reply of the matching return onto the invocation record, so that the silent        *)
(* linearisation step Lin(p), which TLC may place anywhere between the two, knows the reply it    *)
(* must justify:  the reply must be ALLOWED by the contract in the state reached by the calls     *)
(* linearised before it.  Accepted iff some linearisation consumes the whole log.                 *)
EXTENDS RateLimiter, Json, TLC, IOUtils

TLog == ndJsonDeserialize(IOEnv.VERIF_TRACE)
Procs == {"g0", "g1", "g2", "g3", "g4", "g5", "g6", "g7"}

VARIABLES l,
          pc,    \* per goroutine: "idle" | "pend" | "done"
          arg    \* per goroutine: [n, ok, w] of the pending call

tvars == <<vars, l, pc, arg>>

IsEvent(e) == l <= Len(TLog) /\ TLog[l].ev = e /\ l' = l + 1
NoArg == [n |-> <<1>>, ok |-> TRUE, w |-> 0]

TReset ==
    /\ IsEvent("reset")
    /\ pol' = TLog[l].pol
    /\ now' = 0 /\ start' = 0 /\ dis' = FALSE
    /\ resv' = [i \in 1..Len(TLog[l].pol.L) |-> <<>>] /\ rel' = <<>> /\ narr' = 0
    /\ last' = [a |-> "init"]
    /\ cyc' = 0 /\ tok' = [i \in 1..Len(TLog[l].pol.L) |-> 0] /\ conf' = TRUE
    /\ pc' = [p \in Procs |-> "idle"] /\ arg' = [p \in Procs |-> NoArg]

(* the clock moves: only between rounds *)
TTick ==
    /\ IsEvent("tick") /\ \A p \in Procs : pc[p] = "idle"
    /\ TLog[l].t >= now /\ now' = TLog[l].t
    /\ last' = [a |-> "tick"]
    /\ UNCHANGED <<pol, start, dis, resv, rel, narr, cyc, tok, conf, pc, arg>>

TInv(p) ==
    /\ IsEvent("inv") /\ TLog[l].p = p /\ pc[p] = "idle"
    /\ pc' = [pc EXCEPT ![p] = "pend"]
    /\ arg' = [arg EXCEPT ![p] = [n |-> TLog[l].n, ok |-> TLog[l].ok, w |-> TLog[l].w]]
    /\ UNCHANGED vars

Lin(p) ==
    /\ pc[p] = "pend"
    /\ CArrive(0, arg[p].n, arg[p].ok, arg[p].w)
    /\ pc' = [pc EXCEPT ![p] = "done"]
    /\ UNCHANGED <<l, arg>>

TRet(p) ==
    /\ IsEvent("ret") /\ TLog[l].p = p /\ pc[p] = "done"
    /\ TLog[l].ok = arg[p].ok /\ TLog[l].w = arg[p].w
    /\ pc' = [pc EXCEPT ![p] = "idle"]
    /\ UNCHANGED <<vars, arg>>

TNext == TReset \/ TTick \/ \E p \in Procs : TInv(p) \/ Lin(p) \/ TRet(p)

TInit ==
    /\ l = 1
    /\ pol = [L |-> <<1>>, P |-> 1, T |-> 0]
    /\ now = 0 /\ start = 0 /\ dis = FALSE
    /\ resv = <<<<>>>> /\ rel = <<>> /\ narr = 0
    /\ last = [a |-> "init"]
    /\ cyc = 0 /\ tok = <<0>> /\ conf = TRUE
    /\ pc = [p \in Procs |-> "idle"] /\ arg = [p \in Procs |-> NoArg]

TSpec == TInit /\ [][TNext]_tvars

ASSUME TLCSet(1, 0)
HWM == TLCSet(1, IF l - 1 > TLCGet(1) THEN l - 1 ELSE TLCGet(1))
Accepted == /\ PrintT(<<"VERIF_HWM", TLCGet(1), Len(TLog)>>)
            /\ TLCGet(1) = Len(TLog)
=============================================================================

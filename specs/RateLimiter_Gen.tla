--------------------------- MODULE RateLimiter_Gen ---------------------------
(* Model-checking / behaviour-generation wrapper for RateLimiter: policy grids (records cannot  *)
(* be written in a cfg file) and `out`, the JSON description of the step just taken.            *)
EXTENDS RateLimiter, Json

VARIABLE out

Pol1(l, p, t) == [L |-> <<l>>, P |-> p, T |-> t]
Pol2(l1, l2, p, t) == [L |-> <<l1, l2>>, P |-> p, T |-> t]
Pol3(l1, l2, l3, p, t) == [L |-> <<l1, l2, l3>>, P |-> p, T |-> t]

(* single limiter: timeout 0, < period, = period, multiples and non-multiples of the period *)
GridA == {Pol1(l, 2, t) : l \in {1, 2, 3}, t \in {0, 1, 2, 4, 5}}
GridB == {Pol1(l, 3, t) : l \in {1, 2, 4}, t \in {0, 2, 3, 7, 9}}
GridAB == GridA \cup GridB
(* MQTT form: request + byte limiter, timeout 0 *)
GridM == {Pol2(1, 2, 2, 0), Pol2(2, 3, 2, 0), Pol2(2, 5, 3, 0), Pol2(3, 4, 2, 0)}
(* MultiRateLimiter with a timeout: not used by easegress; explored as a lead only *)
GridMT == {Pol2(2, 10, 2, 4), Pol2(1, 2, 2, 2)}
(* MultiRateLimiter with a timeout > 0, judged by the one clause that is a statement about the  *)
(* reply alone (WaitBound; see "Scope" in RateLimiter.tla): timeout < period, = period,         *)
(* multiples and non-multiples of it; the scarce dimension first, last, in the middle           *)
GridMW == {Pol2(2, 3, 2, t) : t \in {1, 2, 4, 5}} \cup {Pol2(3, 2, 2, t) : t \in {2, 5}}
          \cup {Pol2(1, 4, 3, 7), Pol2(2, 10, 2, 4), Pol3(2, 1, 4, 2, 4), Pol3(3, 5, 2, 2, 3)}

GapsS == {0, 1, 2, 3, 7}
GapsL == {0, 1, 2, 3, 5, 7, 13}
One == {<<1>>}
N123 == {<<1>>, <<2>>, <<3>>}
N15 == {<<1>>, <<2>>, <<5>>}
M2 == {<<1, 1>>, <<1, 2>>, <<1, 4>>}
M10 == {<<1, 1>>, <<1, 10>>}
MW == {<<1, 1>>, <<1, 2>>, <<1, 4>>, <<2, 1>>, <<1, 1, 1>>, <<1, 1, 2>>, <<1, 2, 1>>}

(* for checking WaitBound on the implementation-shaped layer alone: the replies of IArrive depend *)
(* on (pol, now, start, dis, cyc, tok) only, the contract's bookkeeping never disables a step    *)
viewW == <<pol, now, start, dis, narr, cyc, tok>>

GInit == Init /\ out = ToJson([a |-> "init", pol |-> pol])
GNext == Next /\ out' = ToJson(last')
GSpec == GInit /\ [][GNext]_<<vars, out>>

(* for behaviour generation: arrivals, now and then a SetState *)
GNextS == /\ \/ \E d \in Gaps, n \in Counts : Fits(n) /\ Bounded(d) /\ IArrive(d, n)
             \/ (narr % 7 = 3 /\ Disable)
             \/ Enable
          /\ out' = ToJson(last')
GSpecS == GInit /\ [][GNextS]_<<vars, out>>

GCNext == CNext /\ out' = ToJson(last')
GCSpec == GInit /\ [][GCNext]_<<vars, out>>
=============================================================================

-------------------------- MODULE RateLimiter_Trace --------------------------
(* Trace validation for C09 (sequential histories).  The harness records, under a virtual       *)
(* clock, every arrival at the real limiter with the reply it got:                              *)
(*     {"ev":"reset","pol":{"L":[l],"P":p,"T":t}}        new limiter (durations in microseconds) *)
(*     {"ev":"arr","t":t,"n":[n],"ok":b,"w":w}           arrival at time t since creation        *)
(*     {"ev":"dis"} / {"ev":"en"}                          SetState(StateDisabled / StateNormal)  *)
(* The contract's bookkeeping (Observe: reservation table + released requests per cycle) is      *)
(* applied to whatever the code answered; the clauses of C09 are listed as INVARIANTS /          *)
(* PROPERTIES in the cfg, so a reply the property forbids shows up as the violated clause.       *)
EXTENDS RateLimiter, Json, TLC, IOUtils

TLog == ndJsonDeserialize(IOEnv.VERIF_TRACE)

VARIABLE l
tvars == <<vars, l>>

IsEvent(e) == l <= Len(TLog) /\ TLog[l].ev = e /\ l' = l + 1

Fresh(p) ==
    /\ pol' = p
    /\ now' = 0 /\ start' = 0 /\ dis' = FALSE
    /\ resv' = [i \in 1..Len(p.L) |-> <<>>] /\ rel' = <<>> /\ narr' = 0
    /\ last' = [a |-> "init"]
    /\ cyc' = 0 /\ tok' = [i \in 1..Len(p.L) |-> 0] /\ conf' = TRUE

TReset == IsEvent("reset") /\ Fresh(TLog[l].pol)

TArr ==
    /\ IsEvent("arr")
    /\ Observe(TLog[l].t, TLog[l].n, TLog[l].ok, TLog[l].w)
    /\ UNCHANGED <<cyc, tok, conf>>

TDis == IsEvent("dis") /\ Disable
(* the harness logs the time of the call: the cycles restart there *)
TEn  == IsEvent("en") /\ TLog[l].t >= now /\ dis /\ dis' = FALSE
        /\ now' = TLog[l].t /\ start' = TLog[l].t
        /\ resv' = [i \in Dims |-> <<>>] /\ rel' = <<>> /\ cyc' = 0 /\ tok' = Zero
        /\ last' = [a |-> "en"] /\ UNCHANGED <<pol, narr, conf>>

TNext == TReset \/ TArr \/ TDis \/ TEn

TInit ==
    /\ l = 1
    /\ pol = [L |-> <<1>>, P |-> 1, T |-> 0]
    /\ now = 0 /\ start = 0 /\ dis = FALSE
    /\ resv = <<<<>>>> /\ rel = <<>> /\ narr = 0
    /\ last = [a |-> "init"]
    /\ cyc = 0 /\ tok = <<0>> /\ conf = TRUE

TSpec == TInit /\ [][TNext]_tvars

ASSUME TLCSet(1, 0)
HWM == TLCSet(1, IF l - 1 > TLCGet(1) THEN l - 1 ELSE TLCGet(1))
Accepted == /\ PrintT(<<"VERIF_HWM", TLCGet(1), Len(TLog)>>)
            /\ TLCGet(1) = Len(TLog)
=============================================================================

------------------------------ MODULE Resilience ------------------------------
(* C10.  One client request through a proxy server pool with the resilience policies            *)
(* (pkg/filters/proxy/pool.go: ServerPool.handle / doHandle, pkg/resilience/retry.go,            *)
(*  pkg/resilience/circuitbreaker.go).                                                           *)
(*                                                                                              *)
(* CONTRACT LAYER.  What the property promises about the attempts made for one client request:  *)
(*   at most maxAttempts; none after the first success; none after the client's cancellation;    *)
(*   at least the back-off between two attempts; a streamed body sent at most once; the client   *)
(*   sees the outcome of the last attempt; an attempt that does not answer within the pool       *)
(*   time-out ends as `timeout`/408; the circuit breaker around it all records one outcome per   *)
(*   admitted request and none for a short-circuited one.                                        *)
(* The property bounds the attempts from above only, so the contract may finish after any        *)
(* attempt (action Finish); it never may start one the property forbids (guards of Attempt).     *)
(*                                                                                              *)
(* The backend is a script: what the i-th attempt will meet.                                     *)
(*   "ok"     a 200 response            "okc"    a response with a status that is no failure code *)
(*   "fcode"  a response whose status is one of the pool's failureCodes                           *)
(*   "neterr" a transport error         "hang"   no answer (needs the pool time-out to end)       *)
(*   "cancel" the client goes away during the attempt (its context is cancelled)                  *)
(*   "cdl"    the client's own deadline expires during the attempt (see sc.cdl)                    *)
(* The client's request may carry a deadline of its own (a server-side request deadline, an outer   *)
(* time limiter): sc.cdl = "none" | "later" (later than the pool time-out: it never expires while   *)
(* the request is handled, and the pool time-out bounds every attempt all the same) | "earlier"     *)
(* (it expires before the pool time-out would, during the attempt whose script entry is "cdl":      *)
(* the client's request is over then, as after a cancellation).                                    *)
(* Time: `w` is the time between the return of an attempt and the start of the next one, in the    *)
(* unit of sc.base.                                                                               *)
EXTENDS Integers, Sequences

CONSTANTS Scenarios    \* set of scenario records to explore
          , Waits      \* waits tried between attempts (model checking only)

(* scenario: [retry : BOOLEAN, max : 1..3, stream : BOOLEAN, cb : "none"|"closed"|"open", tmo : BOOLEAN,
              script : Seq(kind), cancelB : 0..3 (client cancels during the back-off after attempt cancelB; 0 = never),
              base : Nat, f : 0..100 (randomisation factor in percent), exp : BOOLEAN,
              cdl : "none" | "later" | "earlier"]                                                   *)

Kinds == {"ok", "okc", "fcode", "neterr", "hang", "cancel", "cdl"}

(* outcome of one attempt as the Proxy filter reports it: result string, status code, and whether *)
(* the client gets the backend's response (b) or a generated one                                   *)
Classify(k) ==
    CASE k = "ok"     -> [res |-> "",            st |-> 200, fail |-> FALSE, b |-> TRUE]
      [] k = "okc"    -> [res |-> "",            st |-> 404, fail |-> FALSE, b |-> TRUE]
      [] k = "fcode"  -> [res |-> "failureCode", st |-> 500, fail |-> TRUE,  b |-> TRUE]
      [] k = "neterr" -> [res |-> "serverError", st |-> 503, fail |-> TRUE,  b |-> FALSE]
      [] k = "hang"   -> [res |-> "timeout",     st |-> 408, fail |-> TRUE,  b |-> FALSE]
      [] k = "cancel" -> [res |-> "clientError", st |-> 499, fail |-> TRUE,  b |-> FALSE]
      [] k = "cdl"    -> [res |-> "deadline",    st |-> 0,   fail |-> TRUE,  b |-> FALSE]

(* What the client may see of an outcome.  The property does not say whether the expiry of the      *)
(* client's own deadline is reported as a time-out (408) or as the client's going away (499): both. *)
Seen(o) == IF o.res = "deadline"
           THEN {[o EXCEPT !.res = "timeout", !.st = 408], [o EXCEPT !.res = "clientError", !.st = 499]}
           ELSE {o}

ShortCircuited == [res |-> "shortCircuited", st |-> 503, fail |-> TRUE, b |-> FALSE]
NoOutcome      == [res |-> "none", st |-> 0, fail |-> FALSE, b |-> FALSE]

VARIABLES sc,         \* the scenario (constant along a behaviour)
          pc,         \* "open" (rejected by the breaker) | "ready" | "attempt" | "waiting" | "done"
          n,          \* attempts started
          outs,       \* outcomes of the attempts that returned
          cancelled,  \* the client's context is cancelled
          recs,       \* outcomes recorded by the circuit breaker for this request
          final,      \* what the client sees
          last        \* the step just taken (observation)

vars == <<sc, pc, n, outs, cancelled, recs, final, last>>
view == <<sc, pc, n, outs, cancelled, recs, final>>

RECURSIVE Pow(_, _)
Pow(b, e) == IF e <= 0 THEN 1 ELSE b * Pow(b, e - 1)

(* the retry policy wraps the call only for buffered requests *)
Wrapped == sc.retry /\ ~sc.stream
MaxAtt  == IF Wrapped THEN sc.max ELSE 1

(* script entry of attempt i (a script shorter than the attempts made repeats its last entry) *)
KindOf(i) == IF i <= Len(sc.script) THEN sc.script[i] ELSE sc.script[Len(sc.script)]

(* "waits at least the configured (randomised, optionally exponentially growing) back-off":      *)
(*  w >= base * 1.5^(i-1) * (1 - f)   after attempt i    (integers: multiply out)                 *)
(* (base * (100 - f) is a multiple of 100 in every scenario family - base 4 with f in {0, 25, 50}, *)
(*  recorded bases in microseconds - so the division is exact; w is never multiplied: long retry  *)
(*  chains, max up to 10, stay inside TLC's 32-bit integers)                                      *)
WaitedEnough(i, w) ==
    LET e == IF sc.exp THEN i - 1 ELSE 0
        b == (sc.base * (100 - sc.f)) \div 100
        x == b * Pow(3, e)
    IN  w >= (x + Pow(2, e) - 1) \div Pow(2, e)

WellFormed(s) ==
    /\ s.max \in 1..10 /\ Len(s.script) >= 1
    /\ \A i \in 1..Len(s.script) : s.script[i] \in Kinds /\ (s.script[i] = "hang" => s.tmo)
    /\ s.cdl \in {"none", "later", "earlier"}
    /\ (\E i \in 1..Len(s.script) : s.script[i] = "cdl") => s.cdl = "earlier"
    \* ("earlier" than the pool time-out: no attempt of such a scenario waits for the pool time-out)
    /\ s.cdl = "earlier" => \A i \in 1..Len(s.script) : s.script[i] # "hang"
    /\ s.cb \in {"none", "closed", "open"}
    /\ s.cancelB \in 0..3 /\ s.f \in 0..100

InitAs(x) ==
    /\ sc = x /\ WellFormed(x)
    /\ pc = IF sc.cb = "open" THEN "open" ELSE "ready"     \* AcquirePermission is the first thing handle does
    /\ n = 0 /\ outs = <<>> /\ cancelled = FALSE /\ recs = 0 /\ final = NoOutcome
    /\ last = [a |-> "init"]

Init == \E x \in Scenarios : InitAs(x)

(* an attempt starts (a call reaches the transport); w = time since the previous attempt returned *)
Attempt(w) ==
    /\ \/ pc = "ready"
       \/ /\ pc = "waiting"
          /\ Wrapped                                  \* retries only with a Retry policy, never for a stream
          /\ n < sc.max                               \* at most maxAttempts
          /\ outs[n].fail                             \* stops at the first success
          /\ ~cancelled                               \* none once the client's request is cancelled
          /\ WaitedEnough(n, w)                       \* back-off lower bound
    /\ pc' = "attempt" /\ n' = n + 1
    /\ last' = [a |-> "att", i |-> n + 1, w |-> w]
    /\ UNCHANGED <<sc, outs, cancelled, recs, final>>

(* the attempt returns with the outcome its script entry produces *)
Return ==
    /\ pc = "attempt"
    /\ outs' = Append(outs, Classify(KindOf(n)))
    /\ cancelled' = (cancelled \/ KindOf(n) \in {"cancel", "cdl"})
    /\ pc' = "waiting"
    /\ last' = [a |-> "ret", i |-> n, k |-> KindOf(n)]
    /\ UNCHANGED <<sc, n, recs, final>>

(* the client goes away between two attempts *)
CancelWaiting ==
    /\ pc = "waiting" /\ ~cancelled /\ sc.cancelB = n
    /\ cancelled' = TRUE
    /\ last' = [a |-> "cancel"]
    /\ UNCHANGED <<sc, pc, n, outs, recs, final>>

(* the request ends: the client sees the last attempt's outcome; the breaker records once *)
Finish ==
    /\ \/ /\ pc = "waiting"
          /\ final' \in Seen(outs[n])
          /\ recs' = IF sc.cb = "closed" THEN 1 ELSE 0
       \/ /\ pc = "open"                               \* short-circuited: 503, nothing sent, nothing recorded
          /\ final' = ShortCircuited
          /\ recs' = 0
    /\ pc' = "done"
    /\ last' = [a |-> "fin", res |-> final'.res, st |-> final'.st, n |-> n, recs |-> recs']
    /\ UNCHANGED <<sc, n, outs, cancelled>>

Next == (\E w \in Waits : Attempt(w)) \/ Return \/ CancelWaiting \/ Finish

Spec == Init /\ [][Next]_vars

-----------------------------------------------------------------------------
(* The clauses of C10 as invariants / action properties of the contract.                        *)

TypeOK == /\ pc \in {"open", "ready", "attempt", "waiting", "done"}
          /\ Len(outs) \in {n, n - 1} /\ (pc # "attempt" => Len(outs) = n)

(* attempted at most maxAttempts times (once without a Retry policy) *)
AttemptsBounded == n <= (IF sc.retry THEN sc.max ELSE 1)

(* stops at the first success *)
StopsAtFirstSuccess == \A i \in 1..Len(outs) : ~outs[i].fail => i = n

(* makes no further attempt once the client's request is cancelled *)
NoAttemptAfterCancel == [][(cancelled /\ last'.a # "init") => n' = n]_vars    \* ("init": a trace spec starts the next recorded scenario)

(* waits at least the back-off between attempts *)
BackoffRespected == [][(last'.a = "att" /\ n' = n + 1 /\ n >= 1) => WaitedEnough(n, last'.w)]_vars

(* streamed request bodies are never re-sent *)
StreamSentOnce == sc.stream => n <= 1

(* the client finally sees the outcome of the last attempt *)
FinalIsLast == (pc = "done" /\ n > 0) => final \in Seen(outs[n])

(* a backend that does not answer in time yields timeout (408) - whatever deadline of its own the   *)
(* client's request carries (sc.cdl = "later": the pool time-out is the one that expires)           *)
TimeoutReported == (pc = "done" /\ n > 0 /\ KindOf(n) = "hang") => (final.res = "timeout" /\ final.st = 408)

(* the breaker records exactly one outcome per admitted client request, however many retries *)
OneRecord == pc = "done" => recs = (IF sc.cb = "closed" THEN 1 ELSE 0)

(* a short-circuited request: 503 / shortCircuited, no server contacted, nothing recorded *)
ShortCircuit == sc.cb = "open" => (n = 0 /\ (pc = "done" => final = ShortCircuited /\ recs = 0))
=============================================================================

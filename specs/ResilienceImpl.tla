---------------------------- MODULE ResilienceImpl ----------------------------
(* C10, implementation-shaped layer: ServerPool.handle as the code writes it.                    *)
(*                                                                                              *)
(*   handler := func(ctx) { timeout ctx; spCtx.resp = nil (reset); doHandle }                     *)
(*   if retryWrapper != nil && !req.IsStream() { handler = retry.Wrap(handler) }                  *)
(*   if circuitBreakerWrapper != nil { handler = cb.Wrap(handler) }                               *)
(*   err := handler(ctx);  ErrShortCircuited -> 503/shortCircuited;                               *)
(*   serverPoolError -> failure response built only if spCtx.resp == nil                          *)
(*   retry.Wrap: for attempt < MaxAttempts { err = h(ctx); if err == nil return;                  *)
(*                 select { <-ctx.Done(): return err;  <-time.After(d): } }  with d >= base(1-f)  *)
(*   cb.Wrap:    AcquirePermission; err = h(ctx); RecordResult(err != nil)   - once                *)
(*                                                                                              *)
(* The layer carries the contract variables of Resilience; TLC checks  [][Next]_vars  (every step *)
(* of the code is a step of the contract).  Unlike the contract the code is deterministic about   *)
(* going on: it retries whenever it may.                                                          *)
(* Switches: ResetPerAttempt = FALSE (per-attempt state not reset) and BreakerOutside = FALSE     *)
(* (breaker wrapped inside the retry loop) are negative controls that TLC must reject.            *)
EXTENDS Resilience

CONSTANTS ResetPerAttempt, BreakerOutside

VARIABLES resp,     \* status of the backend response held in spCtx.resp (0 = nil)
          brk       \* results recorded by the breaker so far

ivars == <<resp, brk>>
allvars == <<vars, ivars>>
iview == <<view, ivars>>

IInitAs(x) == InitAs(x) /\ resp = 0 /\ brk = 0
IInit == \E x \in Scenarios : IInitAs(x)

IAttempt(w) ==
    /\ Attempt(w)
    /\ resp' = IF ResetPerAttempt THEN 0 ELSE resp
    /\ UNCHANGED brk

IReturn ==
    /\ Return
    /\ LET o == Classify(KindOf(n)) IN
       /\ resp' = IF o.b THEN o.st ELSE resp                        \* buildResponse only when a response arrived
       /\ brk' = IF ~BreakerOutside /\ sc.cb = "closed" THEN brk + 1 ELSE brk
ICancelWaiting == CancelWaiting /\ UNCHANGED ivars

(* the loop is left: success, no retry wrapper, cancelled, or attempts exhausted *)
IFinish ==
    /\ \/ pc = "open"
       \/ pc = "waiting" /\ (~outs[n].fail \/ ~Wrapped \/ cancelled \/ n >= sc.max)
    /\ pc' = "done"
    /\ IF pc = "open"
       THEN final' = ShortCircuited /\ brk' = brk
       ELSE LET o == outs[n] IN
            /\ final' = IF ~o.fail THEN [res |-> "", st |-> resp, fail |-> FALSE, b |-> TRUE]
                        ELSE [res |-> o.res, st |-> (IF resp = 0 THEN o.st ELSE resp), fail |-> TRUE, b |-> (resp # 0)]
            /\ brk' = IF BreakerOutside /\ sc.cb = "closed" THEN brk + 1 ELSE brk
    /\ recs' = brk'
    /\ last' = [a |-> "fin", res |-> final'.res, st |-> final'.st, n |-> n, recs |-> recs']
    /\ UNCHANGED <<sc, n, outs, cancelled, resp>>

INext == (\E w \in Waits : IAttempt(w)) \/ IReturn \/ ICancelWaiting \/ IFinish

ISpec == IInit /\ [][INext]_allvars

Refines == [][Next]_vars
=============================================================================

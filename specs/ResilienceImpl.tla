---------------------------- MODULE ResilienceImpl ----------------------------
(* C10, implementation-shaped layer: ServerPool.handle as the code writes it.                    *)
(*                                                                                              *)
(*   handler := func(ctx) { timeout ctx; spCtx.resp = nil (reset); doHandle }                     *)
(*   if retryWrapper != nil && !req.IsStream() { handler = retry.Wrap(handler) }                  *)
(*   if circuitBreakerWrapper != nil { handler = cb.Wrap(handler) }                               *)
(*   err := handler(ctx);  ErrShortCircuited -> 503/shortCircuited;                               *)
(*   serverPoolError -> failure response built only if spCtx.resp == nil                          *)
(*   retry.Wrap: for attempt < MaxAttempts { err = h(ctx); if err == nil return;                  *)
(*                 select { <-ctx.Done(): return err;  <-time.After(d): } }  with d >= base(1-f)  *)
(*   cb.Wrap:    AcquirePermission; err = h(ctx); RecordResult(err != nil)   - once                *)
(*                                                                                              *)
(* The layer carries the contract variables of Resilience; TLC checks  [][Next]_vars  (every step *)
(* of the code is a step of the contract).  Unlike the contract the code is deterministic about   *)
(* going on: it retries whenever it may.                                                          *)
(* Switches: ResetPerAttempt = FALSE (per-attempt state not reset) and BreakerOutside = FALSE     *)
(* (breaker wrapped inside the retry loop) are negative controls that TLC must reject.            *)
(*   handler: the time-out context is derived from the context the handler is called with, which  *)
(*   may carry a deadline of the client's own: context.WithTimeout keeps the earlier of the two.    *)
(*   doHandle: a transport error with ctx.Err() == DeadlineExceeded is timeout/408 - also when it   *)
(*   was the client's deadline that expired (sc.cdl = "earlier", script entry "cdl").                *)
(* TimerAlways = FALSE (the pool time-out is armed only if the context has no deadline yet: the     *)
(* attempt then waits for a backend that does not answer) is a third negative control.              *)
EXTENDS Resilience

CONSTANTS ResetPerAttempt, BreakerOutside, TimerAlways

VARIABLES resp,     \* status of the backend response held in spCtx.resp (0 = nil)
          brk       \* results recorded by the breaker so far

ivars == <<resp, brk>>
allvars == <<vars, ivars>>
iview == <<view, ivars>>

IInitAs(x) == InitAs(x) /\ resp = 0 /\ brk = 0
IInit == \E x \in Scenarios : IInitAs(x)

IAttempt(w) ==
    /\ Attempt(w)
    /\ resp' = IF ResetPerAttempt THEN 0 ELSE resp
    /\ UNCHANGED brk

Hung == [res |-> "hung", st |-> 0, fail |-> TRUE, b |-> FALSE]
Unbounded == pc = "attempt" /\ KindOf(n) = "hang" /\ ~TimerAlways /\ sc.cdl # "none"

(* what doHandle makes of an outcome: the client's deadline is a DeadlineExceeded like the pool's *)
Code(o) == IF o.res = "deadline" THEN [o EXCEPT !.res = "timeout", !.st = 408] ELSE o

IReturn ==
    /\ IF Unbounded                                              \* (negative control only)
       THEN /\ pc = "attempt" /\ outs' = Append(outs, Hung) /\ pc' = "waiting"
            /\ last' = [a |-> "ret", i |-> n, k |-> "hung"]
            /\ UNCHANGED <<sc, n, recs, final, cancelled>>
       ELSE Return
    /\ LET o == Classify(KindOf(n)) IN
       /\ resp' = IF o.b THEN o.st ELSE resp                        \* buildResponse only when a response arrived
       /\ brk' = IF ~BreakerOutside /\ sc.cb = "closed" THEN brk + 1 ELSE brk
ICancelWaiting == CancelWaiting /\ UNCHANGED ivars

(* the loop is left: success, no retry wrapper, cancelled, or attempts exhausted *)
IFinish ==
    /\ \/ pc = "open"
       \/ pc = "waiting" /\ (~outs[n].fail \/ ~Wrapped \/ cancelled \/ n >= sc.max)
    /\ pc' = "done"
    /\ IF pc = "open"
       THEN final' = ShortCircuited /\ brk' = brk
       ELSE LET o == Code(outs[n]) IN
            /\ final' = IF ~o.fail THEN [res |-> "", st |-> resp, fail |-> FALSE, b |-> TRUE]
                        ELSE [res |-> o.res, st |-> (IF resp = 0 THEN o.st ELSE resp), fail |-> TRUE, b |-> (resp # 0)]
            /\ brk' = IF BreakerOutside /\ sc.cb = "closed" THEN brk + 1 ELSE brk
    /\ recs' = brk'
    /\ last' = [a |-> "fin", res |-> final'.res, st |-> final'.st, n |-> n, recs |-> recs']
    /\ UNCHANGED <<sc, n, outs, cancelled, resp>>

INext == (\E w \in Waits : IAttempt(w)) \/ IReturn \/ ICancelWaiting \/ IFinish

ISpec == IInit /\ [][INext]_allvars

Refines == [][Next]_vars
=============================================================================

--------------------------- MODULE ResilienceImpl_MC --------------------------
(* Model-checking wrapper: the implementation-shaped layer over the scenario sets                 *)
(* (`pick`: see Resilience_MC).                                                                    *)
EXTENDS ResilienceImpl, Resilience_Scn

VARIABLE pick

MNext == INext /\ UNCHANGED pick
IAllSpec   == InAll(pick) /\ IInitAs(pick) /\ [][MNext]_<<allvars, pick>>
IQuickSpec == InQuick(pick) /\ IInitAs(pick) /\ [][MNext]_<<allvars, pick>>
ISmallSpec == InSmall(pick) /\ IInitAs(pick) /\ [][MNext]_<<allvars, pick>>
=============================================================================

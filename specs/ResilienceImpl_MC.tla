--------------------------- MODULE ResilienceImpl_MC --------------------------
(* Model-checking wrapper: the implementation-shaped layer over the scenario sets                 *)
(* (`pick`: see Resilience_MC).                                                                    *)
EXTENDS ResilienceImpl, Resilience_Scn

VARIABLE pick

MNext == INext /\ UNCHANGED pick
IAllSpec   == pick \in AllScenarios /\ IInitAs(pick) /\ [][MNext]_<<allvars, pick>>
IQuickSpec == pick \in QuickScenarios /\ IInitAs(pick) /\ [][MNext]_<<allvars, pick>>
ISmallSpec == pick \in SmallScenarios /\ IInitAs(pick) /\ [][MNext]_<<allvars, pick>>
=============================================================================

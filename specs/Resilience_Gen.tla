---------------------------- MODULE Resilience_Gen ----------------------------
(* Scenario sets for Resilience / ResilienceImpl (model checking) and the export of every        *)
(* scenario as a test vector (`out`, JSON): the vectors are run on the real ServerPool and the    *)
(* recorded attempts are validated against the contract by Resilience_Trace.                      *)
EXTENDS ResilienceImpl, Resilience_Scn, Json

VARIABLES out, pick

(* vectors: the initial states, one per scenario (`pick`: see Resilience_MC) *)
VInit(In(_)) == In(pick) /\ IInitAs(pick) /\ out = ToJson([a |-> "init", sc |-> pick])
VNext == UNCHANGED <<allvars, out, pick>>
VAllSpec   == VInit(InAllV) /\ [][VNext]_<<allvars, out, pick>>
VQuickSpec == VInit(InQuickV) /\ [][VNext]_<<allvars, out, pick>>
=============================================================================

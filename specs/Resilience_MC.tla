----------------------------- MODULE Resilience_MC ----------------------------
(* Model-checking wrapper: the contract over the scenario sets.                                   *)
(* `pick` is a copy of the scenario: TLC enumerates  pick \in S /\ sc = pick  about ten times    *)
(* faster than  sc \in S  for these sets of a few thousand records (measured), and a set passed   *)
(* through a `Scenarios <- S` substitution is evaluated again for every state.                     *)
EXTENDS Resilience, Resilience_Scn

VARIABLE pick

MNext == Next /\ UNCHANGED pick
AllSpec   == InAll(pick) /\ InitAs(pick) /\ [][MNext]_<<vars, pick>>
QuickSpec == InQuick(pick) /\ InitAs(pick) /\ [][MNext]_<<vars, pick>>
=============================================================================

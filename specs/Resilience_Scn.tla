---------------------------- MODULE Resilience_Scn ----------------------------
(* The scenarios explored for C10: every combination of policy, script of per-attempt outcomes,  *)
(* cancellation point, stream / buffered body, breaker state and pool time-out, in canonical form. *)
EXTENDS Resilience

Fail == {"fcode", "neterr", "hang", "cancel", "cdl"}
Succ == {"ok", "okc"}

(* scripts of length m in canonical form: entries after the first success or after the client's  *)
(* cancellation cannot matter to a correct pool; they are "neterr" (so that a pool that wrongly   *)
(* goes on is seen to fail)                                                                       *)
Scripts(m) ==
    {s \in [1..m -> Kinds] :
        \A i \in 1..m : (\E j \in 1..(i - 1) : s[j] \in Succ \/ s[j] \in {"cancel", "cdl"}) => s[i] = "neterr"}

(* the client's own deadline: "earlier" exactly for the scripts in which it expires; otherwise none, *)
(* or - where a pool time-out is configured - one that is later than the pool time-out              *)
CdlKinds == {"none", "later", "earlier"}
Cdls(s, m, t) == IF \E i \in 1..m : s[i] = "cdl" THEN {"earlier"}
                 ELSE IF t THEN {"none", "later"} ELSE {"none"}

AsSeq(f, m) == [i \in 1..m |-> f[i]]

(* a Retry policy that is in effect: buffered request *)
Retrying(Fs, Es, CBs) ==
    {[retry |-> TRUE, max |-> m, stream |-> FALSE, cb |-> c, tmo |-> t, script |-> AsSeq(s, m), cancelB |-> cb,
      base |-> 4, f |-> f, exp |-> e, cdl |-> d] :
        m \in 1..3, c \in CBs, t \in BOOLEAN, s \in Scripts(3), cb \in 0..3, f \in Fs, e \in Es, d \in CdlKinds}

(* no Retry policy, or a streamed body: one attempt; the script still says what further attempts would meet *)
Single ==
    {[retry |-> r, max |-> m, stream |-> st, cb |-> c, tmo |-> t, script |-> AsSeq(s, 2), cancelB |-> cb,
      base |-> 4, f |-> 0, exp |-> FALSE, cdl |-> d] :
        r \in BOOLEAN, m \in {1, 3}, st \in BOOLEAN, c \in {"none", "closed", "open"}, t \in BOOLEAN, s \in Scripts(2), cb \in {0, 1},
        d \in CdlKinds}

(* canonical form: parameters that cannot matter are fixed (back-off parameters need a second,    *)
(* exponential growth a third attempt; a short-circuited request meets no backend at all)          *)
Canonical(S) == {s \in S : /\ s.cancelB <= s.max
                           /\ (s.max = 1 => s.f = 0)
                           /\ (s.max < 3 => ~s.exp)
                           /\ (s.cb = "open" => /\ s.cancelB = 0 /\ ~s.exp /\ s.f = 0 /\ s.cdl = "none"
                                                /\ \A i \in 1..Len(s.script) : s.script[i] = s.script[1])
                           /\ s.cdl \in Cdls(s.script, Len(s.script), s.tmo)
                           /\ WellFormed(s)}

Unwrapped == Canonical({x \in Single : ~(x.retry /\ ~x.stream)})

(* The scenario sets, as predicates (TLC's union of two enumerated sets of records is quadratic, so *)
(* the two disjoint families are never united: "x \in A \/ x \in B" enumerates both).              *)
AllRetrying   == Canonical(Retrying({0, 25, 50}, BOOLEAN, {"none", "closed", "open"}))
(* the quick tier: two randomisation factors, breaker present *)
QuickRetrying == Canonical(Retrying({0, 50}, BOOLEAN, {"closed", "open"}))
(* for the negative controls *)
SmallScenarios == Canonical(Retrying({0}, {FALSE}, {"closed"}))

InAll(x)   == x \in AllRetrying \/ x \in Unwrapped
InQuick(x) == x \in QuickRetrying \/ x \in Unwrapped
InSmall(x) == x \in SmallScenarios

(* Long retry chains (test vectors only; the model-checked sets above keep max <= 3): every attempt  *)
(* but possibly the last fails, so that the late gaps of an exponentially growing back-off - before *)
(* attempt 7, 8, ... - are recorded and judged by BackoffRespected like the early ones.             *)
Long(Ms) ==
    {[retry |-> TRUE, max |-> m, stream |-> FALSE, cb |-> "none", tmo |-> FALSE,
      script |-> [i \in 1..m |-> IF i < m THEN k ELSE z], cancelB |-> 0,
      base |-> 4, f |-> f, exp |-> e, cdl |-> "none"] :
        m \in Ms, k \in {"neterr", "fcode"}, z \in {"neterr", "ok"}, f \in {0, 50}, e \in BOOLEAN}
LongAll   == Long({6, 8, 10})
LongQuick == Long({8})
InAllV(x)   == InAll(x) \/ x \in LongAll
InQuickV(x) == InQuick(x) \/ x \in LongQuick

GenWaits == {0, 1, 2, 3, 4, 5, 6, 8, 9}

=============================================================================

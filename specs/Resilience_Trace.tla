--------------------------- MODULE Resilience_Trace ---------------------------
(* Trace validation for C10.  Each TLC-generated scenario is run on the real ServerPool.handle    *)
(* (real RetryPolicy and CircuitBreakerPolicy injected, transport scripted through the package     *)
(* variable fnSendRequest); the harness records, in real order under one lock,                     *)
(*   reset  sc                  the scenario (durations in microseconds); sc.cdl: the client's      *)
(*                              request context carries a deadline of its own - "later": one hour,  *)
(*                              "earlier": it expires during the call whose script entry is "cdl"   *)
(*   att    i, w                the i-th call reached the transport, w = microseconds since the    *)
(*                              previous call returned (rounded up)                                *)
(*   ret    i, k                the call returns; k = what the transport did (the script entry)    *)
(*   cancel                     the client's context was cancelled while no call was in progress   *)
(*                              (logged after cancel() returned)                                   *)
(*   fin    res, st, b, recs    handle returned: result string, status code of the response, body   *)
(*                              of the response ("last": the last attempt's backend body, "none":   *)
(*                              empty, anything else: some other body), breaker records              *)
(* and TLC checks that this is a behaviour of the contract.  An observation that no contract step  *)
(* explains is reported (VERIF_REJECT <line>) and the run goes on with the next scenario.          *)
EXTENDS Resilience, Json, TLC, IOUtils

TLog == ndJsonDeserialize(IOEnv.VERIF_TRACE)

VARIABLE l
tvars == <<vars, l>>

IsEvent(e) == l <= Len(TLog) /\ TLog[l].ev = e /\ l' = l + 1

TReset ==
    /\ IsEvent("reset")
    /\ WellFormed(TLog[l].sc)
    /\ sc' = TLog[l].sc
    /\ pc' = IF TLog[l].sc.cb = "open" THEN "open" ELSE "ready"
    /\ n' = 0 /\ outs' = <<>> /\ cancelled' = FALSE /\ recs' = 0 /\ final' = NoOutcome
    /\ last' = [a |-> "init"]

TAtt == IsEvent("att") /\ TLog[l].i = n + 1 /\ Attempt(TLog[l].w)

TRet == IsEvent("ret") /\ TLog[l].i = n /\ TLog[l].k = KindOf(n) /\ Return

(* (a cancellation that arrives when the request is already over or already cancelled changes nothing) *)
TCancel == IsEvent("cancel") /\ (CancelWaiting \/ ((pc = "done" \/ cancelled) /\ UNCHANGED vars))

TFin ==
    /\ IsEvent("fin")
    /\ Finish
    /\ final'.res = TLog[l].res /\ final'.st = TLog[l].st
    /\ TLog[l].b \in {"last", "none"} /\ final'.b = (TLog[l].b = "last")
    /\ recs' = TLog[l].recs

Explained == TReset \/ TAtt \/ TRet \/ TCancel \/ TFin

RECURSIVE NextReset(_)
NextReset(j) == IF j > Len(TLog) \/ TLog[j].ev = "reset" THEN j ELSE NextReset(j + 1)

(* the recorded scenarios are sequential and every contract step is determined by its event, so   *)
(* "no step explains the event" is the negation of the enabling conditions above                   *)
TBad ==
    /\ l <= Len(TLog) /\ ~ENABLED Explained
    /\ PrintT(<<"VERIF_REJECT", l>>)
    /\ l' = NextReset(l + 1)
    /\ UNCHANGED vars

TNext == Explained \/ TBad

TInit ==
    /\ l = 1
    /\ sc = [retry |-> FALSE, max |-> 1, stream |-> FALSE, cb |-> "none", tmo |-> FALSE, script |-> <<"ok">>,
             cancelB |-> 0, base |-> 0, f |-> 0, exp |-> FALSE, cdl |-> "none"]
    /\ pc = "done" /\ n = 0 /\ outs = <<>> /\ cancelled = FALSE /\ recs = 0 /\ final = NoOutcome
    /\ last = [a |-> "init"]

TSpec == TInit /\ [][TNext]_tvars

ASSUME TLCSet(1, 0)
HWM == TLCSet(1, IF l - 1 > TLCGet(1) THEN l - 1 ELSE TLCGet(1))
TraceAccepted == /\ PrintT(<<"VERIF_HWM", TLCGet(1), Len(TLog)>>)
                 /\ TLCGet(1) = Len(TLog)
=============================================================================

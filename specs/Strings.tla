------------------------------- MODULE Strings -------------------------------
(* Strings the specifications must look into.  TLC strings are atomic, so a string is a        *)
(* sequence of one-character strings: "/ab" is <<"/","a","b">> (JSON: ["/","a","b"]).          *)
(*                                                                                              *)
(* Every character is an ordinary one: '%' and the hex digits after it have no meaning here     *)
(* (a path is the decoded path; nothing in this module decodes), '$' only in a rewrite template. *)
(*                                                                                              *)
(* Besides prefix/suffix/substring tests the module defines                                     *)
(*   - StripPort : what Go's net.SplitHostPort does to a Host header (port ignored),            *)
(*   - a family of regular expressions whose semantics can be written down in TLA+ and that    *)
(*     covers the three things easegress does with regexps (unanchored MatchString on hosts,   *)
(*     paths and header values; ReplaceAllString with $1 for rewriteTarget):                   *)
(*         RE = [on, anchS, lit, tail, anchE]    standing for  ^? quote(lit) G? $?  where G is   *)
(*     one capturing group around dot-star                                                      *)
(*     REMatch = Go's regexp.MatchString, REReplaceAll = Go's regexp.ReplaceAllString for a    *)
(*     template in which "$1" (not followed by a letter, digit or underscore) is the only      *)
(*     reference.  Strings never contain a newline ('.' would not match it).                    *)
EXTENDS Integers, Sequences

Min2(a, b) == IF a < b THEN a ELSE b

IsPrefixOf(p, s) == Len(p) <= Len(s) /\ \A i \in 1..Len(p) : p[i] = s[i]
IsSuffixOf(p, s) == Len(p) <= Len(s) /\ \A i \in 1..Len(p) : p[i] = s[Len(s) - Len(p) + i]

(* p occurs in s starting at index i (1-based) *)
OccursAt(p, s, i) == i >= 1 /\ i + Len(p) - 1 <= Len(s) /\ \A k \in 1..Len(p) : p[k] = s[i + k - 1]
Occurrences(p, s) == {i \in 1..(Len(s) - Len(p) + 1) : OccursAt(p, s, i)}
Contains(p, s) == Occurrences(p, s) # {}

MinOf(S) == CHOOSE x \in S : \A y \in S : x <= y
MaxOf(S) == CHOOSE x \in S : \A y \in S : x >= y

Drop(s, n) == SubSeq(s, n + 1, Len(s))       \* s without its first n characters
Take(s, n) == SubSeq(s, 1, n)

IndexesOf(c, s) == {i \in 1..Len(s) : s[i] = c}

RECURSIVE Flatten(_)
Flatten(ss) == IF ss = <<>> THEN <<>> ELSE Head(ss) \o Flatten(Tail(ss))

(* ---------------------------------------------------------------------------------------- *)
(* net.SplitHostPort: the host part when the value has the form host:port or [v6]:port,      *)
(* the value itself otherwise (no colon, too many colons, stray brackets, missing port).     *)
StripPort(h) ==
    LET colons == IndexesOf(":", h) IN
    IF colons = {} THEN h
    ELSE LET i == MaxOf(colons) IN
         IF h[1] = "["
         THEN LET ends == IndexesOf("]", h) IN
              IF ends = {} THEN h
              ELSE LET e == MinOf(ends) IN
                   IF /\ e + 1 = i
                      /\ IndexesOf("[", h) = {1}
                      /\ ends = {e}
                   THEN SubSeq(h, 2, e - 1) ELSE h
         ELSE LET host == Take(h, i - 1) IN
              IF IndexesOf(":", host) # {} \/ IndexesOf("[", h) # {} \/ IndexesOf("]", h) # {}
              THEN h ELSE host

(* ---------------------------------------------------------------------------------------- *)
NoRE == [on |-> FALSE, anchS |-> FALSE, lit |-> <<>>, tail |-> FALSE, anchE |-> FALSE]

(* start positions at which the expression can match in s *)
REStarts(re, s) ==
    {i \in Occurrences(re.lit, s) :
        /\ re.anchS => i = 1
        /\ (re.anchE /\ ~re.tail) => i + Len(re.lit) - 1 = Len(s)}

REMatch(re, s) == REStarts(re, s) # {}

(* template expansion: "$1" -> g1 (the text of group 1; "" when the expression has no group) *)
RECURSIVE Expand(_, _)
Expand(t, g1) ==
    IF t = <<>> THEN <<>>
    ELSE IF Len(t) >= 2 /\ t[1] = "$" /\ t[2] = "1" THEN g1 \o Expand(Drop(t, 2), g1)
    ELSE <<t[1]>> \o Expand(Drop(t, 1), g1)

(* leftmost, non-overlapping replacement of every match in s, scanning from index `from` *)
RECURSIVE REReplaceFrom(_, _, _, _)
REReplaceFrom(re, s, t, from) ==
    LET st == {i \in REStarts(re, s) : i >= from} IN
    IF st = {} THEN SubSeq(s, from, Len(s))
    ELSE LET i == MinOf(st) IN
         IF re.tail
         THEN \* the greedy group swallows the rest of the string; group 1 is that rest
              SubSeq(s, from, i - 1) \o Expand(t, Drop(s, i + Len(re.lit) - 1))
         ELSE SubSeq(s, from, i - 1) \o Expand(t, <<>>) \o REReplaceFrom(re, s, t, i + Len(re.lit))

REReplaceAll(re, s, t) == REReplaceFrom(re, s, t, 1)

(* members of the family the generators may use: a non-empty literal; a template whose "$"   *)
(* only occurs as "$1" followed by nothing or by a character that cannot continue a name     *)
NameChar(c) == c \in {"a","b","c","d","e","f","g","h","i","j","k","l","m","n","o","p","q","r","s","t","u",
                      "v","w","x","y","z","A","B","C","D","E","F","G","H","I","J","K","L","M","N","O","P",
                      "Q","R","S","T","U","V","W","X","Y","Z","0","1","2","3","4","5","6","7","8","9","_"}
TemplateOK(t) == \A i \in 1..Len(t) :
                    t[i] = "$" => /\ i < Len(t) /\ t[i + 1] = "1"
                                  /\ (i + 2 <= Len(t) => ~NameChar(t[i + 2]))
REOK(re) == re.on => re.lit # <<>>
=============================================================================

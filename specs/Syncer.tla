------------------------------- MODULE Syncer -------------------------------
(* C19.  The cluster syncer (pkg/cluster/syncer.go), implementation-shaped, one action per step  *)
(* of syncer.run:                                                                                *)
(*                                                                                              *)
(*     watcher, watchChan := s.watch(key, prefix)                                                *)
(*     data := {}                                   -- last snapshot sent, initially empty       *)
(*     pullCompareSend()                            -- FirstPull                                 *)
(*     for { select {                                                                            *)
(*       case <-ticker.C:  pullCompareSend()        -- TickerPull                                *)
(*       case resp := <-watchChan:                                                               *)
(*            resp.Canceled -> re-create the watcher     -- Cancel ; Rewatch                     *)
(*            otherwise     -> pullCompareSend()         -- WatchPull                            *)
(*     }}                                                                                        *)
(*     pullCompareSend: newData, err := pull(); err -> return                                    *)
(*                      !isDataEqual(data, newData) -> data = newData; send(data)   -- Send      *)
(*                                                                                              *)
(* A pull is one etcd read (GetRaw(key) for Sync / SyncRaw, one range read GetRawPrefix(prefix)  *)
(* otherwise): it returns the content of exactly the watched key / prefix at one instant.  Both  *)
(* facts are parameters of the model, so that TLC shows what the clauses owe to them:            *)
(*   PullScope  the keys a pull returns and `data` keeps (Watched in the code).  A pull that     *)
(*              reads more than the adapter delivers - e.g. every key that has the watched key   *)
(*              as a string prefix: k1x for k1 - makes the comparison see changes the consumer   *)
(*              cannot see, and Distinct fails;                                                 *)
(*   Page1      the keys of the first page of a pull (Keys in the code: one read).  A pull that   *)
(*              reads Page1 and then, other steps interleaving, the rest at the then-current     *)
(*              content (pages not pinned to one store revision) can return a content the store  *)
(*              never had, and RealStatesMonotone fails.                                        *)
(* Two more facts the clauses rest on are parameters as well (both FALSE / 0 in the code; the     *)
(* real code is decided by the trace validation - histories that end with the deletion of the    *)
(* most recently modified key, outages that span several pulls with unchanged content):          *)
(*   StaleGuard   every key carries its mod revision (mrev: the number of the write that last     *)
(*              put it).  pullCompareSend accepts whatever a successful pull returns.  With      *)
(*              StaleGuard a non-empty pulled content whose highest mod revision is lower than   *)
(*              that of `data` is ignored ("never step back"): deleting the most recently         *)
(*              modified key lowers the maximum, and Converges fails;                            *)
(*   ResyncAfter  a failed pull changes nothing, however many fail in a row (`fails` counts them   *)
(*              when ResyncAfter > 0).  A syncer that forgets `data` at the ResyncAfter-th         *)
(*              consecutive failure re-sends an unchanged content after the outage, and          *)
(*              Distinct fails.                                                                  *)
(* `send` blocks while the channel (capacity Buf; 10 in the code) is full, and the     *)
(* loop does nothing else meanwhile.  Deviations of the code from the ideal are modelled as      *)
(* the code behaves: an initially empty content is not delivered (data starts empty).            *)
(*                                                                                              *)
(* Environment: a store whose content under the watched prefix is a function Keys -> value or    *)
(* "none"; writes are single-key puts (also of the same value) and deletes, multi-key            *)
(* transactions (PutAndDelete, DeletePrefix) and writes outside the prefix; the etcd server may  *)
(* stop and start again (pulls fail while it is down, undelivered watch events may be lost);     *)
(* a watch may be cancelled (compaction), which loses the events up to the re-creation.          *)
EXTENDS Integers, Sequences, FiniteSets, TLC

CONSTANTS Keys,         \* keys under the prefix
          Watched,      \* subset of Keys the syncer watches: Keys for SyncPrefix, one key for Sync(key)
          Vals,         \* values
          Buf,          \* channel capacity
          MaxWrites, MaxRestarts, MaxCancels,
          Ticker,       \* BOOLEAN: FALSE removes the periodic pull (to show Converges is not vacuous)
          PullScope,    \* subset of Keys a pull returns and compares (the code: Watched)
          Page1,        \* subset of Keys read by the first request of a pull (the code: Keys, a pull is one request)
          StaleGuard,   \* BOOLEAN (the code: FALSE): ignore a non-empty pull whose highest mod revision is below that of `data`
          ResyncAfter   \* 0 (the code) or n > 0: forget `data` at the n-th consecutive failed pull

Contents == [Keys -> Vals \cup {"none"}]
Empty == [k \in Keys |-> "none"]
Proj(c) == [k \in Keys |-> IF k \in Watched THEN c[k] ELSE "none"]
Scope(c) == [k \in Keys |-> IF k \in PullScope THEN c[k] ELSE "none"]
Paged == Page1 # Keys

VARIABLES store,     \* content of the store
          hist,      \* ghost: every (projected) content the store had since the syncer started, in order
          up,        \* the etcd server is running
          walive,    \* the watch is established (FALSE between a cancellation and its re-creation)
          wev,       \* a watch response is pending on watchChan
          spc,       \* "init" | "loop" | "send" | "page2" (a paged pull between its two requests)
          data,      \* the run loop's `data` (over PullScope)
          half,      \* the content at the first request of a paged pull
          ch,        \* the buffered channel
          recv,      \* ghost: everything the consumer received, in order
          writes, restarts, cancels,
          mrev,      \* per key: the number of the write that last put it, 0 = absent or there from the start (all 0 unless StaleGuard)
          drev,      \* highest mod revision in `data` (0 unless StaleGuard)
          fails      \* consecutive failed pulls (0 unless ResyncAfter > 0)

aux == <<mrev, drev, fails>>
vars == <<store, hist, up, walive, wev, spc, data, half, ch, recv, writes, restarts, cancels, aux>>

Init ==
    /\ store \in Contents          \* the syncer may start on any content
    /\ hist = <<Proj(store)>>
    /\ up = TRUE /\ walive = TRUE /\ wev = FALSE
    /\ spc = "init" /\ data = Empty /\ half = Empty /\ ch = <<>> /\ recv = <<>>
    /\ writes = 0 /\ restarts = 0 /\ cancels = 0
    /\ mrev = [k \in Keys |-> 0] /\ drev = 0 /\ fails = 0

(* ---- the store *)
Touches(new) == \E k \in Watched : new[k] # store[k]

(* `put`: the keys the write puts (their mod revision becomes the number of this write) *)
DoWrite(new, notify, put) ==
    /\ up /\ writes < MaxWrites
    /\ writes' = writes + 1
    /\ store' = new
    /\ hist' = Append(hist, Proj(new))
    /\ wev' = IF walive /\ notify THEN TRUE ELSE wev
    /\ mrev' = IF StaleGuard
               THEN [k \in Keys |-> IF new[k] = "none" THEN 0 ELSE IF k \in put THEN writes + 1 ELSE mrev[k]]
               ELSE mrev
    /\ UNCHANGED <<up, walive, spc, data, half, ch, recv, restarts, cancels, drev, fails>>

(* put (a same-value put also produces a watch event and a new mod revision) / delete of one key *)
PutKey(k, v)  == DoWrite([store EXCEPT ![k] = v], k \in Watched, {k})
DeleteKey(k)  == DoWrite([store EXCEPT ![k] = "none"], k \in Watched /\ store[k] # "none", {})
(* one transaction changing several keys at once *)
Txn(new)      == new # store /\ DoWrite(new, Touches(new), {k \in Keys : new[k] # store[k]})
(* a key outside the prefix *)
WriteOutside  == DoWrite(store, FALSE, {})

(* ---- syncer.run *)
(* pullCompareSend; `spc` afterwards.  Compare(c): the pull returned content c *)
MaxOf(S) == IF S = {} THEN 0 ELSE CHOOSE x \in S : \A y \in S : y <= x
PulledRev == MaxOf({mrev[k] : k \in PullScope})        \* highest mod revision of what a pull returns now
Compare(c) ==
    IF StaleGuard /\ Scope(c) # Empty /\ PulledRev < drev
    THEN /\ UNCHANGED <<data, drev>> /\ spc' = "loop"    \* "stale": ignored
    ELSE IF Scope(c) # data
    THEN /\ data' = Scope(c) /\ spc' = "send" /\ drev' = IF StaleGuard THEN PulledRev ELSE drev
    ELSE /\ UNCHANGED <<data, drev>> /\ spc' = "loop"        \* equal: nothing happens
(* a failed pull: nothing happens - unless the syncer gives up on what it remembers (ResyncAfter) *)
FailedPull ==
    /\ spc' = "loop"
    /\ fails' = IF ResyncAfter > 0 /\ fails <= ResyncAfter THEN fails + 1 ELSE fails
    /\ IF ResyncAfter > 0 /\ fails + 1 = ResyncAfter
       THEN data' = Empty /\ drev' = 0
       ELSE UNCHANGED <<data, drev>>
Pull ==
    /\ UNCHANGED mrev
    /\ IF ~up THEN FailedPull /\ UNCHANGED half
       ELSE IF Paged THEN /\ half' = store /\ spc' = "page2" /\ UNCHANGED <<data, drev, fails>>
       ELSE /\ Compare(store) /\ UNCHANGED half /\ fails' = 0

FirstPull  == /\ spc = "init" /\ Pull
              /\ UNCHANGED <<store, hist, up, walive, wev, ch, recv, writes, restarts, cancels>>
WatchPull  == /\ spc = "loop" /\ wev /\ wev' = FALSE /\ Pull
              /\ UNCHANGED <<store, hist, up, walive, ch, recv, writes, restarts, cancels>>
TickerPull == /\ Ticker /\ spc = "loop" /\ Pull
              /\ UNCHANGED <<store, hist, up, walive, wev, ch, recv, writes, restarts, cancels>>
(* the second request of a paged pull: the rest of the keys, as they are now *)
PullPage2  == /\ spc = "page2" /\ half' = Empty /\ UNCHANGED mrev
              /\ IF up THEN Compare([k \in Keys |-> IF k \in Page1 THEN half[k] ELSE store[k]]) /\ fails' = 0
                       ELSE FailedPull
              /\ UNCHANGED <<store, hist, up, walive, wev, ch, recv, writes, restarts, cancels>>
(* the adapter delivers the watched part of `data` *)
Send       == /\ spc = "send" /\ Len(ch) < Buf
              /\ ch' = Append(ch, Proj(data)) /\ spc' = "loop"
              /\ UNCHANGED <<store, hist, up, walive, wev, data, half, recv, writes, restarts, cancels, aux>>

Consume == /\ ch # <<>> /\ recv' = Append(recv, Head(ch)) /\ ch' = Tail(ch)
           /\ UNCHANGED <<store, hist, up, walive, wev, spc, data, half, writes, restarts, cancels, aux>>

(* ---- faults *)
Stop  == /\ up /\ restarts < MaxRestarts
         /\ up' = FALSE /\ restarts' = restarts + 1
         /\ wev' \in {wev, FALSE}                   \* undelivered events may be lost
         /\ UNCHANGED <<store, hist, walive, spc, data, half, ch, recv, writes, cancels, aux>>
Start == /\ ~up /\ up' = TRUE
         /\ UNCHANGED <<store, hist, walive, wev, spc, data, half, ch, recv, writes, restarts, cancels, aux>>
Cancel == /\ walive /\ cancels < MaxCancels
          /\ walive' = FALSE /\ wev' = FALSE /\ cancels' = cancels + 1
          /\ UNCHANGED <<store, hist, up, spc, data, half, ch, recv, writes, restarts, aux>>
Rewatch == /\ spc = "loop" /\ ~walive /\ walive' = TRUE
           /\ UNCHANGED <<store, hist, up, wev, spc, data, half, ch, recv, writes, restarts, cancels, aux>>

Next == \/ \E k \in Keys, v \in Vals : PutKey(k, v)
        \/ \E k \in Keys : DeleteKey(k)
        \/ \E new \in Contents : Txn(new)
        \/ WriteOutside
        \/ FirstPull \/ WatchPull \/ TickerPull \/ PullPage2 \/ Send \/ Consume
        \/ Stop \/ Start \/ Cancel \/ Rewatch

Spec == Init /\ [][Next]_vars
(* the ticker fires, the loop runs, the consumer reads, a stopped server is started again *)
FairSpec == Spec /\ WF_vars(FirstPull) /\ WF_vars(TickerPull) /\ WF_vars(WatchPull) /\ WF_vars(PullPage2) /\ WF_vars(Send)
                 /\ WF_vars(Consume) /\ WF_vars(Start) /\ WF_vars(Rewatch)

-----------------------------------------------------------------------------
(* everything sent so far, in order *)
Sent == recv \o ch \o (IF spc = "send" THEN <<Proj(data)>> ELSE <<>>)

RECURSIVE Embeds(_, _, _)
Embeds(s, h, from) == IF s = <<>> THEN TRUE
                      ELSE \E i \in from..Len(h) : h[i] = Head(s) /\ Embeds(Tail(s), h, i)

(* C19: every snapshot is a content the store had (since the syncer started), in non-decreasing store order *)
RealStatesMonotone == Embeds(Sent, hist, 1)
(* C19: consecutive snapshots differ *)
Distinct == \A i \in 1..Len(Sent) - 1 : Sent[i] # Sent[i + 1]
(* the code never delivers the empty content first (the consumer's view starts empty) *)
FirstNotEmpty == Sent # <<>> => Sent[1] # Empty
(* C19: first delivers the current content: with no write at all, the only thing ever sent is the initial content *)
FirstIsCurrent == (writes = 0 /\ Sent # <<>>) => Sent = <<hist[1]>>

(* C19: ... eventually delivers a snapshot equal to the store's final content without further writes *)
View == IF recv = <<>> THEN Empty ELSE recv[Len(recv)]
Converges == <>[](View = Proj(store))

TypeOK == /\ store \in Contents /\ data \in Contents /\ spc \in {"init", "loop", "send", "page2"}
          /\ Watched \subseteq PullScope /\ (spc = "page2" => Paged)
          /\ Len(ch) <= Buf
          /\ (~StaleGuard => drev = 0 /\ \A k \in Keys : mrev[k] = 0) /\ (ResyncAfter = 0 => fails = 0)
          /\ (StaleGuard => ~Paged)
=============================================================================

--------------------------- MODULE SyncerContract ---------------------------
(* C19, contract layer.  What the property says about the snapshots a syncer delivers, and       *)
(* nothing about how (watch, pull, ticker):                                                      *)
(*   - the store's content under a prefix is a function Keys -> value or "none"; `hist` is the   *)
(*     sequence of all contents it had (hist[Len(hist)] is the current one);                     *)
(*   - a consumer started when the store was at hist[b] receives snapshots, each of which is      *)
(*     (the consumer's projection of) some hist[i], with i >= b and i non-decreasing from one    *)
(*     snapshot to the next (RealStates, Monotone, "first delivers the current content");        *)
(*   - consecutive snapshots of a consumer differ (Distinct);                                    *)
(*   - Converged(c): the consumer's view -- its last snapshot, or the empty content if it got     *)
(*     none (interpretation DESIGN 5/C19: the view starts empty, an initially empty key needs    *)
(*     no delivery) -- equals the current content.  The harness claims it after the last write   *)
(*     within a generous deadline: that is the liveness clause, bounded.                         *)
(* A consumer of one key (Sync / SyncRaw) sees the projection on that key.                       *)
EXTENDS Integers, Sequences, FiniteSets

CONSTANTS Keys, Consumers

Empty == [k \in Keys |-> "none"]

VARIABLES store,    \* current content
          hist,     \* all contents so far
          cons      \* per consumer: [on, kind ("key" | "prefix"), key, idx (index in hist of the last snapshot, or the start index), n (snapshots so far), lastv]

kvars == <<store, hist, cons>>

NoCons == [on |-> FALSE, kind |-> "prefix", key |-> "-", idx |-> 1, n |-> 0, lastv |-> Empty]

ProjOf(c, content) == IF cons[c].kind = "key"
                      THEN [k \in Keys |-> IF k = cons[c].key THEN content[k] ELSE "none"]
                      ELSE content

KInit == store = Empty /\ hist = <<Empty>> /\ cons = [c \in Consumers |-> NoCons]

(* a write: `set` gives for every key the new value, "none" (delete) or "keep" *)
Apply(set) == [k \in Keys |-> IF set[k] = "keep" THEN store[k] ELSE set[k]]
Write(set) == /\ store' = Apply(set) /\ hist' = Append(hist, Apply(set)) /\ UNCHANGED cons

StartConsumer(c, kind, key) ==
    /\ ~cons[c].on
    /\ cons' = [cons EXCEPT ![c] = [on |-> TRUE, kind |-> kind, key |-> key, idx |-> Len(hist), n |-> 0, lastv |-> Empty]]
    /\ UNCHANGED <<store, hist>>

(* earliest index >= the previous one whose projection is the snapshot (greedy embedding is complete) *)
Candidates(c, snap) == {i \in cons[c].idx..Len(hist) : ProjOf(c, hist[i]) = snap}
Min(S) == CHOOSE x \in S : \A y \in S : x <= y

Deliver(c, snap) ==
    /\ cons[c].on
    /\ Candidates(c, snap) # {}                         \* RealStates + Monotone
    /\ cons[c].n > 0 => snap # cons[c].lastv             \* Distinct
    /\ cons' = [cons EXCEPT ![c].idx = Min(Candidates(c, snap)), ![c].n = @ + 1, ![c].lastv = snap]
    /\ UNCHANGED <<store, hist>>

Converged(c) == cons[c].on /\ cons[c].lastv = ProjOf(c, store)
=============================================================================

---------------------------- MODULE Syncer_Trace ----------------------------
(* Trace validation for C19.  One writer goroutine performs puts / deletes / transactions on a   *)
(* fresh prefix of the real store (embedded etcd) and logs `w.inv` / `w.ret`; the write takes    *)
(* effect at a silent WLin step in between.  Consumers of the real syncer (Sync, SyncRaw,        *)
(* SyncPrefix, SyncRawPrefix; fast and slow readers) log `start` before calling Sync* and `snap` *)
(* for every value received.  `stop` / `up` mark a restart of the etcd server, `part` / `heal` an   *)
(* interval during which every etcd request of the syncer's member fails.  After the last         *)
(* write the harness waits (generous deadline) and logs `conv` with each consumer's view: the    *)
(* contract's Converged must hold.  TLC rebuilds `hist` and checks every snapshot against         *)
(* SyncerContract (RealStates, Monotone, Distinct).                                              *)
(*                                                                                              *)
(* Keys of the recorded contents: k1 (watched by the single-key consumers), k1x (under the       *)
(* prefix, its name has k1 as a string prefix: not part of a single-key consumer's content), k2, *)
(* k3 and the pseudo-key `fill` standing for the ~1300 filler keys of a "big" scenario, which    *)
(* sort between k2 and k3 and are written once before the consumers start: "f1" = exactly the    *)
(* fillers with their values, "none" = no filler, any other value = something else (it matches   *)
(* no content of the store, so RealStates rejects it).  In big scenarios every write uses a      *)
(* value never used before, so that a snapshot mixing two store revisions is no content of hist. *)
EXTENDS SyncerContract, Json, TLC, IOUtils

TLog == ndJsonDeserialize(IOEnv.VERIF_TRACE)

VARIABLES l,
          pend     \* the write in flight: "no" or "yes"; its `set` is in pset
          , pset
tvars == <<kvars, l, pend, pset>>

IsEvent(e) == l <= Len(TLog) /\ TLog[l].ev = e /\ l' = l + 1
Ev == TLog[l]
Keep == [k \in Keys |-> "keep"]

TReset == /\ IsEvent("reset")
          /\ store' = Empty /\ hist' = <<Empty>> /\ cons' = [c \in Consumers |-> NoCons]
          /\ pend' = "no" /\ pset' = Keep

TWInv == /\ IsEvent("w.inv") /\ pend = "no"
         /\ pend' = "yes" /\ pset' = Ev.set
         /\ UNCHANGED kvars

WLin == /\ pend = "yes" /\ Write(pset) /\ pend' = "done" /\ UNCHANGED <<l, pset>>

TWRet == /\ IsEvent("w.ret") /\ pend = "done"
         /\ pend' = "no" /\ pset' = Keep
         /\ UNCHANGED kvars

TStart == /\ IsEvent("start")
          /\ StartConsumer(Ev.c, Ev.kind, Ev.key)
          /\ UNCHANGED <<pend, pset>>

TSnap == /\ IsEvent("snap")
         /\ Deliver(Ev.c, Ev.val)
         /\ UNCHANGED <<pend, pset>>

(* server stop / start, and `part` / `heal`: the syncer's member is cut off from the server (its etcd requests    *)
(* fail) and reaches it again: no effect on the contract's state; the harness logs them between two writes      *)
TMark == /\ (IsEvent("stop") \/ IsEvent("up") \/ IsEvent("part") \/ IsEvent("heal")) /\ pend = "no"
         /\ UNCHANGED <<kvars, pend, pset>>

TConv == /\ IsEvent("conv") /\ pend = "no"
         /\ Converged(Ev.c) /\ cons[Ev.c].lastv = Ev.view
         /\ UNCHANGED <<kvars, pend, pset>>

TNext == TReset \/ TWInv \/ WLin \/ TWRet \/ TStart \/ TSnap \/ TMark \/ TConv

TInit == l = 1 /\ KInit /\ pend = "no" /\ pset = Keep
TSpec == TInit /\ [][TNext]_tvars

(* the contract's clauses, evaluated on every observed state *)
IdxInRange == \A c \in Consumers : cons[c].idx \in 1..Len(hist)
ViewIsReal == \A c \in Consumers : cons[c].n > 0 => ProjOf(c, hist[cons[c].idx]) = cons[c].lastv

ASSUME TLCSet(1, 0)
HWM == TLCSet(1, IF l - 1 > TLCGet(1) THEN l - 1 ELSE TLCGet(1))
Accepted == /\ PrintT(<<"VERIF_HWM", TLCGet(1), Len(TLog)>>)
            /\ TLCGet(1) = Len(TLog)
=============================================================================

------------------------------ MODULE TrafficCtl ------------------------------
(* Growth item X08: the TrafficController (pkg/object/trafficcontroller) as an object.             *)
(*                                                                                                *)
(* Per namespace a table of traffic gates and a table of pipelines.  A table entry is an object   *)
(* *generation*: an ObjectEntity whose instance was initialised by Init (first generation of a     *)
(* name) or by Inherit from the generation it replaces.  One action per public method of the      *)
(* controller (each is one critical section under tc.mutex; Namespace.GetHandler is lock-free on  *)
(* a sync.Map: one atomic load).  `last` is the reply together with the callbacks (Init / Inherit  *)
(* / Close) the controller made on the object instances during the call - this is what the        *)
(* harness observes through recording object kinds.                                               *)
(*                                                                                                *)
(* Contract (the reading taken; docs: pkg/supervisor/registry.go "Inherit ... needs to handle the  *)
(* lifecycle of the previous generation ... The supervisor won't call Close for the previous      *)
(* generation", and the method comments of trafficcontroller.go):                                 *)
(*  - every generation the controller installed is *disposed of* exactly once, at the moment it   *)
(*    leaves the table: either handed to Inherit of its successor (then the controller does not   *)
(*    close it: cleaning up is the successor's job) or closed; never while it is in the table    *)
(*    (NoLeak, DisposedOnce, LiveIntact, DisposedWhenRemoved);                                    *)
(*  - Update / Apply of a changed spec inherit from the *latest* generation (Lineage), Apply of   *)
(*    an equal spec changes nothing, Apply = create-or-update, Update of a missing name fails,    *)
(*    failed calls change nothing (FailedIsNoop);                                                 *)
(*  - Create on an existing name: the code replaces the entry by a freshly initialised object     *)
(*    (users rely on that: EgressServer.reload re-creates its pipelines on every reload); by the  *)
(*    life-cycle rule the replaced generation has to be closed - CreateMode = "replace_close".     *)
(*    What the code does (no Close: the replaced object is orphaned) is CreateMode =              *)
(*    "replace_leak", refuted by NoLeak;                                                          *)
(*  - a namespace exists iff it holds an object (NsIffNonEmpty): created on first Create / Apply, *)
(*    removed with its last object; every incarnation is a new MuxMapper, and every object in the *)
(*    table was given the current incarnation (MapperCurrent), so GetHandler(name) through the    *)
(*    mapper of any live object resolves exactly the pipelines of its namespace, to the latest    *)
(*    generation (HandlerSound / HandlerComplete); the mapper of a past incarnation resolves       *)
(*    nothing;                                                                                    *)
(*  - namespaces are isolated (Isolated); Get / List / Walk / Status / GetHandler are read-only;  *)
(*    a walk function that panics is survived (the mutex is released);                            *)
(*  - Clean(namespace) and TrafficController.Close close everything that is left exactly once.    *)
(*    Close ends the controller's life (`closed`): the code leaves the entries in the namespace   *)
(*    objects, what a mapper resolves afterwards means nothing and is not specified.  For the     *)
(*    lock-free GetHandler a Clean takes effect object by object (TrafficCtl_CTrace).             *)
(* Negative controls: UpdateMode = "reinit" (update without inheriting or closing the previous    *)
(* generation) refuted by NoLeak; UpdateMode = "inherit_close" (the controller closes what it has *)
(* handed to Inherit) refuted by DisposedOnce.                                                    *)
EXTENDS Integers, FiniteSets, TLC

CONSTANTS NS,          \* namespaces the callers use; "" (never valid) may be among them
          Names,       \* object names
          Vers,        \* spec versions (two specs of a name are Equal iff same version)
          MaxOps,      \* bound on the number of mutating calls
          UpdateMode,  \* "inherit" | "reinit" | "inherit_close"
          CreateMode   \* "replace_close" | "replace_leak" | "replace_any"

Cats  == {"gate", "pipe"}
Slots == [ns : NS, cat : Cats, name : Names]
Slot(ns, cat, name) == [ns |-> ns, cat |-> cat, name |-> name]

VARIABLES tbl,      \* Slots -> id of the generation stored there, 0 = none
          nsLive,   \* namespaces present in tc.namespaces
          nsCnt,    \* NS -> number of incarnations so far (the current one, if live, has this number)
          objs,     \* id -> what is known about every generation ever installed
          tcgen,    \* generation of the TrafficController object itself (Inherit shares mutex and map)
          closed,   \* TrafficController.Close has run: the end of the controller's life, nothing is specified afterwards
          ops, last
state == <<tbl, nsLive, nsCnt, objs, tcgen, closed>>
vars  == <<tbl, nsLive, nsCnt, objs, tcgen, closed, ops, last>>

Ids     == DOMAIN objs
LiveIds == {tbl[s] : s \in Slots} \ {0}
SlotOf(o) == Slot(objs[o].ns, objs[o].cat, objs[o].name)
Cur(o)  == objs[o].ns \in nsLive /\ objs[o].inc = nsCnt[objs[o].ns]
IdsIn(ns, cat) == {tbl[s] : s \in {x \in Slots : x.ns = ns /\ x.cat = cat}} \ {0}
IdsOf(ns) == IdsIn(ns, "gate") \cup IdsIn(ns, "pipe")
Min(a, b) == IF a < b THEN a ELSE b

(* GetHandler(name) on the MuxMapper that generation o was given *)
HandlerOf(o, name) == IF Cur(o) THEN tbl[Slot(objs[o].ns, "pipe", name)] ELSE 0

Obj(s, ver, depth, inc, prev) ==
    [ns |-> s.ns, cat |-> s.cat, name |-> s.name, ver |-> ver, depth |-> depth, inc |-> inc,
     prev |-> prev, closes |-> 0, inh |-> 0]
CB(k, id, prev, inc) == [cb |-> k, id |-> id, prev |-> prev, inc |-> inc]
NoCB == {}

(* TLC: with a VIEW, lazily represented functions ([x \in S |-> e]) are never made explicit and   *)
(* cannot be written to the disk queue of a large run; Explicit forces the explicit form.          *)
Explicit(f) == f @@ <<>>

Init ==
    /\ tbl = Explicit([s \in Slots |-> 0]) /\ nsLive = {} /\ nsCnt = Explicit([n \in NS |-> 0])
    /\ objs = <<>> /\ tcgen = 1 /\ closed = FALSE /\ ops = 0 /\ last = [a |-> "init", ok |-> TRUE]

Mut(l)  == ops < MaxOps /\ ops' = ops + 1 /\ last' = l
Read(l) == ops' = ops /\ last' = l /\ UNCHANGED state
Failed(l) == Mut(l) /\ UNCHANGED state
CloseIds(f, C) == Explicit([o \in DOMAIN f |-> IF o \in C THEN [f[o] EXCEPT !.closes = @ + 1] ELSE f[o]])
CloseCBs(C) == {CB("close", o, 0, 0) : o \in C}
IncAfter(ns) == IF ns \in nsLive THEN nsCnt[ns] ELSE nsCnt[ns] + 1
EnsureNs(ns) == nsLive' = nsLive \cup {ns} /\ nsCnt' = [nsCnt EXCEPT ![ns] = IncAfter(ns)]
Fresh(id) == id > 0 /\ id \notin Ids

(* first generation of a name: InitWithRecovery(space); Store *)
Install(a, s, ver, id, old, closeOld) ==
    /\ Fresh(id)
    /\ EnsureNs(s.ns)
    /\ tbl' = [tbl EXCEPT ![s] = id]
    /\ objs' = (id :> Obj(s, ver, 1, IncAfter(s.ns), 0)) @@ (IF closeOld THEN CloseIds(objs, {old}) ELSE objs)
    /\ UNCHANGED <<tcgen, closed>>
    /\ Mut([a |-> a, ns |-> s.ns, cat |-> s.cat, name |-> s.name, ver |-> ver, ok |-> TRUE, ret |-> id,
            existed |-> old # 0,
            cbs |-> {CB("init", id, 0, IncAfter(s.ns))} \cup (IF closeOld THEN CloseCBs({old}) ELSE NoCB)])

(* next generation of a name: InheritWithRecovery(previous, space); Store *)
Replace(a, s, ver, id, old) ==
    /\ Fresh(id)
    /\ tbl' = [tbl EXCEPT ![s] = id]
    /\ UNCHANGED <<nsLive, nsCnt, tcgen, closed>>
    /\ LET inc == nsCnt[s.ns]
           rep(c) == [a |-> a, ns |-> s.ns, cat |-> s.cat, name |-> s.name, ver |-> ver, ok |-> TRUE, ret |-> id,
                      existed |-> TRUE, cbs |-> c]
       IN CASE UpdateMode = "inherit" ->
                 /\ objs' = (id :> Obj(s, ver, objs[old].depth + 1, inc, old)) @@ [objs EXCEPT ![old].inh = @ + 1]
                 /\ Mut(rep({CB("inherit", id, old, inc)}))
            [] UpdateMode = "reinit" ->
                 /\ objs' = (id :> Obj(s, ver, 1, inc, 0)) @@ objs
                 /\ Mut(rep({CB("init", id, 0, inc)}))
            [] UpdateMode = "inherit_close" ->
                 /\ objs' = (id :> Obj(s, ver, objs[old].depth + 1, inc, old))
                            @@ [objs EXCEPT ![old].inh = @ + 1, ![old].closes = @ + 1]
                 /\ Mut(rep({CB("inherit", id, old, inc)} \cup CloseCBs({old})))

Fail(a, ns, cat, name, ver) ==
    Failed([a |-> a, ns |-> ns, cat |-> cat, name |-> name, ver |-> ver, ok |-> FALSE, ret |-> 0,
            existed |-> FALSE, cbs |-> NoCB])

(* CreateTrafficGate / CreatePipeline (and ...ForSpec) *)
Create(ns, cat, name, ver, id) ==
    LET s == Slot(ns, cat, name)  old == tbl[s] IN
    IF ns = "" THEN Fail("create", ns, cat, name, ver)
    ELSE \/ CreateMode \in {"replace_close", "replace_any"} /\ Install("create", s, ver, id, old, old # 0)
         \/ (CreateMode = "replace_leak" \/ (CreateMode = "replace_any" /\ old # 0))
                /\ Install("create", s, ver, id, old, FALSE)

(* UpdateTrafficGate / UpdatePipeline: no comparison of the specs, always a new generation *)
Update(ns, cat, name, ver, id) ==
    LET s == Slot(ns, cat, name)  old == tbl[s] IN
    IF ns \notin nsLive \/ old = 0 THEN Fail("update", ns, cat, name, ver)
    ELSE Replace("update", s, ver, id, old)

(* ApplyTrafficGate / ApplyPipeline *)
Apply(ns, cat, name, ver, id) ==
    LET s == Slot(ns, cat, name)  old == tbl[s] IN
    IF ns = "" THEN Fail("apply", ns, cat, name, ver)
    ELSE IF old = 0 THEN Install("apply", s, ver, id, 0, FALSE)
    ELSE IF objs[old].ver = ver
         THEN /\ UNCHANGED state                    \* "nothing change": the stored entity is returned
              /\ Mut([a |-> "apply", ns |-> ns, cat |-> cat, name |-> name, ver |-> ver, ok |-> TRUE,
                      ret |-> old, existed |-> TRUE, cbs |-> NoCB])
         ELSE Replace("apply", s, ver, id, old)

DropEmpty(ns) ==
    nsLive' = IF \E s \in Slots : s.ns = ns /\ tbl'[s] # 0 THEN nsLive ELSE nsLive \ {ns}

(* DeleteTrafficGate / DeletePipeline: LoadAndDelete; Close; _cleanSpace *)
Delete(ns, cat, name) ==
    LET s == Slot(ns, cat, name)  old == tbl[s] IN
    IF ns \notin nsLive \/ old = 0
    THEN Failed([a |-> "delete", ns |-> ns, cat |-> cat, name |-> name, ok |-> FALSE, cbs |-> NoCB])
    ELSE /\ tbl' = [tbl EXCEPT ![s] = 0]
         /\ objs' = CloseIds(objs, {old})
         /\ DropEmpty(ns)
         /\ UNCHANGED <<nsCnt, tcgen, closed>>
         /\ Mut([a |-> "delete", ns |-> ns, cat |-> cat, name |-> name, ok |-> TRUE, cbs |-> CloseCBs({old})])

(* Clean(namespace) *)
Clean(ns) ==
    IF ns \notin nsLive
    THEN Failed([a |-> "clean", ns |-> ns, ok |-> FALSE, cbs |-> NoCB])
    ELSE /\ tbl' = Explicit([s \in Slots |-> IF s.ns = ns THEN 0 ELSE tbl[s]])
         /\ objs' = CloseIds(objs, IdsOf(ns))
         /\ nsLive' = nsLive \ {ns}
         /\ UNCHANGED <<nsCnt, tcgen, closed>>
         /\ Mut([a |-> "clean", ns |-> ns, ok |-> TRUE, cbs |-> CloseCBs(IdsOf(ns))])

(* TrafficController.Close: everything in every namespace is closed; the controller's life ends  *)
(* (the namespace objects keep their entries, so what a mapper resolves afterwards means nothing) *)
CloseAll ==
    /\ tbl' = Explicit([s \in Slots |-> 0])
    /\ objs' = CloseIds(objs, LiveIds)
    /\ nsLive' = {}
    /\ closed' = TRUE
    /\ UNCHANGED <<nsCnt, tcgen>>
    /\ Mut([a |-> "closeall", ns |-> "*", ok |-> TRUE, cbs |-> CloseCBs(LiveIds)])

(* a new generation of the TrafficController itself (Inherit): same mutex, same namespaces *)
Regen ==
    /\ tcgen' = tcgen + 1
    /\ UNCHANGED <<tbl, nsLive, nsCnt, objs, closed>>
    /\ Mut([a |-> "regen", ns |-> "*", ok |-> TRUE, cbs |-> NoCB])

(* ------------------------------ read-only calls ------------------------------ *)
Get(ns, cat, name) ==
    LET r == IF ns \in nsLive THEN tbl[Slot(ns, cat, name)] ELSE 0 IN
    Read([a |-> "get", ns |-> ns, cat |-> cat, name |-> name, ok |-> r # 0, ret |-> r])

List(ns, cat) ==
    Read([a |-> "list", ns |-> ns, cat |-> cat, ok |-> TRUE,
          ids |-> IF ns \in nsLive THEN IdsIn(ns, cat) ELSE {}])

(* Walk with a function that stops after lim visits (lim = 0: it panics at the first visit; the   *)
(* panic is recovered and the mutex released).  Which objects are visited is not determined: n of *)
(* the ids.                                                                                        *)
Walk(ns, cat, lim) ==
    LET ids == IF ns \in nsLive THEN IdsIn(ns, cat) ELSE {} IN
    Read([a |-> "walk", ns |-> ns, cat |-> cat, lim |-> lim, ok |-> TRUE, ids |-> ids,
          n |-> Min(IF lim = 0 THEN 1 ELSE lim, Cardinality(ids))])

(* GetHandler(name) through the MuxMapper generation o was initialised with *)
Handler(o, name) ==
    /\ o \in Ids
    /\ Read([a |-> "handler", o |-> o, ns |-> objs[o].ns, name |-> name, ok |-> HandlerOf(o, name) # 0,
             ret |-> HandlerOf(o, name)])

Status ==
    Read([a |-> "status", ok |-> TRUE, nss |-> nsLive, ids |-> LiveIds])

NextId == Cardinality(Ids) + 1
WalkLims == {0, 1, 9}
Calls ==
    \/ \E ns \in NS, cat \in Cats, name \in Names, ver \in Vers :
          \/ Create(ns, cat, name, ver, NextId)
          \/ Update(ns, cat, name, ver, NextId)
          \/ Apply(ns, cat, name, ver, NextId)
    \/ \E ns \in NS, cat \in Cats, name \in Names : Delete(ns, cat, name) \/ Get(ns, cat, name)
    \/ \E ns \in NS : Clean(ns)
    \/ CloseAll \/ Regen \/ Status
    \/ \E ns \in NS, cat \in Cats : List(ns, cat) \/ \E lim \in WalkLims : Walk(ns, cat, lim)
    \/ \E o \in Ids, name \in Names : Handler(o, name)
Next == ~closed /\ Calls
Spec == Init /\ [][Next]_vars

-----------------------------------------------------------------------------
(* what distinguishes two states for the future: ids are names only *)
view == <<ops, nsLive, closed,
          [s \in Slots |-> IF tbl[s] = 0 THEN <<>> ELSE <<objs[tbl[s]].ver, objs[tbl[s]].depth, Cur(tbl[s])>>],
          {<<objs[o].ns, Cur(o), objs[o].closes, objs[o].inh>> : o \in Ids \ LiveIds}>>

TypeOK ==
    /\ \A s \in Slots : tbl[s] = 0 \/ tbl[s] \in Ids
    /\ nsLive \subseteq NS /\ "" \notin nsLive
    /\ \A o \in Ids : objs[o].ns \in NS /\ objs[o].cat \in Cats /\ objs[o].name \in Names /\ objs[o].ver \in Vers
UniqueSlot    == \A s, t \in Slots : tbl[s] # 0 /\ tbl[s] = tbl[t] => s = t
NsIffNonEmpty == \A ns \in NS : ns \in nsLive <=> \E s \in Slots : s.ns = ns /\ tbl[s] # 0
LiveIntact    == \A s \in Slots : tbl[s] # 0 => SlotOf(tbl[s]) = s /\ objs[tbl[s]].closes = 0 /\ objs[tbl[s]].inh = 0
NoLeak        == \A o \in Ids \ LiveIds : objs[o].closes + objs[o].inh >= 1
DisposedOnce  == \A o \in Ids : objs[o].closes + objs[o].inh <= 1
MapperCurrent == \A o \in LiveIds : Cur(o)
Lineage       == \A o \in Ids : objs[o].prev # 0 =>
                     LET p == objs[o].prev IN
                     p \in Ids /\ SlotOf(p) = SlotOf(o) /\ objs[p].inh = 1 /\ objs[o].depth = objs[p].depth + 1 /\ p < o
HandlerSound  == \A o \in Ids, n \in Names :
                     LET h == HandlerOf(o, n) IN
                     h # 0 => h \in LiveIds /\ SlotOf(h) = Slot(objs[o].ns, "pipe", n)
HandlerComplete == \A o \in LiveIds, n \in Names : HandlerOf(o, n) = tbl[Slot(objs[o].ns, "pipe", n)]
StaleResolvesNothing == \A o \in Ids, n \in Names : ~Cur(o) => HandlerOf(o, n) = 0

(* reachability witness (expected to be violated): an inherited generation, a mapper of a past    *)
(* incarnation and a namespace in its second incarnation in one state                             *)
NoWitness == ~(/\ \E o \in Ids : objs[o].prev # 0
               /\ \E o \in Ids : ~Cur(o)
               /\ \E n \in NS : nsCnt[n] >= 2)

Mutators == {"create", "update", "apply", "delete", "clean", "closeall", "regen"}
Readers  == {"get", "list", "walk", "handler", "status"}
FailedIsNoop == [][(last'.a \in Mutators /\ ~last'.ok) => UNCHANGED state]_vars
ReadOnly     == [][last'.a \in Readers => UNCHANGED state]_vars
Isolated     == [][last'.a \in {"create", "update", "apply", "delete", "clean"} =>
                      /\ \A s \in Slots : s.ns # last'.ns => tbl'[s] = tbl[s]
                      /\ nsLive' \ {last'.ns} = nsLive \ {last'.ns}
                      /\ \A o \in Ids : objs[o].ns # last'.ns => objs'[o] = objs[o]]_vars
(* an object is disposed of exactly when it leaves the table *)
DisposedWhenRemoved ==
    [][\A o \in Ids : (objs'[o].closes + objs'[o].inh > objs[o].closes + objs[o].inh)
                          <=> (o \in LiveIds /\ o \notin {tbl'[s] : s \in Slots})]_vars
(* a new generation of an existing name inherits from the generation stored at that moment *)
InheritsLatest ==
    [][(last'.a \in {"update", "apply"} /\ last'.ok /\ last'.ret \notin Ids) =>
          LET s == Slot(last'.ns, last'.cat, last'.name) IN
          /\ tbl'[s] = last'.ret
          /\ objs'[last'.ret].prev = tbl[s]
          /\ (tbl[s] # 0 => objs'[tbl[s]].inh = 1 /\ objs'[tbl[s]].closes = 0)]_vars
ApplyEqualIsNoop ==
    [][(last'.a = "apply" /\ last'.ok /\ last'.ret \in Ids) =>
          UNCHANGED state /\ objs[last'.ret].ver = last'.ver /\ tbl[Slot(last'.ns, last'.cat, last'.name)] = last'.ret]_vars
ListExact ==
    [][last'.a = "list" => last'.ids = {tbl[s] : s \in {x \in Slots : x.ns = last'.ns /\ x.cat = last'.cat}} \ {0}]_vars
=============================================================================

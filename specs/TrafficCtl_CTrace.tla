-------------------------- MODULE TrafficCtl_CTrace --------------------------
(* Concurrent trace validation for X08: goroutines call one real TrafficController (create / update *)
(* / apply / delete / clean / get / list / walk / status, GetHandler through the mappers of the     *)
(* recording objects, Inherit of the controller itself) in the same and in different namespaces.    *)
(* The harness logs invocation and return of every call under one global sequence; the outcome of   *)
(* a call - reply, returned generation, the Init / Inherit / Close callbacks made on the recording  *)
(* objects while it ran (with the identity of the instances and of the namespace incarnation) - is  *)
(* copied into its `inv` event once it is known, so the search only places the call: every call     *)
(* takes effect at one silent step between its inv and its ret, and what the model predicts for    *)
(* that instant must be what was observed.                                                         *)
(* Clean(namespace) holds tc.mutex, so it is atomic for every call that takes the mutex; but it   *)
(* removes the objects one by one from the namespace's sync.Maps, and GetHandler reads those        *)
(* without the mutex: for lookups a Clean takes effect object by object (CleanBegin / CleanOne /    *)
(* CleanEnd), each pipeline resolving until the instant it is removed.                              *)
(*   reset                                                                                         *)
(*   inv  p, a, ns, cat, name, ver, o, lim, id (the instance initialised by the call, 0 if none),   *)
(*        r = [ok, ret, ids, nss, cbs]                                                             *)
(*   ret  p                                                                                        *)
EXTENDS TrafficCtl, Json, IOUtils, Sequences

CONSTANTS Procs

TLog == ndJsonDeserialize(IOEnv.VERIF_TRACE)

VARIABLES l,
          pc,      \* per goroutine: "idle" | "pend" (called, not yet taken effect) | "done" (taken effect)
          call,    \* per goroutine: the inv event of its current call
          cl       \* the Clean in progress: who, which namespace, objects still to remove, all its objects
tvars == <<vars, l, pc, call, cl>>
tview == <<l, tbl, nsLive, nsCnt, objs, tcgen, closed, pc, call, cl>>

NoClean == [p |-> "", ns |-> "", left |-> {}, all |-> {}]

NoCall == [a |-> "none"]
ToSet(q) == {q[i] : i \in 1..Len(q)}
IsEvent(e) == l <= Len(TLog) /\ TLog[l].ev = e /\ l' = l + 1

TReset ==
    /\ IsEvent("reset")
    /\ tbl' = Explicit([s \in Slots |-> 0]) /\ nsLive' = {} /\ nsCnt' = Explicit([n \in NS |-> 0])
    /\ objs' = <<>> /\ tcgen' = 1 /\ closed' = FALSE /\ ops' = 0 /\ last' = [a |-> "init", ok |-> TRUE]
    /\ pc' = [p \in Procs |-> "idle"] /\ call' = [p \in Procs |-> NoCall] /\ cl' = NoClean

TInv(p) ==
    /\ IsEvent("inv") /\ TLog[l].p = p /\ pc[p] = "idle"
    /\ pc' = [pc EXCEPT ![p] = "pend"] /\ call' = [call EXCEPT ![p] = TLog[l]]
    /\ UNCHANGED <<vars, cl>>

(* Silent steps are only tried when the next recorded event is a return: a linearisation point    *)
(* commutes with a later invocation of another goroutine.                                          *)
BeforeReturn == l <= Len(TLog) /\ TLog[l].ev = "ret"

CbSet(r) == {CB(x.cb, x.id, x.prev, x.inc) : x \in ToSet(r.cbs)}

(* the model's reply for the step just taken is the observed one *)
Match(c) ==
    LET r == c.r  m == last' IN
    /\ m.ok = r.ok
    /\ CASE c.a \in {"create", "update", "apply"} -> m.ret = r.ret /\ m.cbs = CbSet(r)
         [] c.a \in {"delete", "clean", "closeall", "regen"} -> m.cbs = CbSet(r)
         [] c.a \in {"get", "handler"} -> m.ret = r.ret
         [] c.a = "list" -> m.ids = ToSet(r.ids)
         [] c.a = "walk" -> ToSet(r.ids) \subseteq m.ids /\ Cardinality(ToSet(r.ids)) = m.n /\ Len(r.ids) = m.n
         [] c.a = "status" -> m.ids = ToSet(r.ids) /\ m.nss = ToSet(r.nss)

Do(c) ==
    CASE c.a = "create"   -> Create(c.ns, c.cat, c.name, c.ver, c.id)
      [] c.a = "update"   -> Update(c.ns, c.cat, c.name, c.ver, c.id)
      [] c.a = "apply"    -> Apply(c.ns, c.cat, c.name, c.ver, c.id)
      [] c.a = "delete"   -> Delete(c.ns, c.cat, c.name)
      [] c.a = "clean"    -> Clean(c.ns)
      [] c.a = "closeall" -> CloseAll
      [] c.a = "regen"    -> Regen
      [] c.a = "get"      -> Get(c.ns, c.cat, c.name)
      [] c.a = "list"     -> List(c.ns, c.cat)
      [] c.a = "walk"     -> Walk(c.ns, c.cat, c.lim)
      [] c.a = "handler"  -> Handler(c.o, c.name)
      [] c.a = "status"   -> Status

Lin(p) ==
    /\ BeforeReturn /\ pc[p] = "pend" /\ ~closed
    /\ cl.p = "" \/ call[p].a = "handler"                      \* the others wait for the mutex
    /\ ~(call[p].a = "clean" /\ call[p].ns \in nsLive)         \* that one takes effect in several steps
    /\ Do(call[p]) /\ Match(call[p])
    /\ pc' = [pc EXCEPT ![p] = "done"]
    /\ UNCHANGED <<l, call, cl>>

CleanBegin(p) ==
    /\ BeforeReturn /\ pc[p] = "pend" /\ ~closed /\ cl.p = ""
    /\ call[p].a = "clean" /\ call[p].ns \in nsLive
    /\ cl' = [p |-> p, ns |-> call[p].ns, left |-> IdsOf(call[p].ns), all |-> IdsOf(call[p].ns)]
    /\ UNCHANGED <<vars, l, pc, call>>

CleanOne(o) ==
    /\ BeforeReturn /\ o \in cl.left
    /\ tbl' = [tbl EXCEPT ![SlotOf(o)] = 0]
    /\ objs' = CloseIds(objs, {o})
    /\ cl' = [cl EXCEPT !.left = @ \ {o}]
    /\ UNCHANGED <<nsLive, nsCnt, tcgen, closed, ops, last, l, pc, call>>

CleanEnd ==
    /\ BeforeReturn /\ cl.p # "" /\ cl.left = {}
    /\ nsLive' = nsLive \ {cl.ns}
    /\ call[cl.p].r.ok /\ CloseCBs(cl.all) = CbSet(call[cl.p].r)
    /\ pc' = [pc EXCEPT ![cl.p] = "done"] /\ cl' = NoClean
    /\ ops' = ops /\ last' = [a |-> "clean", ns |-> cl.ns, ok |-> TRUE, cbs |-> CloseCBs(cl.all)]
    /\ UNCHANGED <<tbl, nsCnt, objs, tcgen, closed, l, call>>

TRet(p) ==
    /\ IsEvent("ret") /\ TLog[l].p = p
    /\ pc[p] = "done"
    /\ pc' = [pc EXCEPT ![p] = "idle"]
    /\ UNCHANGED <<vars, call, cl>>

TNext == \/ TReset \/ CleanEnd
         \/ \E p \in Procs : TInv(p) \/ Lin(p) \/ TRet(p) \/ CleanBegin(p)
         \/ \E o \in cl.left : CleanOne(o)

TInit == Init /\ l = 1 /\ pc = [p \in Procs |-> "idle"] /\ call = [p \in Procs |-> NoCall] /\ cl = NoClean

(* while a Clean is removing objects its namespace may be empty and still registered *)
TNsIffNonEmpty == cl.p = "" => NsIffNonEmpty
TSpec == TInit /\ [][TNext]_tvars

ASSUME TLCSet(1, 0)
HWM == TLCSet(1, IF l - 1 > TLCGet(1) THEN l - 1 ELSE TLCGet(1))
TraceAccepted == /\ PrintT(<<"VERIF_HWM", TLCGet(1), Len(TLog)>>)
                 /\ TLCGet(1) = Len(TLog)
=============================================================================

---------------------------- MODULE TrafficCtl_Gen ----------------------------
(* Generator wrapper of TrafficCtl: `out` is the JSON of the step just taken - the call with its   *)
(* predicted reply and callbacks - and of the state the harness must find afterwards: the table    *)
(* (which generation is stored where, its spec version, lineage depth and namespace incarnation),   *)
(* the live namespaces, and what GetHandler resolves through the mapper of every generation ever   *)
(* installed (also the disposed ones).                                                             *)
EXTENDS TrafficCtl, Json
VARIABLE out
Row(s) == LET o == tbl'[s] IN
          [ns |-> s.ns, cat |-> s.cat, name |-> s.name, id |-> o, ver |-> objs'[o].ver,
           depth |-> objs'[o].depth, inc |-> objs'[o].inc]
Rows == {Row(s) : s \in {x \in Slots : tbl'[x] # 0}}
Handlers == IF closed' THEN {} ELSE {[o |-> o, name |-> n, h |-> HandlerOf(o, n)'] : o \in DOMAIN objs', n \in Names}
GInit == Init /\ out = ToJson([a |-> "init"])
GNext == Next /\ out' = ToJson([step |-> last', tbl |-> Rows, nss |-> nsLive', handlers |-> Handlers, tcgen |-> tcgen'])
GSpec == GInit /\ [][GNext]_<<vars, out>>
=============================================================================

------------------------------ MODULE Validator ------------------------------
(* C06.  Contract of easegress' Validator filter (pkg/filters/validator, pkg/util/signer,       *)
(* httpheader.Validator).                                                                       *)
(*                                                                                              *)
(* A *configuration* enables a subset of the methods {headers, jwt, signature, basicAuth}.      *)
(* A *presented request* is an abstract record of HOW ITS CREDENTIALS WERE PRODUCED (which key  *)
(* signed, which algorithm, which claims, what was changed after signing, ...), not of bytes:   *)
(* MAC strength and the jwt/htpasswd libraries are trusted (DESIGN 7).                          *)
(*                                                                                              *)
(* The contract is   Accept(cfg, req) == \A enabled method m : Valid_m(cfg, req)                *)
(* in three-valued form ("ok" / "bad" / "free"): "free" marks the places where the text of the  *)
(* property leaves the outcome open (see the comments at each place); a request with at least   *)
(* one "bad" method MUST be rejected (result `invalid`, status 400 or 401), a request whose     *)
(* enabled methods are all "ok" MUST be accepted (result "", payload intact).                   *)
(*                                                                                              *)
(* The one-shot decision is embedded in a small state machine with an environment: a clock      *)
(* (`now`), the table of Basic-auth users (`users`) and the credential material of the current  *)
(* spec (`mat`: which JWT secret is configured, which access keys with which secret).  A request *)
(* can be presented, the clock can advance, the cluster store can deliver a new snapshot of the  *)
(* credentials (ETCD mode: etcdUserCache.WatchChanges <- Syncer.SyncPrefix), the user file can   *)
(* be EDITED (FILE mode: htpasswdUserCache.WatchChanges <- fsnotify; several edits may follow    *)
(* each other at any pace; once the file has been left alone for a bounded time - Settle - the   *)
(* table in effect is the one the file holds, whatever the history of edits), the filter can be  *)
(* RECONFIGURED (hot update: a new generation is created from a new spec and initialised with    *)
(* Inherit(previous generation), as the pipeline does; the new spec may rotate the JWT secret,   *)
(* change the algorithm, add / remove / re-key access keys, change the Basic users, switch       *)
(* methods on and off), the same request can be presented again.                                 *)
(* JWT time validity (exp / nbf) is a function of the clock, Basic validity a function of the    *)
(* table, everything else a function of the CURRENT spec, so "accepted now, rejected after exp,  *)
(* never before nbf", "accepted, then the credential is removed or changed, then rejected" and   *)
(* "accepted, then the secret is rotated by a hot update, then rejected" are temporal theorems.  *)
(* The handler itself (Validator.Handle) is one atomic step: it reads the request, consults     *)
(* the configuration of its generation and returns; by the contract nothing a generation (or a   *)
(* previous request) has seen influences the verdict.                                            *)
EXTENDS Integers, Sequences, FiniteSets

CONSTANTS Cfgs,          \* set of configuration records to explore
          Reqs(_),       \* Reqs(c): set of request records presented to configuration c
          Now0,          \* initial clock value
          MaxNow,        \* the clock advances up to MaxNow
          MaxPresent,    \* number of requests presented in one behaviour
          MaxSync,       \* number of credential snapshots delivered in one behaviour
          Recfgs(_, _),  \* Recfgs(c, e): the hot updates explored from configuration c in environment e:
                         \* records [cfg, mat, users] (new spec; the users its Basic source then holds)
          MaxReconf,     \* number of hot updates in one behaviour
          MaxEdit        \* number of edits of the user file in one behaviour

----------------------------------------------------------------------------------------------
(* Shapes.                                                                                      *)
(*   cfg  == [hdr   : {"off","values","regexp","both"},     header rule on one header           *)
(*            jwt   : [on, alg \in HS, cookie : BOOLEAN],    cookie = cookieName configured      *)
(*            sig   : [on, ttl : BOOLEAN, excl : BOOLEAN],   ttl configured / excludeBody        *)
(*            basic : {"off","file","etcd","nomode"}]        nomode = basicAuth: {} (no mode)    *)
(*   req  == [hv   : Seq(HClass)          values of the ruled header, in order                   *)
(*            auth : AuthKinds            what the Authorization header holds                    *)
(*            tok  : Tok                  the bearer token        (p = TRUE iff auth = "bearer") *)
(*            ck   : Tok                  the token in the cookie (p = FALSE: no such cookie)    *)
(*            sg   : Sg                   the API signature (carrier header <=> auth = "sig")    *)
(*            bs   : Bs]                  the Basic credentials   (p = TRUE iff auth = "basic")  *)

HS        == {"HS256", "HS384", "HS512"}
HClass    == {"inValues", "matchRe", "neither"}
AuthKinds == {"none", "bearer", "basic", "sig", "other"}
Parts     == {"method", "path", "pathenc", "query", "sheader", "iheader", "body", "sig"}
   \* what was changed AFTER signing: request method; path (segments added / dropped / altered);
   \* pathenc: a reserved character of the path replaced by its percent-encoded form or vice
   \* versa ("/a%2Fb" <-> "/a/b": different resources, RFC 3986 2.2); query; a signed header
   \* (incl. host and date); an ignored header; the body; the signature/credential text itself

(* a JWT: MACed with `key` using `alg` ("none": no signature at all), its header claiming       *)
(* `halg`; nbf/exp claims (-1: absent); iat claim absent / in the past / in the future; `mut`:  *)
(* what was altered after issuing                                                               *)
NoTok == [p |-> FALSE, key |-> "-", alg |-> "-", halg |-> "-", nbf |-> -1, exp |-> -1, iat |-> "absent", mut |-> "none"]
Tok(key, alg, halg, nbf, exp, iat, mut) ==
    [p |-> TRUE, key |-> key, alg |-> alg, halg |-> halg, nbf |-> nbf, exp |-> exp, iat |-> iat, mut |-> mut]
Iats == {"absent", "past", "future"}

NoMut == [x \in Parts |-> FALSE]
Mut1(p) == [x \in Parts |-> x = p]
(* an API signature: carried in the Authorization header or in the query (presigned URL);      *)
(* key: access key id class; age of the signing time; pexp: the presigned URL's own expiry;     *)
(* cexcl: the client signed with UNSIGNED-PAYLOAD; body: the signed request had a body          *)
NoSg == [p |-> FALSE, carrier |-> "-", key |-> "-", age |-> "-", pexp |-> "-", cexcl |-> FALSE,
         body |-> FALSE, mut |-> NoMut]
Sg(carrier, key, age, pexp, cexcl, body, mut) ==
    [p |-> TRUE, carrier |-> carrier, key |-> key, age |-> age, pexp |-> pexp, cexcl |-> cexcl,
     body |-> body, mut |-> mut]
(* key classes: id0 / id1: a configured access key id with its FIRST secret ("v1", configured   *)
(* initially); id0v2 / id1v2: the id with its second secret (configured only after a hot update  *)
(* re-keyed it); id0wrongsecret: id0 with a secret that is never configured; unknown: an id that *)
(* is never configured (with the secret of a configured one); noid: the EMPTY access key id      *)
(* signed with the empty secret; noidsecret: the empty id with a configured secret; id0nosecret: *)
(* id0 signed with the empty secret                                                              *)
SgKeys == {"id0", "id1", "id0v2", "id1v2", "id0wrongsecret", "unknown", "noid", "noidsecret", "id0nosecret"}
SgAges == {"fresh", "tooOld", "future"}
(* the access keys of the current spec: which secret version of each id is configured, or "gone" *)
AkIds    == {"id0", "id1"}
AkTables == [AkIds -> {"v1", "v2", "gone"}]
Aks0     == [i \in AkIds |-> "v1"]
SgCred(k) == CASE k = "id0" -> <<"id0", "v1">> [] k = "id1" -> <<"id1", "v1">>
               [] k = "id0v2" -> <<"id0", "v2">> [] k = "id1v2" -> <<"id1", "v2">>
               [] OTHER -> <<"-", "-">>
(* the credential material of a spec: the configured JWT secret, the access keys *)
Mats == [jsec : {"k0", "k1"}, aks : AkTables]
Mat0 == [jsec |-> "k0", aks |-> Aks0]

(* Basic credentials: user uPlain has a password without ':', uColon's password contains ':',   *)
(* uBlank's password begins and/or ends with WHITE SPACE (blank, tab, CR, LF, U+00A0, U+0085,    *)
(* U+3000 ...) and its name may end with white space: white space is part of a credential like   *)
(* any other character ("equal to a configured user's").                                         *)
(* Each user has two passwords, version "v1" (initially configured) and "v2" (after a password  *)
(* change); `ver` says from which one the presented password was derived.                       *)
NoBs == [p |-> FALSE, user |-> "-", ver |-> "v1", pw |-> "-", b64 |-> TRUE]
Bs(user, ver, pw, b64) == [p |-> TRUE, user |-> user, ver |-> ver, pw |-> pw, b64 |-> b64]
BsUsers == {"uPlain", "uColon", "uBlank", "unknown"}
(* the table of configured users: which password version is current, or "gone" (removed)       *)
KnownUsers == {"uPlain", "uColon", "uBlank"}
UserTables == [KnownUsers -> {"v1", "v2", "gone"}]
Users0     == [u \in KnownUsers |-> "v1"]
(* what a request meets: the configuration and material of the running generation, the clock,  *)
(* the user table                                                                               *)
(* stale: FILE mode - the tables the user file held since it was last known to be in effect (it  *)
(* has been edited and the bounded time has not passed yet); {} when the source is settled      *)
Env(c, t, us, m) == [cfg |-> c, now |-> t, users |-> us, jsec |-> m.jsec, aks |-> m.aks, stale |-> {}]
BsPws   == {"right", "wrong", "rightColonX", "prefix", "empty", "nocolon", "padded", "userPadded", "trimmed"}
   \* rightColonX: the right password followed by ":" and more; prefix: the part of uColon's
   \* password before its first ':'; nocolon: credentials without any ':' at all;
   \* credentials that differ from the configured ones by white space at the ends only -
   \* padded: white space added before and/or after the right password; userPadded: the right
   \* password, white space added before and/or after the user name; trimmed (uBlank): the right
   \* credentials without (some of) the white space at the ends of the password / the name

----------------------------------------------------------------------------------------------
(* The contract, method by method.                                                              *)

And3(a, b) == IF a = "bad" \/ b = "bad" THEN "bad" ELSE IF a = "ok" /\ b = "ok" THEN "ok" ELSE "free"

(* headers: "the configured header rules".  A value passes if it is one of `values` or matches  *)
(* `regexp`.  Absent header: bad.  Several values of which only some pass: the text does not    *)
(* say (the code looks at the first one only) -> free.                                          *)
HOk(c, cl) == \/ cl = "inValues" /\ c.hdr \in {"values", "both"}
              \/ cl = "matchRe"  /\ c.hdr \in {"regexp", "both"}
VHdr(c, r) ==
    IF r.hv = <<>> THEN "bad"
    ELSE IF \A i \in DOMAIN r.hv : HOk(c, r.hv[i]) THEN "ok"
    ELSE IF \A i \in DOMAIN r.hv : ~HOk(c, r.hv[i]) THEN "bad"
    ELSE "free"

(* jwt: "signed with the configured secret and algorithm and currently valid".                  *)
(* exp: valid strictly before exp, invalid strictly after; AT exp is free (RFC 7519 says        *)
(* "before", the library accepts equality).  nbf: valid from nbf on.                            *)
(* iat: the property does not mention it.  It never rescues a token that is invalid otherwise; *)
(* an otherwise valid token "issued in the future" is free (the library rejects it).            *)
VTok(c, t, e) ==
    IF ~(t.key = e.jsec /\ t.alg = c.jwt.alg /\ t.halg = c.jwt.alg /\ t.mut = "none") THEN "bad"
    ELSE IF t.nbf # -1 /\ e.now < t.nbf THEN "bad"
    ELSE IF t.exp # -1 /\ e.now > t.exp THEN "bad"
    ELSE IF t.exp # -1 /\ e.now = t.exp THEN "free"
    ELSE IF t.iat = "future" THEN "free"
    ELSE "ok"
(* Token source: the configured cookie if present, else `Authorization: Bearer`.  When both are *)
(* presented and disagree, which one counts is documented but not part of the property -> free. *)
(* A cookie is only a carrier when cookieName is configured.                                    *)
VJwt(c, r, e) ==
    LET useck == c.jwt.cookie /\ r.ck.p
        b     == r.auth = "bearer" IN
    IF useck /\ b THEN (IF VTok(c, r.ck, e) = VTok(c, r.tok, e) THEN VTok(c, r.ck, e) ELSE "free")
    ELSE IF useck THEN VTok(c, r.ck, e)
    ELSE IF b THEN VTok(c, r.tok, e)
    ELSE "bad"

(* signature: "from a known access key, within its TTL, that matches the method, path, query,   *)
(* signed headers and the body that will actually be forwarded".                                *)
Covered(c) == {"method", "path", "pathenc", "query", "sheader", "sig"} \cup (IF c.sig.excl THEN {} ELSE {"body"})
SgKnown(k, e) == SgCred(k)[1] \in AkIds /\ e.aks[SgCred(k)[1]] = SgCred(k)[2]
VSg(c, s, e) ==
    IF /\ SgKnown(s.key, e)                                   \* a key of the CURRENT spec, its current secret
       /\ (c.sig.ttl => s.age = "fresh")                      \* no ttl configured: no age limit
       /\ (s.carrier = "query" => s.pexp = "live")            \* a presigned URL has its own expiry
       /\ (\A p \in Covered(c) : ~s.mut[p])
       /\ (~c.sig.excl => ~s.cexcl)                           \* body must be covered unless excluded
    THEN (IF c.sig.excl /\ ~s.cexcl THEN "free" ELSE "ok")   \* client hashed a body the server
    ELSE "bad"                                                \* does not look at: not constrained
(* carriers: Authorization header, else the query.  A presigned query next to an Authorization  *)
(* header that holds some other credential: the property does not say which one is "the"        *)
(* signature of the request (the code, like AWS, only looks at the header) -> free.             *)
VSig(c, r, e) ==
    IF ~r.sg.p THEN "bad"
    ELSE IF r.sg.carrier = "header" THEN VSg(c, r.sg, e)
    ELSE IF r.auth = "none" THEN VSg(c, r.sg, e)
    ELSE IF VSg(c, r.sg, e) = "bad" THEN "bad" ELSE "free"

(* basic: "Basic credentials equal to a configured user's": the user is in the table NOW and the *)
(* presented password is exactly its current one - every other class of BsPws, including the    *)
(* ones that differ by leading / trailing white space only, is another user or another password.*)
(* Without a mode there is no user source, hence no configured user: nothing can be valid.      *)
(* FILE mode, the user file edited less than the bounded time ago (e.stale # {}): the table in   *)
(* effect is the current one, one of the earlier ones or something in between (the file is read  *)
(* while it is written): credentials that are in none of these tables are invalid, everything    *)
(* else is open until the source has settled.                                                    *)
BsIn(r, us) == r.bs.user \in KnownUsers /\ us[r.bs.user] = r.bs.ver
VBasic(c, r, e) ==
    IF c.basic = "nomode" THEN "bad"
    ELSE IF ~(r.auth = "basic" /\ r.bs.pw = "right" /\ r.bs.b64) THEN "bad"
    ELSE IF e.stale = {} THEN (IF BsIn(r, e.users) THEN "ok" ELSE "bad")
    ELSE IF \E us \in {e.users} \cup e.stale : BsIn(r, us) THEN "free" ELSE "bad"

Methods == {"hdr", "jwt", "sig", "basic"}
Enabled(c, m) == CASE m = "hdr" -> c.hdr # "off" [] m = "jwt" -> c.jwt.on [] m = "sig" -> c.sig.on
                   [] m = "basic" -> c.basic # "off"
V(c, r, e, m) == IF ~Enabled(c, m) THEN "off"
                 ELSE CASE m = "hdr" -> VHdr(c, r) [] m = "jwt" -> VJwt(c, r, e)
                        [] m = "sig" -> VSig(c, r, e) [] m = "basic" -> VBasic(c, r, e)

(* the verdict: "accept" / "reject" / "free" *)
Verdict(c, r, e) ==
    LET vs == {V(c, r, e, m) : m \in Methods} IN
    IF "bad" \in vs THEN "reject" ELSE IF "free" \in vs THEN "free" ELSE "accept"

(* observations: acc <=> Handle returned "" ; status of the response it prepared (0: none);     *)
(* intact <=> the payload that will be forwarded is the payload that arrived                    *)
AcceptRes == [acc |-> TRUE, status |-> 0, intact |-> TRUE]
RejectRes == {[acc |-> FALSE, status |-> s, intact |-> i] : s \in {400, 401}, i \in BOOLEAN}
Outcomes(c, r, e) ==
    CASE Verdict(c, r, e) = "accept" -> {AcceptRes}
      [] Verdict(c, r, e) = "reject" -> RejectRes
      [] OTHER -> {AcceptRes} \cup RejectRes

----------------------------------------------------------------------------------------------
(* Single mutations of the covered parts named by the property: token bytes, algorithm, method, *)
(* path, query, a signed header, the body, the password (and the value of a ruled header).      *)
TokMutants(c, t) ==
    IF ~t.p \/ t.mut # "none" THEN {}
    ELSE {[t EXCEPT !.mut = "payload"], [t EXCEPT !.mut = "sig"]}                      \* token bytes
         \cup {[t EXCEPT !.halg = h] : h \in (HS \cup {"none"}) \ {t.halg}}             \* header alg rewritten
         \cup {[t EXCEPT !.alg = a, !.halg = a] : a \in (HS \cup {"none"}) \ {t.alg}}   \* issued with another alg
Mutants(c, r) ==
    (IF c.jwt.on /\ c.jwt.cookie /\ r.ck.p /\ r.auth # "bearer"
       THEN {[r EXCEPT !.ck = t] : t \in TokMutants(c, r.ck)} ELSE {})
    \cup (IF c.jwt.on /\ r.auth = "bearer" /\ ~(c.jwt.cookie /\ r.ck.p)
       THEN {[r EXCEPT !.tok = t] : t \in TokMutants(c, r.tok)} ELSE {})
    \cup (IF c.sig.on /\ r.sg.p
       THEN {[r EXCEPT !.sg.mut[p] = TRUE] : p \in {q \in Covered(c) : ~r.sg.mut[q]}} ELSE {})
    \cup (IF c.basic # "off" /\ r.auth = "basic" /\ r.bs.pw = "right"
       THEN {[r EXCEPT !.bs.pw = w] : w \in {"wrong", "rightColonX", "empty", "padded"} \cup
                                            (IF r.bs.user = "uColon" THEN {"prefix"} ELSE {}) \cup
                                            (IF r.bs.user = "uBlank" THEN {"trimmed"} ELSE {})} ELSE {})
    \cup (IF c.hdr # "off" /\ Len(r.hv) = 1 THEN {[r EXCEPT !.hv = <<"neither">>]} ELSE {})

----------------------------------------------------------------------------------------------
VARIABLES cfg,     \* the configuration of the running generation (changes only by Reconfigure)
          mat,     \* the credential material of its spec (changes only by Reconfigure)
          now,     \* the clock (ticks)
          users,   \* the table of Basic-auth users (changes by Sync in ETCD mode, by Edit in FILE mode, and by Reconfigure)
          stale,   \* FILE mode: the tables the user file held before, since the source was last settled
          req,     \* the request presented last
          res,     \* the observation for it
          at,      \* the configuration and environment in which it was presented
          n,       \* number of requests presented so far
          ns,      \* number of snapshots delivered so far
          nr,      \* number of hot updates so far
          ne       \* number of edits of the user file so far

vars == <<cfg, mat, now, users, stale, req, res, at, n, ns, nr, ne>>
Cur  == [Env(cfg, now, users, mat) EXCEPT !.stale = stale]        \* what a request presented now meets

NoReq == [hv |-> <<>>, auth |-> "none", tok |-> NoTok, ck |-> NoTok, sg |-> NoSg, bs |-> NoBs]
NoRes == [acc |-> FALSE, status |-> -1, intact |-> TRUE]

Init == /\ cfg \in Cfgs /\ mat = Mat0 /\ now = Now0 /\ users = Users0 /\ req = NoReq /\ res = NoRes
        /\ stale = {} /\ at = Env(cfg, Now0, Users0, Mat0) /\ n = 0 /\ ns = 0 /\ nr = 0 /\ ne = 0

(* Validator.Handle on request r in the current environment, observed as o *)
PresentAny(r, o) == /\ req' = r /\ res' = o /\ at' = Cur /\ n' = n + 1
                    /\ UNCHANGED <<cfg, mat, now, users, stale, ns, nr, ne>>
Present(r) == n < MaxPresent /\ \E o \in Outcomes(cfg, r, Cur) : PresentAny(r, o)
Advance(d) == now + d <= MaxNow /\ now' = now + d /\ UNCHANGED <<cfg, mat, users, stale, req, res, at, n, ns, nr, ne>>
(* etcdUserCache's watcher goroutine receives a snapshot of the credentials and swaps the table *)
(* (one atomic step: htpasswd.File.ReloadFromReader replaces the map under its mutex)           *)
Sync(t) == /\ cfg.basic = "etcd" /\ ns < MaxSync /\ t # users
           /\ users' = t /\ ns' = ns + 1 /\ UNCHANGED <<cfg, mat, now, stale, req, res, at, n, nr, ne>>
(* FILE mode: the user file is edited (htpasswd(1), an editor, a deployment tool): from now on it *)
(* holds table t.  The validator's watcher goroutine is told by fsnotify and reloads the file    *)
(* (htpasswdUserCache.WatchChanges -> htpasswd.File.Reload) some time later; nothing bounds the   *)
(* number of edits before it has done so, nor the time between them.                              *)
Edit(t) == /\ cfg.basic = "file" /\ ne < MaxEdit /\ t # users
           /\ users' = t /\ stale' = stale \cup {users} /\ ne' = ne + 1
           /\ UNCHANGED <<cfg, mat, now, req, res, at, n, ns, nr>>
(* the file has been left alone for the bounded time: whatever the history of edits (one, several *)
(* in quick succession), the table in effect is the one the file holds now                        *)
Settle == /\ stale # {} /\ stale' = {}
          /\ UNCHANGED <<cfg, mat, now, users, req, res, at, n, ns, nr, ne>>
(* hot update (pipeline.reload): a new Validator is created from the new spec x.cfg / x.mat and   *)
(* initialised with Inherit(running generation), the running generation is closed; from then on  *)
(* requests meet the new generation.  x.users: what the Basic source of the new spec holds (a new *)
(* user file, the store under the new prefix).  One atomic step as far as requests are concerned *)
(* (the pipeline swaps the generation pointer).  The new spec is arbitrary - also the same.      *)
(* (FILE mode: the new generation reads its user file when it is created - newHtpasswdUserCache - *)
(* so it starts settled, whatever was pending for the previous one.)                              *)
Reconfigure(x) == /\ nr < MaxReconf
                  /\ cfg' = x.cfg /\ mat' = x.mat /\ users' = x.users /\ stale' = {} /\ nr' = nr + 1
                  /\ UNCHANGED <<now, req, res, at, n, ns, ne>>

Next == \/ (n < MaxPresent /\ \E r \in Reqs(cfg) : Present(r))
        \/ Advance(1)
        \/ \E t \in UserTables : Sync(t)
        \/ \E t \in UserTables : Edit(t)
        \/ Settle
        \/ \E x \in Recfgs(cfg, Cur) : Reconfigure(x)
Spec == Init /\ [][Next]_vars

----------------------------------------------------------------------------------------------
(* Theorems of the contract (checked by TLC).                                                   *)

Presented == n > 0 /\ res.status # -1
pcfg == at.cfg       \* the configuration the last request met (cfg may have been updated since)

(* soundness/completeness restated on the observation *)
OnlyIfAllAccept == Presented /\ res.acc => \A m \in Methods : V(pcfg, req, at, m) # "bad"
Complete == Presented /\ (\A m \in Methods : V(pcfg, req, at, m) \in {"ok", "off"}) /\ ~res.acc => FALSE
RejectShape == Presented /\ ~res.acc => res.status \in {400, 401}
AcceptShape == Presented /\ res.acc => res.status = 0 /\ res.intact

(* the single-mutation theorem: every single mutation of a covered part of a request that MUST  *)
(* be accepted yields a request that MUST be rejected                                           *)
SingleMutationRejected ==
    Presented /\ Verdict(pcfg, req, at) = "accept" =>
        \A m \in Mutants(pcfg, req) : Verdict(pcfg, m, at) = "reject"

(* iat never rescues: whatever the iat claim, a token that is invalid with iat absent is invalid *)
IatNeverRescues ==
    Presented /\ pcfg.jwt.on =>
        \A i \in Iats : LET r2 == [req EXCEPT !.tok.iat = i, !.ck.iat = i] IN
            V(pcfg, [req EXCEPT !.tok.iat = "absent", !.ck.iat = "absent"], at, "jwt") = "bad"
                => V(pcfg, r2, at, "jwt") = "bad"

(* temporal part, clock: once the clock has passed exp, a token that was accepted is rejected;  *)
(* a token is never accepted before its nbf                                                     *)
PresentedTok(c, r) == IF c.jwt.cookie /\ r.ck.p THEN r.ck ELSE r.tok
SingleTok(c, r)    == ~(c.jwt.cookie /\ r.ck.p /\ r.auth = "bearer")
AcceptedThenExpired ==
    [][ (Presented /\ res.acc /\ cfg.jwt.on /\ n' = n + 1 /\ req' = req /\ SingleTok(cfg, req)
           /\ PresentedTok(cfg, req).exp # -1 /\ now' > PresentedTok(cfg, req).exp) => ~res'.acc ]_vars
NotBeforeNbf ==
    Presented /\ res.acc /\ pcfg.jwt.on /\ SingleTok(pcfg, req) /\ PresentedTok(pcfg, req).p
        /\ PresentedTok(pcfg, req).nbf # -1 => at.now >= PresentedTok(pcfg, req).nbf
NeverAfterExp ==
    Presented /\ res.acc /\ pcfg.jwt.on /\ SingleTok(pcfg, req) /\ PresentedTok(pcfg, req).p
        /\ PresentedTok(pcfg, req).exp # -1 => at.now <= PresentedTok(pcfg, req).exp

(* temporal part, credentials: a request that was accepted is rejected when presented again     *)
(* after its user was removed or its password changed; nobody gets in when the table is empty;  *)
(* conversely the new password of a user works as soon as the snapshot is applied               *)
BasicOn     == cfg.basic \in {"file", "etcd"}
BasicWasOn  == pcfg.basic \in {"file", "etcd"}
(* (FILE mode: once the source has settled - whatever the number and pace of the edits before;   *)
(* until then the credentials must at least be in one of the tables the file held since)          *)
AcceptedThenRevoked ==
    [][ (Presented /\ res.acc /\ BasicOn /\ n' = n + 1 /\ req' = req /\ req.bs.user \in KnownUsers
           /\ \A us \in {users} \cup stale : us[req.bs.user] # req.bs.ver) => ~res'.acc ]_vars
OnlyCurrentCredentials ==
    Presented /\ res.acc /\ BasicWasOn =>
        /\ req.auth = "basic" /\ req.bs.user \in KnownUsers
        /\ \E us \in {at.users} \cup at.stale : us[req.bs.user] = req.bs.ver
        /\ (at.stale = {} => at.users[req.bs.user] = req.bs.ver)
EmptyTableRejectsAll ==
    Presented /\ BasicWasOn /\ at.stale = {} /\ (\A u \in KnownUsers : at.users[u] = "gone") => ~res.acc

(* temporal part, hot updates: what a generation admits depends on ITS spec only.  A request that *)
(* was accepted and is presented again after a hot update is rejected when its token was not     *)
(* made with the now configured secret and algorithm / its access key is not configured any more *)
(* or has another secret now; and whatever a previous generation accepted, an accepted token is  *)
(* one of the current secret and algorithm, an accepted signature one of a current access key    *)
AcceptedThenRotated ==
    [][ (Presented /\ res.acc /\ n' = n + 1 /\ req' = req /\ nr > 0
           /\ \/ cfg.jwt.on /\ SingleTok(cfg, req)
                 /\ (PresentedTok(cfg, req).key # mat.jsec \/ PresentedTok(cfg, req).alg # cfg.jwt.alg)
              \/ cfg.sig.on /\ ~SgKnown(req.sg.key, Cur)) => ~res'.acc ]_vars
OnlyCurrentSecret ==
    Presented /\ res.acc /\ pcfg.jwt.on /\ SingleTok(pcfg, req) =>
        LET t == PresentedTok(pcfg, req) IN t.p /\ t.key = at.jsec /\ t.alg = pcfg.jwt.alg /\ t.halg = pcfg.jwt.alg
OnlyCurrentAccessKeys ==
    Presented /\ res.acc /\ pcfg.sig.on => req.sg.p /\ SgKnown(req.sg.key, at)
(* the empty access key id is never a configured one *)
NoAnonymousSigner ==
    Presented /\ res.acc /\ pcfg.sig.on => req.sg.key \notin {"noid", "noidsecret", "id0nosecret"}

----------------------------------------------------------------------------------------------
(* Implementation-shaped layer: Validator.Handle as the code computes it, on the same abstract  *)
(* records.  Handle is one atomic step (no state shared between requests) and Inherit is        *)
(* reload(): every sub-validator is rebuilt from the new spec, nothing is taken over from the   *)
(* previous generation - so this layer is a function of the running generation's spec and the   *)
(* environment.  `repaired` selects the code after fixes/validator-*.diff (TRUE) or the pinned  *)
(* tree (FALSE).  TLC checks that it refines the contract (ImplRes \in Outcomes): for the repaired    *)
(* code as an invariant; for the pinned code the vectors where it does not are design-level     *)
(* LEADS (F9, F10 of DESIGN 6) which become findings only when the real code reproduces them.   *)
(* This layer never produces a verdict.                                                         *)

(* httpheader.Validator.Validate: only the first value of the header is looked at *)
IHdr(c, r) == r.hv # <<>> /\ HOk(c, r.hv[1])

(* JWTValidator.Validate: cookie (if configured, present) else "Authorization: Bearer"; jwt.Parse *)
(* selects the method from the token header, the key function pins it to the configured one, the *)
(* MAC is verified with that method, then MapClaims.Valid: now <= exp, now >= iat, now >= nbf    *)
IJwt(c, r, e) ==
    LET t == IF c.jwt.cookie /\ r.ck.p THEN r.ck ELSE IF r.auth = "bearer" THEN r.tok ELSE NoTok IN
    /\ t.p
    /\ t.halg = c.jwt.alg                                   \* key function
    /\ t.alg = t.halg /\ t.key = e.jsec /\ t.mut = "none"   \* MAC under the header's method, configured secret
    /\ (t.exp = -1 \/ e.now <= t.exp) /\ (t.nbf = -1 \/ e.now >= t.nbf)
    /\ t.iat # "future"                                     \* "Token used before issued"

(* Signer.Verify on req.Std(): initFromHeader if Authorization is non-empty, else initFromQuery;  *)
(* ttl, presign expiry, key lookup; then the signature is recomputed over method, canonical URI,  *)
(* canonical query, the signed headers and the body hash.  Pinned tree: the body hash is taken    *)
(* from http.Request.Body, which FetchPayload has drained: always the hash of the empty string.   *)
ISig(c, r, e, repaired) ==
    LET s == r.sg IN
    /\ s.p
    /\ IF r.auth # "none" THEN r.auth = "sig" ELSE s.carrier = "query"
    /\ (c.sig.ttl => s.age = "fresh")
    /\ (s.carrier = "query" => s.pexp = "live")
    /\ SgKnown(s.key, e)                                     \* known id (GetSecret) and MAC key right
    /\ ~s.mut["method"] /\ ~s.mut["path"] /\ ~s.mut["pathenc"] /\ ~s.mut["query"]   \* EscapedPath, escaped again
    /\ ~s.mut["sheader"] /\ ~s.mut["sig"]
    /\ IF c.sig.excl THEN s.cexcl                            \* both sides UNSIGNED-PAYLOAD
       ELSE /\ ~s.cexcl
            /\ IF repaired THEN ~s.mut["body"]               \* hash of the buffered payload
               ELSE ~s.body                                  \* hash of "" = hash of what was signed?

(* BasicAuthValidator.Validate: base64, parseCredentials, htpasswd Match.  Pinned tree: Split at  *)
(* every ':' and parts[1] is the password.  A validator without mode is nil: the check is skipped *)
(* (unreachable: the spec validation refuses such a configuration).                              *)
IBasic(c, r, e, repaired) ==
    \/ c.basic = "nomode"
    \/ /\ r.auth = "basic" /\ r.bs.b64 /\ r.bs.user \in KnownUsers
       /\ e.users[r.bs.user] = r.bs.ver                      \* htpasswd table as last (re)loaded (settled source)
       /\ IF repaired THEN r.bs.pw = "right"
          ELSE \/ r.bs.user \in {"uPlain", "uBlank"} /\ r.bs.pw \in {"right", "rightColonX"}
               \/ FALSE                                      \* uColon: parts[1] is never its password

(* Handle: the methods in this order, the first failure returns *)
ImplRes(c, r, e, repaired) ==
    IF c.hdr # "off" /\ ~IHdr(c, r) THEN [acc |-> FALSE, status |-> 400, intact |-> TRUE]
    ELSE IF c.jwt.on /\ ~IJwt(c, r, e) THEN [acc |-> FALSE, status |-> 401, intact |-> TRUE]
    ELSE IF c.sig.on /\ ~ISig(c, r, e, repaired) THEN [acc |-> FALSE, status |-> 401, intact |-> TRUE]
    ELSE IF c.basic # "off" /\ ~IBasic(c, r, e, repaired) THEN [acc |-> FALSE, status |-> 401, intact |-> TRUE]
    ELSE AcceptRes

(* (a mode-less basicAuth cannot be instantiated - refused by the spec validation -, so the skipped *)
(* check of IBasic is not reachable: lead F11 of DESIGN 6 does not reproduce)                    *)
(* (between an edit of the user file and Settle the table the code has loaded is not determined: *)
(* this layer describes the settled source only)                                                 *)
ImplRefines(repaired) ==
    Presented /\ pcfg.basic # "nomode" /\ at.stale = {} => ImplRes(pcfg, req, at, repaired) \in Outcomes(pcfg, req, at)
RepairedImplRefines == ImplRefines(TRUE)
PinnedImplRefines   == ImplRefines(FALSE)      \* expected to FAIL on the pinned tree: the leads
=============================================================================

---------------------------- MODULE Validator_Gen ----------------------------
(* Vector enumeration / behaviour generation / model-checking wrapper for Validator.            *)
(*  - defines the configuration and request sets that are explored (constant Full widens them), *)
(*  - adds `out`: the JSON description of the step just taken with the contract's prediction.   *)
(* Four uses: (1) enumeration: Now0 = MaxNow = 4, MaxPresent = 1: every state after one        *)
(* Present is one vector (cfg, req, predicted verdict), exported with -dump; the single-mutation *)
(* theorem and the closure of the vector set under mutation are invariants of that run;         *)
(* (2) clock: jwt-only configurations, tokens with every (nbf, exp) in a small range, the clock *)
(* advancing between presentations: temporal theorems + behaviours for replay;                  *)
(* (3) etcd: basicAuth in ETCD mode, snapshots of the credential table delivered between        *)
(* presentations (removal, password change, empty table): temporal theorems + behaviours;       *)
(* (the snapshots explored are GenTables; the Basic users are uPlain, uColon and uBlank - the    *)
(* user whose credentials have white space at their ends -, the presented classes include the   *)
(* ones that differ from configured credentials by leading / trailing white space only)         *)
(* (3b) file: basicAuth in FILE mode, the user file EDITED between presentations, one to three   *)
(* edits in a row before the source settles (or before the request is presented to the not yet   *)
(* settled source): same tables and requests as (3); temporal theorems + behaviours;             *)
(* (4) reconf: hot updates (Reconfigure: new spec, new generation built with Inherit) between    *)
(* presentations: JWT secret rotated / algorithm changed / cookie carrier switched, access keys *)
(* removed / re-keyed / added, Basic users changed (FILE and ETCD), methods switched on and off, *)
(* also the unchanged spec: temporal theorems + behaviours.                                      *)
EXTENDS Validator, Json

CONSTANTS Full,      \* BOOLEAN: the wide sets (thorough tier)
          Mode       \* "enum" | "clock" | "etcd" | "file" | "reconf"

VARIABLES out,       \* JSON description of the step just taken
          lastA      \* the kind of that step (shapes the generated behaviours; not part of the view)

JOff == [on |-> FALSE, alg |-> "HS256", cookie |-> FALSE]
SOff == [on |-> FALSE, ttl |-> FALSE, excl |-> FALSE]
J(a, k) == [on |-> TRUE, alg |-> a, cookie |-> k]
S(t, e) == [on |-> TRUE, ttl |-> t, excl |-> e]
C(h, j, s, b) == [hdr |-> h, jwt |-> j, sig |-> s, basic |-> b]
R(hv, auth, tok, ck, sg, bs) == [hv |-> hv, auth |-> auth, tok |-> tok, ck |-> ck, sg |-> sg, bs |-> bs]

----------------------------------------------------------------------------------------------
(* configurations *)
HdrCfgs   == {C(h, JOff, SOff, "off") : h \in {"values", "regexp", "both"}}
JwtCfgs   == {C("off", J(a, k), SOff, "off") : a \in HS, k \in BOOLEAN}
SigCfgs   == {C("off", JOff, S(t, e), "off") : t \in BOOLEAN, e \in BOOLEAN}
BasicCfgs == {C("off", JOff, SOff, b) : b \in {"file", "etcd", "nomode"}}

NOn(c) == Cardinality({m \in Methods : Enabled(c, m)})
ComboCfgs ==
    {c \in {C(h, j, s, b) : h \in {"off", "both"}, j \in {JOff, J("HS256", TRUE)},
                            s \in {SOff, S(TRUE, FALSE)}, b \in {"off", "file"}} : NOn(c) >= 2}
    \cup (IF Full THEN
           {c \in {C(h, j, s, b) : h \in {"off", "values"}, j \in {JOff, J("HS512", FALSE), J("HS384", TRUE)},
                                   s \in {SOff, S(FALSE, TRUE), S(TRUE, TRUE)},
                                   b \in {"off", "etcd", "nomode"}} : NOn(c) >= 2}
          ELSE {C("off", JOff, S(FALSE, TRUE), "etcd"), C("regexp", J("HS384", FALSE), SOff, "nomode")})

EnumCfgs  == HdrCfgs \cup JwtCfgs \cup SigCfgs \cup BasicCfgs \cup ComboCfgs
ClockCfgs == {C("off", J("HS256", k), SOff, "off") : k \in BOOLEAN}
EtcdCfgs  == {C("off", JOff, SOff, "etcd"), C("both", JOff, SOff, "etcd")}
FileCfgs  == {C("off", JOff, SOff, "file"), C("both", JOff, SOff, "file")}
ReconfCfgs == {C("off", J("HS256", FALSE), SOff, "off"), C("off", J("HS256", TRUE), SOff, "off"),
               C("off", JOff, S(FALSE, FALSE), "off"), C("off", JOff, S(TRUE, TRUE), "off"),
               C("off", JOff, SOff, "file"), C("off", JOff, SOff, "etcd"),
               C("off", J("HS384", TRUE), SOff, "file")}

----------------------------------------------------------------------------------------------
(* requests *)
Hv1 == {<<a>> : a \in HClass}
Hv2 == {<<a, b>> : a \in HClass, b \in HClass}
HvAll == {<<>>} \cup Hv1 \cup Hv2

(* token times around Now0 = 4: none / valid / expired / not yet (+ boundaries when Full) *)
TT == {<<-1, -1>>, <<2, 6>>, <<1, 3>>, <<5, 7>>}
      \cup (IF Full THEN {<<-1, 3>>, <<5, -1>>, <<-1, 4>>, <<4, 6>>} ELSE {})
AlgPairs == {<<a, h>> : a \in HS, h \in HS \cup {"none"}} \cup {<<"none", "none">>}
            \cup (IF Full THEN {<<"none", h>> : h \in HS} ELSE {})
(* iat (absent / past / future) is crossed with every other class: time, key, algorithm, mutation *)
(* (with header-algorithm lies only when Full)                                                  *)
Toks == {Tok(k, ah[1], ah[2], tt[1], tt[2], "absent", m) :
            k \in {"k0", "k1"}, ah \in AlgPairs, tt \in TT, m \in {"none", "payload", "sig"}}
        \cup {Tok(k, ah[1], ah[2], tt[1], tt[2], i, m) :
            k \in {"k0", "k1"}, ah \in (IF Full THEN AlgPairs ELSE {<<a, a>> : a \in HS \cup {"none"}}),
            tt \in TT, i \in {"past", "future"}, m \in {"none", "payload", "sig"}}
VTk(c)     == Tok("k0", c.jwt.alg, c.jwt.alg, 2, 6, "absent", "none")      \* a valid token
RepToks(c) == {VTk(c),
               Tok("k0", c.jwt.alg, c.jwt.alg, 1, 3, "past", "none"),      \* expired
               Tok("k1", c.jwt.alg, c.jwt.alg, 2, 6, "absent", "none")}    \* other key
BsRight == Bs("uPlain", "v1", "right", TRUE)

JwtReqs(c) ==
    {R(<<>>, "bearer", t, NoTok, NoSg, NoBs) : t \in Toks}
    \cup {R(<<>>, "none", NoTok, t, NoSg, NoBs) : t \in (IF c.jwt.cookie THEN Toks ELSE RepToks(c))}
    \cup {R(<<>>, "bearer", t, u, NoSg, NoBs) : t \in RepToks(c), u \in RepToks(c)}
    \cup {R(<<>>, a, NoTok, u, NoSg, NoBs) : a \in {"none", "other"}, u \in {NoTok} \cup RepToks(c)}
    \cup {R(<<>>, "basic", NoTok, u, NoSg, BsRight) : u \in {NoTok} \cup RepToks(c)}

Muts == {NoMut} \cup {Mut1(p) : p \in Parts}
        \cup (IF Full THEN {[x \in Parts |-> x = p \/ x = q] : p \in {"iheader", "body"}, q \in Parts} ELSE {})
(* the key classes of the first generation are crossed with everything; the others (second       *)
(* secret of a known id, empty id / empty secret) with carrier, body and - when Full - age and    *)
(* the single mutations                                                                           *)
SgKeys1 == {"id0", "id1", "id0wrongsecret", "unknown"}
SgKeys2 == SgKeys \ SgKeys1
SgFor(c) ==
    {Sg("header", k, a, "-", c.sig.excl, b, m) : k \in SgKeys1, a \in SgAges, b \in BOOLEAN, m \in Muts}
    \cup {Sg("query", k, a, pe, c.sig.excl, b, m) :
             k \in SgKeys1, a \in SgAges, pe \in {"live", "expired"}, b \in BOOLEAN, m \in Muts}
    \cup {Sg(ca, k, a, IF ca = "query" THEN "live" ELSE "-", c.sig.excl, b, m) :
             ca \in {"header", "query"}, k \in SgKeys2, a \in (IF Full THEN SgAges ELSE {"fresh"}), b \in BOOLEAN,
             m \in (IF Full THEN {NoMut} \cup {Mut1(p) : p \in Parts} ELSE {NoMut, Mut1("iheader")})}
    \cup {Sg(ca, "id0", "fresh", IF ca = "query" THEN "live" ELSE "-", ~c.sig.excl, b, m) :
             ca \in {"header", "query"}, b \in BOOLEAN, m \in {NoMut, Mut1("body"), Mut1("path")}}
WellFormedSg(s) == (s.pexp = "expired" => s.age # "future")   \* a presigned URL from the future cannot have expired
SigReqs(c) ==
    {R(<<>>, IF s.carrier = "header" THEN "sig" ELSE "none", NoTok, NoTok, s, NoBs) :
        s \in {x \in SgFor(c) : WellFormedSg(x)}}
    \cup {R(<<>>, a, NoTok, NoTok, NoSg, NoBs) : a \in {"none", "other"}}
    \cup {R(<<>>, "basic", NoTok, NoTok, NoSg, BsRight)}

(* every user x every class of presented credentials (incl. the white-space classes padded /    *)
(* userPadded; trimmed only makes sense for the user whose credentials have white space)         *)
BsAll == {Bs(u, "v1", w, b) : u \in KnownUsers, w \in BsPws \ {"prefix", "trimmed"}, b \in BOOLEAN}
         \cup {Bs("uColon", "v1", "prefix", b) : b \in BOOLEAN}
         \cup {Bs("uBlank", "v1", "trimmed", b) : b \in BOOLEAN}
         \cup {Bs("unknown", "v1", w, b) : w \in {"wrong", "userPadded"}, b \in BOOLEAN}
         \cup {Bs(u, "v2", "right", TRUE) : u \in KnownUsers}    \* a password that is not (yet) configured
BasicReqs(c) ==
    {R(<<>>, "basic", NoTok, NoTok, NoSg, b) : b \in BsAll}
    \cup {R(<<>>, a, NoTok, NoTok, NoSg, NoBs) : a \in {"none", "other"}}
    \cup {R(<<>>, "bearer", Tok("k0", "HS256", "HS256", 2, 6, "absent", "none"), NoTok, NoSg, NoBs)}

HdrReqs(c) == {R(hv, "none", NoTok, NoTok, NoSg, NoBs) : hv \in HvAll}

(* several methods at once: representative credentials of every enabled method, combined        *)
(* (one Authorization header, one cookie, one query), closed under single mutation              *)
ComboBase(c) ==
    LET hvs  == IF c.hdr # "off" THEN {<<"inValues">>, <<"neither">>} ELSE {<<>>}
        cks  == IF c.jwt.on THEN {NoTok, VTk(c), Tok("k0", c.jwt.alg, c.jwt.alg, 1, 3, "future", "none")} ELSE {NoTok}
        hsg  == {Sg("header", "id0", "fresh", "-", c.sig.excl, TRUE, NoMut),
                 Sg("header", "id1", "fresh", "-", c.sig.excl, FALSE, NoMut),
                 Sg("header", "id0", "fresh", "-", c.sig.excl, TRUE, Mut1("body"))}
        qsg  == {NoSg, Sg("query", "id1", "fresh", "live", c.sig.excl, TRUE, NoMut),
                 Sg("query", "id0", "fresh", "live", c.sig.excl, FALSE, Mut1("path"))}
        plain == {R(<<>>, "none", NoTok, NoTok, NoSg, NoBs), R(<<>>, "other", NoTok, NoTok, NoSg, NoBs)}
                 \cup {R(<<>>, "bearer", t, NoTok, NoSg, NoBs) :
                          t \in {VTk(c), Tok("k1", c.jwt.alg, c.jwt.alg, 2, 6, "past", "none")}}
                 \cup {R(<<>>, "basic", NoTok, NoTok, NoSg, b) :
                          b \in {Bs("uPlain", "v1", "right", TRUE), Bs("uPlain", "v1", "wrong", TRUE), Bs("uColon", "v1", "right", TRUE),
                               Bs("uBlank", "v1", "right", TRUE)}}
    IN  {[[r EXCEPT !.hv = hv] EXCEPT !.ck = ck] : r \in {[x EXCEPT !.sg = s] : x \in plain, s \in qsg}
                                                         \cup {R(<<>>, "sig", NoTok, NoTok, s, NoBs) : s \in hsg},
                                                   hv \in hvs, ck \in cks}
ComboReqs(c) == ComboBase(c) \cup UNION {Mutants(c, r) : r \in {x \in ComboBase(c) : Verdict(c, x, Env(c, Now0, Users0, Mat0)) = "accept"}}

(* clock mode: one token, every (nbf, exp) in a small range, in the header or in the cookie *)
ClockTimes == {-1} \cup 1..3
ClockReqs(c) ==
    {R(<<>>, "bearer", Tok("k0", "HS256", "HS256", nb, ex, "absent", "none"), NoTok, NoSg, NoBs) :
        nb \in ClockTimes, ex \in ClockTimes}
    \cup {R(<<>>, "bearer", Tok("k0", "HS256", "HS256", nb, ex, i, "none"), NoTok, NoSg, NoBs) :
        nb \in {-1, 2}, ex \in ClockTimes, i \in {"past", "future"}}
    \cup {R(<<>>, "bearer", Tok("k1", "HS256", "HS256", -1, ex, "past", "none"), NoTok, NoSg, NoBs) : ex \in {-1, 3}}
    \cup (IF c.jwt.cookie THEN
           {R(<<>>, "none", NoTok, Tok("k0", "HS256", "HS256", nb, ex, "past", "none"), NoSg, NoBs) :
               nb \in ClockTimes, ex \in ClockTimes} ELSE {})

(* etcd mode: Basic credentials of both users in both password versions, good and bad *)
EtcdReqs(c) ==
    {R(IF c.hdr = "off" THEN <<>> ELSE <<"inValues">>, "basic", NoTok, NoTok, NoSg, Bs(u, v, w, TRUE)) :
        u \in KnownUsers, v \in {"v1", "v2"}, w \in {"right", "wrong", "rightColonX"}}
    \cup {R(IF c.hdr = "off" THEN <<>> ELSE <<"inValues">>, "basic", NoTok, NoTok, NoSg, Bs("unknown", "v1", "wrong", TRUE))}

(* reconf mode.  Requests: credentials made with either JWT secret and algorithm, with every     *)
(* access key class, of every user in both password versions; a request keeps its meaning when   *)
(* the configuration changes under it                                                            *)
RcToks == {Tok(k, a, a, -1, -1, "absent", "none") : k \in {"k0", "k1"}, a \in {"HS256", "HS384"}}
          \cup {Tok("k0", "HS256", "HS256", -1, 6, "past", "none"), Tok("k1", "HS256", "HS256", -1, -1, "absent", "sig")}
RcSgs(c) == {Sg(ca, k, "fresh", IF ca = "query" THEN "live" ELSE "-", c.sig.excl, ca = "header", m) :
                ca \in {"header", "query"}, k \in SgKeys \ {"noidsecret", "id0nosecret"}, m \in {NoMut, Mut1("query")}}
RcBss == {Bs(u, v, w, TRUE) : u \in {"uPlain", "uColon"}, v \in {"v1", "v2"}, w \in {"right", "wrong"}}
         \cup {Bs("uBlank", "v1", "right", TRUE), Bs("uBlank", "v1", "padded", TRUE), Bs("unknown", "v1", "wrong", TRUE)}
ReconfReqs(c) ==
    IF c.sig.on
    THEN {R(<<>>, IF s.carrier = "header" THEN "sig" ELSE "none", NoTok, NoTok, s, NoBs) : s \in RcSgs(c)}
    ELSE IF c.basic = "etcd" THEN {R(<<>>, "basic", NoTok, NoTok, NoSg, b) : b \in RcBss}
    ELSE   \* jwt and/or basicAuth FILE: methods come and go, so the requests carry one or both credentials
         {R(<<>>, "bearer", t, NoTok, NoSg, NoBs) : t \in RcToks}
         \cup {R(<<>>, "none", NoTok, t, NoSg, NoBs) : t \in RcToks}          \* cookie: a carrier only while configured
         \cup {R(<<>>, "none", NoTok, NoTok, NoSg, NoBs)}
         \cup {R(<<>>, "basic", NoTok, NoTok, NoSg, b) : b \in RcBss}
         \cup {R(<<>>, "basic", NoTok, Tok(k, "HS384", "HS384", -1, -1, "absent", "none"), NoSg, Bs("uPlain", v, "right", TRUE)) :
                  k \in {"k0", "k1"}, v \in {"v1", "v2"}}
(* hot updates: the enabled methods get new material (every JWT secret x {HS256, HS384} x cookie  *)
(* carrier; every access key table with at least one key; user tables); a configuration with jwt *)
(* and basicAuth may drop one of the two, one with jwt (cookie) or basicAuth FILE alone may gain  *)
(* the other.  The unchanged spec is one of the updates (the pipeline re-inherits every filter   *)
(* when anything in the pipeline changes).                                                       *)
RcTables == {t \in UserTables : \/ t["uColon"] = "v1" /\ t["uBlank"] = "v1"
                                \/ t["uColon"] = "v1" /\ t["uPlain"] = "v1" /\ t["uBlank"] = "gone"
                                \/ \A u \in KnownUsers : t[u] = "gone"}
GenRecfgs(c, e) ==
    IF Mode # "reconf" THEN {}
    ELSE LET js == IF c.jwt.on THEN {J(al, ck) : al \in {"HS256", "HS384"}, ck \in BOOLEAN}
                                    \cup (IF c.basic # "off" THEN {JOff} ELSE {})
                   ELSE IF c.basic = "file" THEN {JOff, J("HS384", TRUE)} ELSE {JOff}
             bs == IF c.basic # "off" THEN {c.basic} \cup (IF c.jwt.on THEN {"off"} ELSE {})
                   ELSE IF c.jwt.on /\ c.jwt.cookie THEN {"off", "file"} ELSE {"off"}
         IN {x \in {[cfg |-> [c EXCEPT !.jwt = j, !.basic = b], mat |-> [jsec |-> k, aks |-> a], users |-> u] :
                      j \in js, b \in bs, k \in (IF c.jwt.on THEN {"k0", "k1"} ELSE {e.jsec}),
                      a \in (IF c.sig.on THEN {t \in AkTables : \E i \in AkIds : t[i] # "gone"} ELSE {e.aks}),
                      u \in (IF c.basic # "off" THEN RcTables ELSE {e.users})} :
                \E m \in Methods : Enabled(x.cfg, m)}

(* the credential snapshots explored (etcd mode): every table of uPlain and uColon with uBlank    *)
(* unchanged, uBlank removed / its password changed with the others unchanged, the empty table   *)
GenTables == {t \in UserTables : \/ t["uBlank"] = "v1"
                                 \/ t["uPlain"] = "v1" /\ t["uColon"] = "v1"
                                 \/ \A u \in KnownUsers : t[u] = "gone"}
TablesOk == (ns' = ns + 1 \/ ne' = ne + 1) => users' \in GenTables

GenCfgs == IF Mode = "clock" THEN ClockCfgs ELSE IF Mode = "etcd" THEN EtcdCfgs ELSE IF Mode = "file" THEN FileCfgs
           ELSE IF Mode = "reconf" THEN ReconfCfgs ELSE EnumCfgs
GenReqs(c) ==
    IF Mode = "clock" THEN ClockReqs(c)
    ELSE IF Mode \in {"etcd", "file"} THEN EtcdReqs(c)
    ELSE IF Mode = "reconf" THEN ReconfReqs(c)
    ELSE IF c \in ComboCfgs THEN ComboReqs(c)
    ELSE IF c.hdr # "off" THEN HdrReqs(c)
    ELSE IF c.jwt.on THEN JwtReqs(c)
    ELSE IF c.sig.on THEN SigReqs(c)
    ELSE BasicReqs(c)

----------------------------------------------------------------------------------------------
Act == IF n' = n + 1 THEN "present" ELSE IF ns' = ns + 1 THEN "sync" ELSE IF nr' = nr + 1 THEN "reconf"
       ELSE IF ne' = ne + 1 THEN "edit" ELSE IF stale' # stale THEN "settle" ELSE "adv"
Describe ==   \* of the step just taken (primed variables)
    IF n' = n + 1
    THEN [a |-> "present", cfg |-> cfg', mat |-> mat', now |-> now', users |-> users', settled |-> (stale' = {}), req |-> req',
          v |-> [m \in Methods |-> V(cfg', req', at', m)], exp |-> Verdict(cfg', req', at'),
          impl |-> [pinned |-> ImplRes(cfg', req', at', FALSE), repaired |-> ImplRes(cfg', req', at', TRUE)]]
    ELSE IF ns' = ns + 1 THEN [a |-> "sync", users |-> users']
    ELSE IF nr' = nr + 1 THEN [a |-> "reconf", cfg |-> cfg', mat |-> mat', users |-> users']
    ELSE IF ne' = ne + 1 THEN [a |-> "edit", users |-> users']
    ELSE IF stale' # stale THEN [a |-> "settle"]
    ELSE [a |-> "adv", d |-> now' - now, now |-> now']

GInit == Init /\ out = ToJson([a |-> "init", cfg |-> cfg, mat |-> mat, now |-> now, users |-> users]) /\ lastA = "init"
GNext == Next /\ TablesOk /\ out' = ToJson(Describe) /\ lastA' = Act
GSpec == GInit /\ [][GNext]_<<vars, out, lastA>>
(* clock behaviours for replay: the request presented first is presented again and again while   *)
(* the clock advances (a random walk over all requests would hardly ever present a token twice)  *)
(* ... and that first request is one the contract accepts in SOME environment (at some time / for *)
(* some user table), so that the behaviour shows acceptance turning into rejection and back      *)
(* (reconf: in the first generation or in one that a single hot update leads to)                 *)
Interesting(c, r) ==
    \/ \E t \in Now0..MaxNow, us \in (IF c.basic = "etcd" \/ Mode = "file" THEN UserTables ELSE {Users0}) :
          Verdict(c, r, Env(c, t, us, Mat0)) = "accept"
    \/ \E x \in GenRecfgs(c, Env(c, Now0, Users0, Mat0)) : Verdict(x.cfg, r, Env(x.cfg, Now0, x.users, x.mat)) = "accept"
(* reconf behaviours: [switch to a request, hot update(s), the same request again] three times; the *)
(* request switched to is one the running generation must accept (1st, 3rd) or one that it or a   *)
(* generation one update away accepts (2nd); one update between the two presentations, after the *)
(* second switch one or two.  (A random walk would spend its updates in a row, there being many  *)
(* more of them than requests, and start from a request that is rejected.)                       *)
RcShape ==
    /\ (n' = n + 1 =>
          IF n % 2 = 0
          THEN IF n = 2 THEN Interesting(cfg, req') ELSE Verdict(cfg, req', Cur) = "accept"
          ELSE req' = req /\ nr >= (n + 1) \div 2)
    /\ (nr' = nr + 1 => n % 2 = 1 /\ nr < (IF n = 3 THEN 3 ELSE (n + 1) \div 2))
(* file behaviours: the request presented first is presented again and again; in between the user *)
(* file is edited, one to three times in a row, then the source settles and the request is        *)
(* presented; sometimes it is also presented to the source that has not settled yet.              *)
(* [P] E+ [P] S P E+ [P] S P ...                                                                   *)
FShape ==
    /\ (n' = n + 1 => IF n = 0 THEN Interesting(cfg, req') ELSE req' = req /\ lastA # "present")
    /\ (ne' = ne + 1 => n > 0 /\ Cardinality(stale) < 3 /\ lastA # "settle")
(* the replay does not use the observation a behaviour carries: one representative per verdict   *)
(* (so that the walk chooses uniformly among requests, not among (request, observation) pairs)  *)
Canon == n' = n + 1 => res'.acc \/ (res'.status = 401 /\ res'.intact)
CNext == /\ Next
         /\ TablesOk
         /\ Canon                                                                     \* (before the costly description)
         /\ IF Mode = "reconf" THEN RcShape
            ELSE IF Mode = "file" THEN FShape
            ELSE (n' = n + 1 => IF n > 0 THEN req' = req ELSE Interesting(cfg, req'))
         /\ out' = ToJson(Describe) /\ lastA' = Act
CSpec == GInit /\ [][CNext]_<<vars, out, lastA>>
(* the same behaviours without the cost of describing them (model checking only) *)
MSpec == Init /\ out = "" /\ lastA = "" /\ [][Next /\ TablesOk /\ UNCHANGED <<out, lastA>>]_<<vars, out, lastA>>
(* ... and with the first request presented again (reconf mode: the theorems about hot updates are *)
(* about one request before and after; every (configuration, material, table, request) is still  *)
(* reached, but not every PAIR of requests)                                                      *)
RSpec == Init /\ out = "" /\ lastA = "" /\ [][Next /\ TablesOk /\ UNCHANGED <<out, lastA>> /\ (n' = n + 1 /\ n > 0 => req' = req)]_<<vars, out, lastA>>

(* file mode, model checking: the same with the edits drawn from a smaller set of tables (uBlank   *)
(* untouched, uColon there or removed, uPlain in every state; the empty table): the state space   *)
(* is the product of (current table, set of earlier tables) with everything else; basicAuth alone *)
FileMcTables == {t \in UserTables : \/ (t["uBlank"] = "v1" /\ t["uColon"] \in {"v1", "gone"})
                                     \/ (\A u \in KnownUsers : t[u] = "gone")}
FSpec == Init /\ cfg.hdr = "off" /\ out = "" /\ lastA = ""
         /\ [][Next /\ (ne' = ne + 1 => users' \in FileMcTables) /\ UNCHANGED <<out, lastA>>
                /\ (n' = n + 1 /\ n > 0 => req' = req) /\ Canon]_<<vars, out, lastA>>

(* every single mutation of a not yet mutated request (carrying one token at most) that must be *)
(* accepted is itself one of the enumerated vectors, i.e. it is executed on the real code from  *)
(* the same concrete request                                                                    *)
Clean(c, r) ==   \* no credentials of methods that are not enabled
    /\ (r.auth = "basic" => c.basic # "off") /\ (r.auth = "bearer" => c.jwt.on) /\ r.auth # "other"
    /\ (r.ck.p => c.jwt.on /\ c.jwt.cookie) /\ (r.sg.p => c.sig.on)
MutantsEnumerated ==
    Presented /\ Verdict(cfg, req, at) = "accept" /\ req.sg.mut = NoMut /\ ~(req.tok.p /\ req.ck.p) /\ Clean(cfg, req)
        /\ (Full \/ (req.tok.iat = "absent" /\ req.ck.iat = "absent"))
        => Mutants(cfg, req) \subseteq GenReqs(cfg)

view == vars
=============================================================================

--------------------------- MODULE Validator_Trace ---------------------------
(* Trace validation for C06.  The harness logs, for every real Validator it built, a "reset"    *)
(* event (its abstract configuration and the clock), then "present" events (the abstract record *)
(* of the request it concretised and sent through the server path, with the observed result)    *)
(* "adv" events (the JWT clock moved), "sync" events (a snapshot of the credential table was     *)
(* delivered to the validator's etcd watcher and applied), "edit" events (FILE mode: the harness  *)
(* has rewritten the user file; it now holds the table the event carries), "settle" events (the   *)
(* user file has not been touched for the bounded time the harness grants the validator's file    *)
(* watcher - see the harness for how the wait is decided) and "reconf" events (a new generation  *)
(* was built from a new spec with Inherit(running generation), the old one closed; the event     *)
(* carries the abstract configuration, credential material and user table of the new spec).      *)
(* Every present event must be a Present step of the contract (Validator.tla) with the observed  *)
(* result among Outcomes(cfg, req, Cur).                                                         *)
(*                                                                                              *)
(* Events the contract does not allow are NOT a dead end here: they are consumed, and recorded  *)
(* in `bad` together with the per-method verdicts, so that one run judges every logged case     *)
(* (the pinned tree has known defects; a different violation must still be seen).  `bad` is     *)
(* written to IOEnv.VERIF_BAD by the postcondition; the contract's invariants are evaluated on  *)
(* every observed state that was not flagged.                                                   *)
EXTENDS Validator, Json, TLC, IOUtils

TLog == ndJsonDeserialize(IOEnv.VERIF_TRACE)

VARIABLES l,      \* next trace line
          pl,     \* line of the last present event
          bad     \* sequence of [l, v, exp] for the events the contract does not allow

tvars == <<vars, l, pl, bad>>   \* (vars of Validator: includes stale and ne)

NoReqs(c) == {}
NoRecfgs(c, e) == {}

IsEvent(e) == l <= Len(TLog) /\ TLog[l].ev = e /\ l' = l + 1

TReset ==
    /\ IsEvent("reset")
    /\ cfg' = TLog[l].cfg /\ mat' = Mat0 /\ now' = TLog[l].now /\ users' = Users0
    /\ at' = Env(TLog[l].cfg, TLog[l].now, Users0, Mat0)
    /\ req' = NoReq /\ res' = NoRes /\ n' = 0 /\ ns' = 0 /\ nr' = 0 /\ ne' = 0 /\ stale' = {}
    /\ UNCHANGED <<bad, pl>>

TAdv ==
    /\ IsEvent("adv")
    /\ TLog[l].d > 0
    /\ now' = now + TLog[l].d
    /\ UNCHANGED <<cfg, mat, users, stale, req, res, at, n, ns, nr, ne, bad, pl>>

TSync ==
    /\ IsEvent("sync")
    /\ cfg.basic = "etcd" /\ TLog[l].users \in UserTables
    /\ users' = TLog[l].users /\ ns' = ns + 1
    /\ UNCHANGED <<cfg, mat, now, stale, req, res, at, n, nr, ne, bad, pl>>

TEdit ==
    /\ IsEvent("edit")
    /\ cfg.basic = "file" /\ TLog[l].users \in UserTables
    /\ users' = TLog[l].users /\ stale' = stale \cup {users} /\ ne' = ne + 1     \* Edit, also with the table unchanged (a touch)
    /\ UNCHANGED <<cfg, mat, now, req, res, at, n, ns, nr, bad, pl>>

(* a settle event after which nothing was pending (the harness grants the wait anyway) is a stutter *)
TSettle ==
    /\ IsEvent("settle")
    /\ cfg.basic = "file"
    /\ stale' = {}
    /\ UNCHANGED <<cfg, mat, now, users, req, res, at, n, ns, nr, ne, bad, pl>>

TReconf ==
    /\ IsEvent("reconf")
    /\ TLog[l].mat \in Mats /\ TLog[l].users \in UserTables
    /\ Reconfigure([cfg |-> TLog[l].cfg, mat |-> TLog[l].mat, users |-> TLog[l].users])
    /\ UNCHANGED <<bad, pl>>

TPresent ==
    /\ IsEvent("present")
    /\ PresentAny(TLog[l].req, TLog[l].res)
    /\ pl' = l
    /\ bad' = IF TLog[l].res \in Outcomes(cfg, TLog[l].req, Cur) THEN bad
              ELSE Append(bad, [l |-> l, v |-> [m \in Methods |-> V(cfg, TLog[l].req, Cur, m)],
                                exp |-> Verdict(cfg, TLog[l].req, Cur)])

TNext == TReset \/ TAdv \/ TSync \/ TEdit \/ TSettle \/ TReconf \/ TPresent

TInit ==
    /\ l = 1 /\ pl = 0 /\ bad = <<>>
    /\ cfg = [hdr |-> "both", jwt |-> [on |-> FALSE, alg |-> "HS256", cookie |-> FALSE],
              sig |-> [on |-> FALSE, ttl |-> FALSE, excl |-> FALSE], basic |-> "off"]
    /\ mat = Mat0 /\ now = 0 /\ users = Users0 /\ at = Env(cfg, 0, Users0, Mat0) /\ req = NoReq /\ res = NoRes
    /\ n = 0 /\ ns = 0 /\ nr = 0 /\ ne = 0 /\ stale = {}

TSpec == TInit /\ [][TNext]_tvars

Flagged == bad # <<>> /\ bad[Len(bad)].l = pl      \* the observation in the current state was flagged
TContract == ~Flagged => /\ OnlyIfAllAccept /\ Complete /\ RejectShape /\ AcceptShape
                         /\ SingleMutationRejected /\ IatNeverRescues /\ NotBeforeNbf /\ NeverAfterExp
                         /\ OnlyCurrentCredentials /\ EmptyTableRejectsAll
                         /\ OnlyCurrentSecret /\ OnlyCurrentAccessKeys /\ NoAnonymousSigner

ASSUME TLCSet(1, 0)
HWM == TLCSet(1, IF l - 1 > TLCGet(1) THEN l - 1 ELSE TLCGet(1))
(* the log is one linear behaviour: the final state is the one that consumed every line *)
Final == l = Len(TLog) + 1 => JsonSerialize(IOEnv.VERIF_BAD, bad)
Accepted == /\ PrintT(<<"VERIF_HWM", TLCGet(1), Len(TLog)>>)
            /\ TLCGet(1) = Len(TLog)
=============================================================================

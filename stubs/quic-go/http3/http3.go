// Package http3 is a build stub: quic-go v0.27.2 refuses to compile with the installed Go, so the
// verification harnesses build pkg/object/httpserver against this stand-in. HTTP/3 is outside
// every claim (DESIGN 3.2).
package http3

import (
	"errors"
	"net/http"
)

// Server mirrors the only shape easegress uses.
type Server struct {
	*http.Server
}

// ListenAndServe is not supported in the stub.
func (s *Server) ListenAndServe() error { return errors.New("http3 stub: not supported") }

// Close closes nothing.
func (s *Server) Close() error { return nil }

// Package quic is a build stub (see http3).
package quic

#!/usr/bin/env python3
"""Runs the repository's baseline suite with the verif tag OFF and compares with /root/.vp/BASELINE.json stable_pass."""
import json, os, subprocess, sys
repo = sys.argv[1] if len(sys.argv) > 1 else "/repo"
base = json.load(open("/root/.vp/BASELINE.json"))
want = set(base["stable_pass"])
env = dict(os.environ, GOFLAGS="-mod=mod", GOPROXY="off", GOSUMDB="off")
p = subprocess.run(["go", "test", "-json", "-vet=off", "-count=1", "-timeout", "25m", "./..."], cwd=repo, env=env, capture_output=True, text=True)
passed, failed = set(), set()
for ln in p.stdout.splitlines():
    try:
        e = json.loads(ln)
    except Exception:
        continue
    if e.get("Test") and e.get("Action") in ("pass", "fail"):
        (passed if e["Action"] == "pass" else failed).add("%s::%s" % (e["Package"], e["Test"]))
missing = sorted(want - passed)
print("baseline: %d/%d stable tests pass; %d missing/failing" % (len(want & passed), len(want), len(missing)))
for m in missing[:30]:
    print("  NOT PASSING:", m, "(failed)" if m in failed else "(not run)")
sys.exit(1 if missing else 0)

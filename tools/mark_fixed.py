#!/usr/bin/env python3
"""mark_fixed.py <PROP> <finding-id> <commit>: move a finding to the `fixed` list of known_findings.json."""
import glob, json, os, sys
V = os.path.dirname(os.path.dirname(os.path.abspath(__file__)))
prop, fid, commit = sys.argv[1:4]
kfp = os.path.join(V, "known_findings.json")
kf = json.load(open(kfp))
found = None
for p in [kfp] + sorted(glob.glob(os.path.join(V, "findings.d", "*.json"))):
    d = kf if p == kfp else json.load(open(p))
    keep = []
    for f in d.get("findings", []):
        if f.get("property") == prop and f.get("id") == fid:
            found = f
        else:
            keep.append(f)
    if len(keep) != len(d.get("findings", [])):
        d["findings"] = keep
        if p != kfp:
            if keep or d.get("fixed"):
                json.dump(d, open(p, "w"), indent=1)
            else:
                os.remove(p)
if not found:
    sys.exit("finding %s/%s not found" % (prop, fid))
kf.setdefault("fixed", []).append({"property": prop, "id": fid, "commit": commit, "what": found.get("what", ""), "match": found.get("match", {})})
json.dump(kf, open(kfp, "w"), indent=1)
print("fixed: property=%s %s %s" % (prop, commit, fid))

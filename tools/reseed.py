#!/usr/bin/env python3
"""reseed.py <cNN> [n1 n2 ...]: re-run the stored seeded changes of one property against the current checks.
Applies seeded/<ID>-<n>/patch.diff in the scratch worktree /tmp/seed-<cNN> (at /repo HEAD), runs
`VERIF_REPO=<worktree> ./check <ID>` (quick) and prints one line per seed. Neutralised seeds are skipped."""
import glob, json, os, subprocess, sys
V = os.path.dirname(os.path.dirname(os.path.abspath(__file__)))
cid = sys.argv[1].lower()
ID = cid.upper()
wt = "/tmp/seed-" + cid
head = subprocess.run(["git", "-C", "/repo", "rev-parse", "HEAD"], capture_output=True, text=True).stdout.strip()
want = sys.argv[2:]
for d in sorted(glob.glob(os.path.join(V, "seeded", ID + "-*")), key=lambda p: int(p.rsplit("-", 1)[1])):
    n = d.rsplit("-", 1)[1]
    if want and n not in want:
        continue
    meta = json.load(open(d + "/meta.json"))
    if meta.get("neutralised_by_fix"):
        print("%s-%s neutralised" % (ID, n), flush=True)
        continue
    for c in (["reset", "-q", "--hard"], ["clean", "-fdq"], ["checkout", "-q", "--detach", head]):
        subprocess.run(["git", "-C", wt] + c, capture_output=True)
    p = subprocess.run(["git", "-C", wt, "apply", d + "/patch.diff"], capture_output=True, text=True)
    if p.returncode != 0:
        print("%s-%s NOAPPLY" % (ID, n), flush=True)
        continue
    prop = (meta.get("covered_by_other_check") or {}).get("check") if meta.get("check", {}).get("check_quick_rc") != 1 else None
    r = subprocess.run([os.path.join(V, "check"), prop or ID], cwd=V, env=dict(os.environ, VERIF_REPO=wt), capture_output=True, text=True)
    print("%s-%s by %s rc=%d" % (ID, n, prop or ID, r.returncode), flush=True)
    subprocess.run(["git", "-C", wt, "reset", "-q", "--hard"], capture_output=True)

#!/usr/bin/env python3
"""Confirm, run and store seeded breaking changes produced by independent sub-agents.

  seedtool.py confirm <cNN>          for every /tmp/seed-<cNN>-out/<i>: demo passes without the patch, fails
                                     with it, the affected packages' own tests pass with it
  seedtool.py check <cNN> [tier]     apply each confirmed patch in the worktree /tmp/seed-<cNN> and run
                                     `VERIF_REPO=<worktree> ./check <CNN>`; records the exit code
  seedtool.py store <cNN>            copy confirmed seeds to /verif/seeded/<CNN>-<i>/ (patch.diff, demo, meta.json)
State is kept in /tmp/seed-<cNN>-out/<i>/status.json.
"""
import glob
import json
import os
import shutil
import subprocess
import sys

V = os.path.dirname(os.path.dirname(os.path.abspath(__file__)))
ENV = dict(os.environ, GOFLAGS="-mod=mod", GOPROXY="off", GOSUMDB="off", GOTOOLCHAIN="local")
STUB = ["-modfile=/tmp/seedmod/go.mod", "-ldflags=-checklinkname=0"]


def sh(cmd, cwd, timeout=1500, env=ENV):
    p = subprocess.run(cmd, cwd=cwd, env=env, capture_output=True, text=True, timeout=timeout)
    return p.returncode, p.stdout + p.stderr


def gotest(wt, pkgs, run=None, stub=False, timeout=1200):
    cmd = ["go", "test", "-vet=off", "-count=1", "-timeout", "900s"]
    if stub:
        cmd += STUB
    if run:
        cmd += ["-run", run]
    cmd += ["./" + p.strip("./") + "/" for p in pkgs]
    return sh(cmd, wt, timeout)


PFX = os.environ.get("SEEDPFX", "seed")          # SEEDPFX=seed2: second round, outputs in /tmp/seed2-<cNN>-out, stored as <ID>-4..6
OFFSET = {"seed": 0, "seed2": 3, "seed3": 6, "seed4": 9, "seed5": 12}.get(PFX, 0)


def seeds(cid):
    return sorted(d for d in glob.glob("/tmp/%s-%s-out/*" % (PFX, cid)) if os.path.isdir(d) and os.path.exists(d + "/patch.diff"))


def clean(wt):
    sh(["git", "reset", "-q", "--hard"], wt)
    sh(["git", "clean", "-fdq"], wt)


def changed_pkgs(d):
    pk = set()
    for ln in open(d + "/patch.diff"):
        if ln.startswith("+++ b/") and ln.strip().endswith(".go"):
            pk.add(os.path.dirname(ln[6:].strip()))
    return pk


def confirm(cid):
    wt = "/tmp/seed-" + cid
    for d in seeds(cid):
        meta = json.load(open(d + "/meta.json"))
        pkg = meta.get("demo_pkg", "").strip("./")
        run = meta.get("demo_run") or "."
        st = {"confirmed": False}
        clean(wt)
        head = subprocess.run(["git", "-C", "/repo", "rev-parse", "HEAD"], capture_output=True, text=True).stdout.strip()
        sh(["git", "checkout", "-q", "--detach", head], wt)
        st["repo_head"] = head[:7]
        pkgs = changed_pkgs(d) | {pkg}
        stub = bool(meta.get("needs_stub_modfile")) or any("httpserver" in p for p in pkgs)
        demo = os.path.join(wt, pkg, "zz_seed_demo_test.go")
        try:
            shutil.copy(d + "/demo_test.go", demo)
            rc0, out0 = gotest(wt, [pkg], run, stub)
            rc, o = sh(["git", "apply", "-3", d + "/patch.diff"], wt)
            sh(["git", "reset", "-q"], wt)
            if rc != 0:
                st["error"] = "patch does not apply: " + o[-300:]
            else:
                rc1, out1 = gotest(wt, [pkg], run, stub)
                os.remove(demo)
                rc2, out2 = gotest(wt, sorted(pkgs), None, stub)
                st.update({"demo_without_patch_rc": rc0, "demo_with_patch_rc": rc1, "existing_tests_with_patch_rc": rc2,
                           "pkgs": sorted(pkgs), "stub": stub})
                st["confirmed"] = rc0 == 0 and rc1 != 0 and "FAIL" in out1 and "build failed" not in out1 and rc2 == 0
                if not st["confirmed"]:
                    st["detail"] = {"without": out0[-600:], "with": out1[-600:], "existing": out2[-600:]}
        finally:
            if os.path.exists(demo):
                os.remove(demo)
            clean(wt)
        json.dump(st, open(d + "/status.json", "w"), indent=1)
        print(d, "CONFIRMED" if st["confirmed"] else "NOT CONFIRMED", {k: v for k, v in st.items() if k.endswith("_rc")}, st.get("error", ""))
        if not st["confirmed"] and "detail" in st:
            print(json.dumps(st["detail"], indent=1)[:2500])


def check(cid, tier="quick"):
    wt = "/tmp/seed-" + cid
    for d in seeds(cid):
        stp = d + "/status.json"
        st = json.load(open(stp)) if os.path.exists(stp) else {}
        if not st.get("confirmed"):
            print(d, "skipped (not confirmed)")
            continue
        clean(wt)
        head = subprocess.run(["git", "-C", "/repo", "rev-parse", "HEAD"], capture_output=True, text=True).stdout.strip()
        sh(["git", "checkout", "-q", "--detach", head], wt)          # seeds are tried on the current /repo HEAD (with fixes and hooks)
        arc, aout = sh(["git", "apply", "-3", d + "/patch.diff"], wt)
        if arc != 0:
            print(d, "patch no longer applies to /repo HEAD:", aout[-300:])
            st["applies_to_head"] = False
            json.dump(st, open(stp, "w"), indent=1)
            clean(wt)
            continue
        sh(["git", "reset", "-q"], wt)
        try:
            rc, out = sh([os.path.join(V, "check"), cid.upper(), "--tier", tier], V, timeout=3600, env=dict(os.environ, VERIF_REPO=wt))
        finally:
            clean(wt)
        lines = [l for l in out.splitlines() if l.startswith(("VIOLATION", "   what", "OK ", "INCONCLUSIVE", "KNOWN-FINDING"))]
        st["check_%s_rc" % tier] = rc
        st["check_%s_lines" % tier] = lines[:8]
        json.dump(st, open(stp, "w"), indent=1)
        print(d, "check rc=%d" % rc, "DETECTED" if rc == 1 else ("MISSED" if rc == 0 else "INCONCLUSIVE"))
        for l in lines[:6]:
            print("    " + l[:300])


def store(cid):
    for d in seeds(cid):
        stp = d + "/status.json"
        st = json.load(open(stp)) if os.path.exists(stp) else {}
        if not st.get("confirmed"):
            continue
        i = str(int(os.path.basename(d)) + OFFSET)
        dst = os.path.join(V, "seeded", "%s-%s" % (cid.upper(), i))
        os.makedirs(dst, exist_ok=True)
        shutil.copy(d + "/patch.diff", dst)
        shutil.copy(d + "/demo_test.go", dst)
        meta = json.load(open(d + "/meta.json"))
        meta["confirmed"] = {"by": "lead (tools/seedtool.py confirm)",
                             "how": "demo copied into %s in a scratch worktree: passes without the patch (rc %s), fails with it (rc %s); "
                                    "existing tests of %s pass with the patch (rc %s)" % (
                                        meta.get("demo_pkg"), st.get("demo_without_patch_rc"), st.get("demo_with_patch_rc"),
                                        st.get("pkgs"), st.get("existing_tests_with_patch_rc"))}
        meta["check"] = {k: v for k, v in st.items() if k.startswith("check_")}
        if os.path.exists(dst + "/meta.json"):        # keep the lead's annotations (first run, cross coverage, ...)
            prev = json.load(open(dst + "/meta.json"))
            for k, v in prev.items():
                if k not in meta:
                    meta[k] = v
            if prev.get("check") and prev["check"] != meta["check"] and "first_check" not in meta:
                meta["first_check"] = prev["check"]
        json.dump(meta, open(dst + "/meta.json", "w"), indent=1)
        print("stored", dst)


if __name__ == "__main__":
    cmd, cid = sys.argv[1], sys.argv[2].lower()
    if cmd == "confirm":
        confirm(cid)
    elif cmd == "check":
        check(cid, sys.argv[3] if len(sys.argv) > 3 else "quick")
    elif cmd == "store":
        store(cid)

#!/usr/bin/env python3
"""sweep.py [--tier quick|thorough] [--seeds 1,2,3] [--props C01,C02,...] [--jobs N]: run checks, summarise exit codes and wall times."""
import argparse, json, os, subprocess, sys, time
from concurrent.futures import ThreadPoolExecutor
V = os.path.dirname(os.path.dirname(os.path.abspath(__file__)))
ap = argparse.ArgumentParser()
ap.add_argument("--tier", default="quick"); ap.add_argument("--seeds", default="1,2,3"); ap.add_argument("--props", default=""); ap.add_argument("--jobs", type=int, default=1)
a = ap.parse_args()
props = a.props.split(",") if a.props else [c["property_id"] for c in json.load(open(os.path.join(V, "MANIFEST.json")))["checks"]]
jobs = [(p, int(s)) for s in a.seeds.split(",") for p in props]
def run(j):
    p, s = j
    t0 = time.time()
    r = subprocess.run([os.path.join(V, "check"), p, "--tier", a.tier], cwd=V, env=dict(os.environ, VERIF_SEED=str(s)), capture_output=True, text=True)
    lines = [l for l in r.stdout.splitlines() if l.startswith(("VIOLATION", "INCONCLUSIVE", "KNOWN-FINDING", "   what"))]
    print("%s seed=%d rc=%d %.0fs %s" % (p, s, r.returncode, time.time() - t0, " | ".join(x[:160] for x in lines[:4])), flush=True)
    return r.returncode
with ThreadPoolExecutor(a.jobs) as ex:
    rcs = list(ex.map(run, jobs))
print("SWEEP %s: %d runs, %d ok, %d violation, %d inconclusive" % (a.tier, len(rcs), rcs.count(0), rcs.count(1), rcs.count(2)))
